#!/usr/bin/env python3
"""Regenerates /verif/MANIFEST.json from the table below (kept as a script so that the
manifest stays consistent with what is actually built). Usage: python3 tools_manifest.py"""
import json, os

BASELINE_OFF = ("cd /repo && cargo nextest run --workspace --no-fail-fast --tool-config-file pb:/w/lib/nextest.toml "
                "--profile pb --test-threads 8 --offline || cargo test --workspace --no-fail-fast --offline")

# id -> (engine, technique, level text, level note, design_ref)
CLAIMED = {
 "C01": ("E4 brokersim", "model-based stateful property testing (proptest histories against the real router stepped deterministically; reference broker model; exact shuffle-of-prefixes attribution oracle)",
         "Generated histories of client actions (connect/subscribe/unsubscribe/publish QoS0-2 incl. bursts >200, release, ack, drain, turn partitions, Ready timing) over generated router configurations are executed against the real Router one production loop iteration at a time; after every drain each forward must be attributable to a subscription stream (no foreign/duplicate/reordered/early/late message, right topic, payload, QoS, properties), and at every idle point every stream within retention must be complete. Exploration only: bounded history length and client count.",
         "Trusts: the reference model (harness/src/brokersim/model.rs, written from the MQTT rules), the reference matcher, hook H1 (verif_turn runs the unmodified run_inner) and the linearisation argument of DESIGN §3/§8 for link/router interleavings. Completeness only within the conservative retention bound.",
         "§5 C01"),
 "C13": ("E3 commitlog", "model-based stateful property testing (proptest op sequences on CommitLog against an append-history model) + exhaustive enumeration of short op sequences",
         "Random sequences of append/read/fabricated-read ops (<=400) over segment sizes {1024,1500,4096} x limits 1..5 and every op sequence up to length 7/9 over a 6-op alphabet are run against CommitLog; after every append a full scan must be a contiguous suffix of the history with stable strictly increasing tags, whole-segment eviction and the segment bound; every read through any issued cursor must return exactly the next retained entries, Done iff nothing remains, and a continuation that resumes gap-free. Exploration only.",
         "Trusts the model in harness/src/commitlog.rs; fabricated cursors are checked for absence of panics only; segment limit read as 'total segments incl. the active one' (unit tests and apply_retention agree).",
         "§5 C13"),
 "C12": ("E2 topic", "exhaustive enumeration of short string pairs + property-based testing (proptest) against a reference matcher; three-way differential",
         "Every (topic, filter) pair of strings up to length 4 (quick) / 5 (thorough) over an 8-symbol alphabet with '/', '+', '#', '$' and multi-byte characters is executed through all three copies and compared with an independent reference matcher and validators; random level-wise pairs up to 8 levels beyond that. Exploration: absence is not established beyond the enumerated bound.",
         "Trusts the reference matcher in harness/src/topic.rs as a reading of MQTT 3.1.1 §4.7 plus the documented '$' rule; empty topic validity is not judged (statement silent).",
         "§5 C12"),
}

E4 = "E4 brokersim"
MB = "model-based stateful property testing (proptest histories against the real router stepped deterministically; reference broker model"
T4 = "Trusts: the reference model (harness/src/brokersim/model.rs, written from the MQTT rules and the statement), hook H1 (verif_turn runs the unmodified run_inner), H2/H4, and the linearisation argument of DESIGN §3/§8."
CLAIMED.update({
 "C04": ("E1 codec", "property-based round-trip / differential testing (proptest) of four codecs against a neutral packet model and an independent reference framer/encoder/decoder",
         "Boundary-biased structured packets of every type, both versions, every v5 property on/off, remaining lengths on every width boundary (2 MiB boundary in the thorough tier) are encoded by each codec that can represent them: size reported == bytes written == reference frame length; decode(encode(M)+sentinel) == M leaving the sentinel; client-encoded packets decode in the broker and broker-encoded in the client to the same content; re-encoding is stable. Plus the reverse direction from reference-encoded and mutated bytes. Exploration only.",
         "Trusts the neutral model, normalise() and the reference encoder in harness/src/codec (written from the MQTT 3.1.1/5.0 specifications).",
         "§5 C04"),
 "C05": ("E1 codec", "exhaustive enumeration of short inputs + mutation-based and stream-chunking property testing (proptest) of four decoders against an independent reference framer",
         "Every first byte x 36 remaining-length encodings x bodies up to 3 (4 thorough) bytes over a 12-symbol alphabet for 4 decoders x 7 size limits (1.15e8 inputs quick), mutated valid frames, and concatenated frame streams with generated / exhaustive chunkings through direct decode, tokio_util Framed and rumqttd Network: no panic; a packet only from a complete frame with exactly the frame consumed and remaining length <= max; need-more only while the frame is incomplete; same outcome sequence for every chunking. Exploration beyond the enumerated bound.",
         "Trusts the reference framer; 'max' is read as a bound on the remaining length (what all four check() copies implement).",
         "§5 C05"),
 "C06": (E4, MB + "; owed-ack queue oracle)",
         "Histories biased to request packets from 2-4 clients: per client the sequence of ack notifications must equal the model's owed-ack list (kind, id, SUBACK codes, request order) as a prefix at every drain and completely at every idle point; QoS 2 publishes enter the acceptance log only at release (checked through the C01 delivery oracle). Exploration only.",
         T4 + " UNSUBSCRIBE of several / unknown filters generated since R8 was repaired in /repo.", "§5 C06"),
 "C08": (E4, MB + " with persistent sessions; resume-position oracle)",
         "Histories around persistent clients with breaks (DISCONNECT, link failure, takeover) at generated points, unacknowledged forwards at the break, publishes while away, reconnect cycles with alternating clean flags: CONNACK session_present must match the session rule; after resume each QoS>0 stream restarts exactly at the oldest forward the broker had not seen acknowledged, QoS 0 streams contain everything accepted after the break; clean connects start empty. Exploration only; completeness within the retention bound.",
         T4, "§5 C08"),
 "C09": (E4, MB + "; client-side window/id invariants)",
         "Backlogs up to 400 with generated ack pacing and Ready delays: after every drain <=100 unacknowledged QoS>0 forwards with unique non-zero ids (client's view), whole backlog delivered at idle with acks/Ready as the only stimulus; a second campaign sends unsolicited acks from one client: that connection must close, all others stay exact. Exploration only.",
         T4, "§5 C09"),
 "C15": (E4, MB + "; retained-store model with window semantics)",
         "Histories of retained / clearing / replacing publishes interleaved with new, repeated, shared and re-made subscriptions: replays flagged retained must be owed (new non-shared subscription), carry a value that was the topic's retained message in the subscription's window, cover every topic retained throughout the window (when it fits the delivery window); live copies are never flagged (a flagged live copy is consumed as replay and then missing from the live stream). Exploration only.",
         T4 + " R9 (non-retained empty payload clears the retained message) was repaired in /repo and is generated.", "§5 C15"),
 "C16": (E4, MB + "; wills as accepted messages of the model)",
         "Router part of the property: connections with/without will end by DISCONNECT or link failure, then PublishWill 0..n times: the will is an accepted message exactly when the connection ended without DISCONNECT and only once, so the C01 delivery oracle decides who must (not) receive it, incl. retained wills seen by later subscribers. The decision logic of remote() (which event is sent when) is not yet covered here (planned E5).",
         T4 + " Takeover histories are outside the claim and not generated.", "§5 C16"),
 "C17": (E4, MB + "; per-group delivery set oracle)",
         "Histories with 1-2 shared groups, 3-5 clean-session members joining/leaving/dropping, bursts, ack pacing, three strategies: a message is forwarded through a group at most once, only to a client that was a member between acceptance and delivery, each member's share in acceptance order; completeness at idle for round-robin groups that never emptied. Exploration only.",
         T4 + " R10 (parked member stall), R11 and R14 were repaired in /repo (R14: focused campaign with one share name on two filters).", "§5 C17"),
})

E6 = "E6 clientstate"
CLAIMED.update({
 "C02": (E6, "model-based stateful property testing (proptest op sequences on MqttState v4/v5 against a reference model of accepted publishes; set equality with clone().clean() after every step)",
         "State-machine layer: sequences (<=200) of user requests, broker acks chosen among the currently unacknowledged ids (out of order, duplicate, unsolicited, above the limit), inbound flows and failures with generated session_present are run against both MqttState implementations; after every step the set revealed by clean() on a clone plus the parked collision must equal the model's not-finally-acknowledged publishes and pending releases (nothing lost, resurrected or altered), and a resumed failure puts all of them on the wire again. The event-loop layer (crash points in bytes, channel backlog; E7) is being added.",
         "Trusts the reference model in harness/src/clientstate/interp.rs. User requests are fed only when the event loop would feed them (window not full, no collision).", "§5 C02"),
 "C07": (E6, "model-based stateful property testing (proptest) of MqttState v4/v5: wire-history invariants on packet ids, window and collision state",
         "Over the packets the state machine returns for the wire: ids non-zero and <= limit (v5: <= min(limit, receive maximum)), no publish emitted with an id the model holds as unacknowledged (QoS 2 until PUBCOMP), unacknowledged count <= limit, inflight() equals the model count after every step, a pending collision always names an id held by an unacknowledged publish and its final ack releases the parked publish. Limits 1..=8 crossed with random sequences plus 100 and 65535. The event-loop gate (E7) is being added.",
         "K7 (v5 negative reason codes) was repaired in /repo and is generated in the main campaigns.", "§5 C07"),
 "C10": (E6, "model-based stateful property testing (proptest) of MqttState v4/v5 inbound handling: reply rules and write<=>announce",
         "Arbitrary broker packet sequences (every type; ids valid, unsolicited, repeated, above the limit, 0) interleaved with user requests, manual_acks on/off: exactly one Incoming event per packet before any Outgoing it causes; QoS 1 -> PUBACK(id), QoS 2 -> PUBREC(id), PUBREL of a recorded id -> PUBCOMP(id), none when manual_acks; unsolicited acks are errors, never panics, and bookkeeping stays equal to the model; a packet is returned for writing iff exactly one matching Outgoing event was appended. The wire/batch layer (E7) is being added.",
         "Clauses the statement leaves open (PUBREL of unknown id, PUBCOMP under manual_acks, unsolicited SUBACK) are not asserted.", "§5 C10"),
 "C11": (E6, "exhaustive enumeration of short publish/ack sequences + property-based testing (proptest) of MqttState v4 clean() ordering",
         "All sequences over {publish QoS 1, ack oldest} up to length 18 (22 thorough) for limits 1..=8 and random longer ones with several id wrap-arounds: clean() at every prefix returns the unacknowledged publishes in original send order. The wire-level clauses (retransmit first, no session => start clean; E7) are being added.",
         "Order is asserted only for histories acknowledged in order (as the statement says). Known finding K9 excluded and probed.", "§5 C11"),
 "C03": (E4, MB + "; panic / slab-alignment / liveness-probe oracles over the widest event alphabet)",
         "Histories over every op of the simulator plus malformed, unsolicited, out-of-place packets, arbitrary Unicode and raw-byte topics/filters, forged and stale router events for live, never-registered and removed ids, ticks, shared groups, persistent sessions, takeovers: no router turn may panic, the five per-connection slabs stay aligned, the router reaches quiescence within a turn bound, and afterwards a fresh subscriber/publisher pair is served. Exploration only.",
         "Router configurations are restricted to those CommitLog::new accepts (operator input). Debug assertions off, overflow checks on.", "§5 C03"),
 "C14": (E4, MB + "; witness pair asserted, adversaries followed)",
         "A witness publisher/subscriber pair shares topics with 1-3 adversaries that draw from the C03 alphabet: the C01/C06/C09 clauses hold exactly for the witnesses at every drain and idle point and their connections stay registered after every router turn; adversaries' valid publishes are part of the model. Exploration only.",
         T4 + " R5 (recycled connection ids) was repaired in /repo (registration serial in the connection token); the former probe is a focused campaign.", "§5 C14"),
})

CLAIMED.update({
 "C19": (E4, MB + "; admission model and live-connection invariants after every turn)",
         "Router-level part of the property: connect / disconnect / link-failure / takeover histories by 2-6 clients (some with ids containing + $ # /) against max_connections 1..4: after every router turn live client ids are pairwise distinct, live connections <= max_connections, a connection attempt is registered iff its id is valid and a slot is free after a takeover removed the older connection, session_present follows the session rule. CONNECT validation / authentication (first sentence) is covered by the E5 engine, being merged.",
         T4 + " R5 (recycled connection ids) was repaired in /repo.", "§5 C19"),
 "C20": (E4, MB + "; every drained notification encoded with the subscriber's protocol and decoded with rumqttc)",
         "Router-level part: mixed v4/v5 clients, v5 publishes with every subset of the publish properties, subscription ids, broker topic aliases, all ack kinds and Disconnect notifications: every notification must be written by V4/V5 without error or panic and decode in rumqttc of that version to the same topic/payload, publisher properties preserved towards v5; the C01 delivery oracle applies. The end-to-end variant through two per-connection tasks is covered by the E5 engine, being merged.",
         T4, "§5 C20"),
})

E7 = "E7 clientloop"
for _p, _extra in {
  "C02": " Event-loop layer (E7): scripted-broker sessions over an in-memory transport under the paused clock with crash points after k bytes in either direction (every k for short scripts), 1-4 connections with generated session_present, channel backlog at failure time: at every poll boundary each accepted, not finally acknowledged QoS>0 publish is in the channel, `pending`, clean() of a clone or `collision`; resumed sessions put every carried publish / PUBREL on the wire again, session-less ones none; at quiescence everything is acknowledged.",
  "C07": " Event-loop layer (E7): the gate — a new user request is taken only when the window has room and no collision is pending, and is taken at the same virtual instant the ack frees it.",
  "C10": " Event-loop layer (E7): batches of 0..12 broker packets per write (crossing the 10-packet read batch): Incoming events are exactly the wire packets in order, Outgoing announcements are exactly what the broker decodes, bytes are flushed before poll() hands events out.",
  "C11": " Event-loop layer (E7): on resumed connections every in-flight publish and pending PUBREL precedes any never-sent request (original order for v4 QoS 1 acked oldest-first, also after failures during the replay); after a session-less CONNACK nothing carried over is sent.",
}.items():
    e, t, text, note, ref = CLAIMED[_p]
    CLAIMED[_p] = (e + " + " + E7, t + "; scripted-broker event-loop sessions under virtual time with byte-exact fault injection", text.replace(" The event-loop layer (crash points in bytes, channel backlog; E7) is being added.", "").replace(" The event-loop gate (E7) is being added.", "").replace(" The wire/batch layer (E7) is being added.", "").replace(" The wire-level clauses (retransmit first, no session => start clean; E7) are being added.", "") + _extra, note + " E7 trusts hook H6 (in-memory connector) and tokio's paused clock; select! order is seeded per case. K2 (carried channel requests bypassing flow control) was repaired in /repo and is generated in all E7 campaigns.", ref)
CLAIMED["C18"] = (E7, "property-based testing (proptest) of rumqttc EventLoop v4/v5 under tokio's paused clock with a scripted broker + exhaustive enumeration of reply phase offsets",
   "Keep-alive K in {1,2,5,30} s (v5 below 5 s through the CONNACK server keep alive), per-ping reply delay in [0,K) at ms granularity or silence from ping j on, user / broker traffic in either direction, K = 0, handshakes that never complete: gaps CONNACK->ping->ping <= K; a silent broker is reported (AwaitPingResp) within [T+K, T+2K] of the unanswered ping; no keep-alive error while every reply takes < K; no PINGREQ for K = 0; an incomplete handshake is reported at exactly the connection timeout. All (d1,d2) phase offsets on a 100 ms grid for K in {1,2} are enumerated. Exploration otherwise.",
   "Trusts hook H6 and the paused tokio clock (all wake-ups in-process, so virtual timestamps are exact).", "§5 C18")

E5 = "E5 fullstack"
for _p, _extra in {
  "C16": " Full-stack layer (E5): the real per-connection task remote() over an in-memory stream with the real router loop: connections with/without will end by DISCONNECT, close at any point (mid-packet, after PUBLISH), malformed packets, router-initiated close, keep-alive expiry (thorough), in a fifth of the client-side ends with the router backed up (event channel full, what remote() hands over must wait): an observer receives the will exactly once before a sentinel iff the client did not send DISCONNECT; retained copy visible to a late subscriber.",
  "C19": " Full-stack layer (E5): first bytes on a fresh connection (CONNECT with one or two defects: wrong protocol level/name, keep-alive 0, client id with + $ # /, empty id with/without clean session, login absent/wrong/right; any other packet; garbage; silence) against listeners with no auth / static map / external callback / both, followed by SUBSCRIBE+PUBLISH: a successful CONNACK is written iff the reference admission rule admits; otherwise the follow-up has no effect (observer + sentinel, session probe); end-to-end takeover.",
  "C20": " Full-stack layer (E5): publisher and subscriber through real v4/v5 connection tasks for all four version pairs, every subset of v5 publish properties incl. topic alias, QoS 0-2 with full ack flows: the subscriber's bytes decode to the published topic/payload (properties preserved towards v5, legal 3.1.1 frame towards v4) and both tasks stay alive (no panic, PINGRESP).",
}.items():
    e, t, text, note, ref = CLAIMED[_p]
    text = text.replace(" The decision logic of remote() (which event is sent when) is not yet covered here (planned E5).", "").replace(" CONNECT validation / authentication (first sentence) is covered by the E5 engine, being merged.", "").replace(" The end-to-end variant through two per-connection tasks is covered by the E5 engine, being merged.", "")
    CLAIMED[_p] = (e + " + " + E5, t + "; full-stack scripted clients against remote()+RemoteLink+Network over in-memory streams, barrier-synchronised", text + _extra, note + " E5 runs real tasks and a router thread: assertions are barrier-synchronised (sentinel messages, FIFO of the router channel); a watchdog expiry is inconclusive, never a violation. Hooks H1, H3, H5.", ref)

for _p, _extra in {
  "C09": " Full-stack layer (E5, campaign e5_flow): sustained publisher->subscriber flows (1-320 messages, QoS 0-2, payloads up to 3 KB) through the real connection tasks (RemoteLink/Network over 64 KiB duplex streams) with a generated read/ack rhythm incl. long pauses: exact ordered delivery, <=100 unacknowledged forwards with distinct ids, one PUBREL per PUBREC, and resumption without further stimulus decided by a clock-free quiescence detector.",
  "C01": " The delivery clauses are also decided end to end through the real link code by the E5 campaign e5_flow (see C09).",
  "C06": " The acknowledgement clauses are also decided at the publisher's socket by the E5 campaign e5_flow (see C09); a second E4 campaign (acks_churn) pipelines requests behind closing packets next to two asserted-on clients.",
  "C14": " Full-stack layer (E5, campaign e5_isolation): a witness flow (publisher, subscriber, optional bystander) next to 1-3 adversaries acting at byte level through real connection tasks (takeovers, reconnect storms, stalled consumers, unsolicited acks, invalid packets, frames cut at any byte, garbage, abrupt/half closes): the witnesses' streams stay exact and alive, the router thread neither panics nor blocks inside an iteration. A second E4 campaign (late_witness) lets a witness connect into a slab slot and next to filter logs that finished connections (incl. shared subscribers) have used.",
}.items():
    e, t, text, note, ref = CLAIMED[_p]
    CLAIMED[_p] = (e + " + " + E5, t + "; full-stack flows through remote()+RemoteLink+Network over in-memory streams with a quiescence detector", text + _extra, note + " E5 runs real tasks and a router thread: safety clauses are checked while reading, liveness by quiescence (router idle with an empty channel, no runnable connection task, nothing readable; observed twice); a watchdog expiry is inconclusive, never a violation.", ref)

for _p, _extra in {
  "C12": " The broker's topic->filters cache (DataLog::matches / next_native_offset) is decided by an E4 campaign (router_cache): SUBSCRIBE/PUBLISH histories over a dense topic/filter alphabet against the real router with the reference matcher as delivery oracle.",
  "C03": " A second campaign (retention) runs the same alphabet over logs of 1-2 segments of 1-2 KiB so that parked, paused and resumed requests meet evicted segments and segment boundaries.",
}.items():
    e, t, text, note, ref = CLAIMED[_p]
    CLAIMED[_p] = (e if _p == "C03" else e + " + E4 brokersim", t, text + _extra, note, ref)

NOT_YET = "check not built yet in this revision of /verif (under construction; see DESIGN.md §5 for the planned generator and oracle)"

def main():
    ids = ["C%02d" % i for i in range(1, 21)]
    checks = []
    for i in ids:
        if i not in CLAIMED: continue
        eng, tech, text, note, ref = CLAIMED[i]
        checks.append({
            "property_id": i,
            "quick_cmd": f"./check {i}",
            "thorough_cmd": f"./check {i} --tier thorough",
            "evidence_file": f"/verif/evidence/{i}.json",
            "replay_cmd_template": f"./check {i} --replay {{path}}",
            "engine": eng,
            "level_claimed": {"category": "exploration", "text": text, "design_ref": ref},
            "level_note": note,
            "technique": tech,
        })
    m = {
        "version": 1,
        "setup_cmd": "./check --setup",
        "hooks": {
            "guard": "cargo feature verif-hooks (rumqttc and rumqttd); enabled only by /verif/harness/Cargo.toml",
            "enable": "path dependencies in /verif/harness/Cargo.toml: rumqttc/rumqttd with default-features = false, features = [\"verif-hooks\"]; harness rustflags --cfg tokio_unstable (affects tokio only)",
            "baseline_off_cmd": BASELINE_OFF,
            "source_commits": ["e2a3e4c", "70230a5", "615882b", "06d6992"],
            "add_only": True,
        },
        "engines": [
            {"name": "E2 topic", "path": "harness/src/topic.rs", "serves_properties": ["C12"], "kind_free_text": "reference matcher + exhaustive enumerator + proptest"},
            {"name": "E3 commitlog", "path": "harness/src/commitlog.rs", "serves_properties": ["C13"], "kind_free_text": "append-history model + op interpreter + proptest + short-sequence enumerator"},
            {"name": "E1 codec", "path": "harness/src/codec/", "serves_properties": ["C04", "C05"], "kind_free_text": "neutral packet model, generators, 4 codec adapters, reference framer/encoder/decoder, chunked stream drivers"},
            {"name": "E7 clientloop", "path": "harness/src/clientloop/", "serves_properties": ["C02", "C07", "C10", "C11", "C18"], "kind_free_text": "rumqttc EventLoop v4/v5 over an in-memory transport (hook H6), paused clock, scripted broker with byte-exact fault injection, log oracle"},
            {"name": "E5 fullstack", "path": "harness/src/fullstack/", "serves_properties": ["C01", "C06", "C09", "C14", "C16", "C19", "C20"], "kind_free_text": "real per-connection tasks (verif_remote) over tokio duplex streams, real router loop on a harness thread, scripted raw-byte clients, sentinel barriers"},
            {"name": "E6 clientstate", "path": "harness/src/clientstate/", "serves_properties": ["C02", "C07", "C10", "C11"], "kind_free_text": "drivers for rumqttc MqttState v4/v5, reference model of accepted publishes, op interpreter"},
            {"name": "E4 brokersim", "path": "harness/src/brokersim/", "serves_properties": ["C01", "C03", "C06", "C08", "C09", "C12", "C14", "C15", "C16", "C17", "C19", "C20"], "kind_free_text": "deterministic single-threaded driver of the real Router (hooks H1/H2/H4), simulated clients, reference broker model, proptest histories"},
        ],
        "checks": checks,
        "notes": "All checks are `./check <id>`: it rebuilds /verif/harness (path deps on /repo) and runs target/verif/vcheck. exit 0 held / 1 VIOLATION / 2 inconclusive. Known findings: KNOWN_FINDINGS.txt.",
        "not_applicable": [{"property_id": i, "reason": NOT_YET} for i in ids if i not in CLAIMED],
    }
    json.dump(m, open(os.path.join(os.path.dirname(os.path.abspath(__file__)), "MANIFEST.json"), "w"), indent=1, ensure_ascii=False)

main()
