#!/usr/bin/env python3
"""Regenerates /verif/MANIFEST.json from the table below (kept as a script so that the
manifest stays consistent with what is actually built). Usage: python3 tools_manifest.py"""
import json, os

BASELINE_OFF = ("cd /repo && cargo nextest run --workspace --no-fail-fast --tool-config-file pb:/w/lib/nextest.toml "
                "--profile pb --test-threads 8 --offline || cargo test --workspace --no-fail-fast --offline")

# id -> (engine, technique, level text, level note, design_ref)
CLAIMED = {
 "C01": ("E4 brokersim", "model-based stateful property testing (proptest histories against the real router stepped deterministically; reference broker model; exact shuffle-of-prefixes attribution oracle)",
         "Generated histories of client actions (connect/subscribe/unsubscribe/publish QoS0-2 incl. bursts >200, release, ack, drain, turn partitions, Ready timing) over generated router configurations are executed against the real Router one production loop iteration at a time; after every drain each forward must be attributable to a subscription stream (no foreign/duplicate/reordered/early/late message, right topic, payload, QoS, properties), and at every idle point every stream within retention must be complete. Exploration only: bounded history length and client count.",
         "Trusts: the reference model (harness/src/brokersim/model.rs, written from the MQTT rules), the reference matcher, hook H1 (verif_turn runs the unmodified run_inner) and the linearisation argument of DESIGN §3/§8 for link/router interleavings. Completeness only within the conservative retention bound.",
         "§5 C01"),
 "C13": ("E3 commitlog", "model-based stateful property testing (proptest op sequences on CommitLog against an append-history model) + exhaustive enumeration of short op sequences",
         "Random sequences of append/read/fabricated-read ops (<=400) over segment sizes {1024,1500,4096} x limits 1..5 and every op sequence up to length 7/9 over a 6-op alphabet are run against CommitLog; after every append a full scan must be a contiguous suffix of the history with stable strictly increasing tags, whole-segment eviction and the segment bound; every read through any issued cursor must return exactly the next retained entries, Done iff nothing remains, and a continuation that resumes gap-free. Exploration only.",
         "Trusts the model in harness/src/commitlog.rs; fabricated cursors are checked for absence of panics only; segment limit read as 'total segments incl. the active one' (unit tests and apply_retention agree).",
         "§5 C13"),
 "C12": ("E2 topic", "exhaustive enumeration of short string pairs + property-based testing (proptest) against a reference matcher; three-way differential",
         "Every (topic, filter) pair of strings up to length 4 (quick) / 5 (thorough) over an 8-symbol alphabet with '/', '+', '#', '$' and multi-byte characters is executed through all three copies and compared with an independent reference matcher and validators; random level-wise pairs up to 8 levels beyond that. Exploration: absence is not established beyond the enumerated bound.",
         "Trusts the reference matcher in harness/src/topic.rs as a reading of MQTT 3.1.1 §4.7 plus the documented '$' rule; empty topic validity is not judged (statement silent).",
         "§5 C12"),
}

NOT_YET = "check not built yet in this revision of /verif (under construction; see DESIGN.md §5 for the planned generator and oracle)"

def main():
    ids = ["C%02d" % i for i in range(1, 21)]
    checks = []
    for i in ids:
        if i not in CLAIMED: continue
        eng, tech, text, note, ref = CLAIMED[i]
        checks.append({
            "property_id": i,
            "quick_cmd": f"./check {i}",
            "thorough_cmd": f"./check {i} --tier thorough",
            "evidence_file": f"/verif/evidence/{i}.json",
            "replay_cmd_template": f"./check {i} --replay {{path}}",
            "engine": eng,
            "level_claimed": {"category": "exploration", "text": text, "design_ref": ref},
            "level_note": note,
            "technique": tech,
        })
    m = {
        "version": 1,
        "setup_cmd": "./check --setup",
        "hooks": {
            "guard": "cargo feature verif-hooks (rumqttc and rumqttd); enabled only by /verif/harness/Cargo.toml",
            "enable": "path dependencies in /verif/harness/Cargo.toml: rumqttc/rumqttd with default-features = false, features = [\"verif-hooks\"]; harness rustflags --cfg tokio_unstable (affects tokio only)",
            "baseline_off_cmd": BASELINE_OFF,
            "source_commits": ["e2a3e4c", "70230a5", "615882b"],
            "add_only": True,
        },
        "engines": [
            {"name": "E2 topic", "path": "harness/src/topic.rs", "serves_properties": ["C12"], "kind_free_text": "reference matcher + exhaustive enumerator + proptest"},
            {"name": "E3 commitlog", "path": "harness/src/commitlog.rs", "serves_properties": ["C13"], "kind_free_text": "append-history model + op interpreter + proptest + short-sequence enumerator"},
            {"name": "E4 brokersim", "path": "harness/src/brokersim/", "serves_properties": ["C01"], "kind_free_text": "deterministic single-threaded driver of the real Router (hooks H1/H2/H4), simulated clients, reference broker model, proptest histories"},
        ],
        "checks": checks,
        "notes": "All checks are `./check <id>`: it rebuilds /verif/harness (path deps on /repo) and runs target/verif/vcheck. exit 0 held / 1 VIOLATION / 2 inconclusive. Known findings: KNOWN_FINDINGS.txt.",
        "not_applicable": [{"property_id": i, "reason": NOT_YET} for i in ids if i not in CLAIMED],
    }
    json.dump(m, open(os.path.join(os.path.dirname(os.path.abspath(__file__)), "MANIFEST.json"), "w"), indent=1, ensure_ascii=False)

main()
