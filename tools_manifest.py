#!/usr/bin/env python3
"""Regenerates /verif/MANIFEST.json from the table below (kept as a script so that the
manifest stays consistent with what is actually built). Usage: python3 tools_manifest.py"""
import json, os

BASELINE_OFF = ("cd /repo && cargo nextest run --workspace --no-fail-fast --tool-config-file pb:/w/lib/nextest.toml "
                "--profile pb --test-threads 8 --offline || cargo test --workspace --no-fail-fast --offline")

# id -> (engine, technique, level text, level note, design_ref)
CLAIMED = {
 "C12": ("E2 topic", "exhaustive enumeration of short string pairs + property-based testing (proptest) against a reference matcher; three-way differential",
         "Every (topic, filter) pair of strings up to length 4 (quick) / 5 (thorough) over an 8-symbol alphabet with '/', '+', '#', '$' and multi-byte characters is executed through all three copies and compared with an independent reference matcher and validators; random level-wise pairs up to 8 levels beyond that. Exploration: absence is not established beyond the enumerated bound.",
         "Trusts the reference matcher in harness/src/topic.rs as a reading of MQTT 3.1.1 §4.7 plus the documented '$' rule; empty topic validity is not judged (statement silent).",
         "§5 C12"),
}

NOT_YET = "check not built yet in this revision of /verif (under construction; see DESIGN.md §5 for the planned generator and oracle)"

def main():
    ids = ["C%02d" % i for i in range(1, 21)]
    checks = []
    for i in ids:
        if i not in CLAIMED: continue
        eng, tech, text, note, ref = CLAIMED[i]
        checks.append({
            "property_id": i,
            "quick_cmd": f"./check {i}",
            "thorough_cmd": f"./check {i} --tier thorough",
            "evidence_file": f"/verif/evidence/{i}.json",
            "replay_cmd_template": f"./check {i} --replay {{path}}",
            "engine": eng,
            "level_claimed": {"category": "exploration", "text": text, "design_ref": ref},
            "level_note": note,
            "technique": tech,
        })
    m = {
        "version": 1,
        "setup_cmd": "./check --setup",
        "hooks": {
            "guard": "cargo feature verif-hooks (rumqttc and rumqttd); enabled only by /verif/harness/Cargo.toml",
            "enable": "path dependencies in /verif/harness/Cargo.toml: rumqttc/rumqttd with default-features = false, features = [\"verif-hooks\"]; harness rustflags --cfg tokio_unstable (affects tokio only)",
            "baseline_off_cmd": BASELINE_OFF,
            "source_commits": ["e2a3e4c", "70230a5", "615882b"],
            "add_only": True,
        },
        "engines": [
            {"name": "E2 topic", "path": "harness/src/topic.rs", "serves_properties": ["C12"], "kind_free_text": "reference matcher + exhaustive enumerator + proptest"},
        ],
        "checks": checks,
        "notes": "All checks are `./check <id>`: it rebuilds /verif/harness (path deps on /repo) and runs target/verif/vcheck. exit 0 held / 1 VIOLATION / 2 inconclusive. Known findings: KNOWN_FINDINGS.txt.",
        "not_applicable": [{"property_id": i, "reason": NOT_YET} for i in ids if i not in CLAIMED],
    }
    json.dump(m, open(os.path.join(os.path.dirname(os.path.abspath(__file__)), "MANIFEST.json"), "w"), indent=1, ensure_ascii=False)

main()
