#!/bin/bash
# tools/mutant.sh <patch.diff> <property ids...>
# Runs the quick tier of the given checks against a scratch worktree of /repo with the patch
# applied (so that /repo itself and everything building against it stays untouched).
# Scratch lives in /tmp/mutant (reused between calls so that rebuilds are incremental).
set -u
patch=$(readlink -f "$1"); shift
M=/tmp/mutant
mkdir -p $M
if [ ! -d $M/repo/.git ] && [ ! -f $M/repo/.git ]; then
  git -C /repo worktree add --detach $M/repo HEAD >/dev/null 2>&1 || { echo "cannot create worktree"; exit 2; }
fi
git -C $M/repo checkout -q --detach $(git -C /repo rev-parse HEAD) 2>/dev/null
git -C $M/repo checkout -q -- . ; git -C $M/repo clean -fdq -e target
git -C $M/repo apply "$patch" || { echo "patch does not apply"; exit 2; }
rm -rf $M/verif; mkdir -p $M/verif
cp -r /verif/harness /verif/regress /verif/KNOWN_FINDINGS.txt /verif/check $M/verif/
rm -rf $M/verif/harness/target
sed -i "s|path = \"/repo/|path = \"$M/repo/|g" $M/verif/harness/Cargo.toml
export CARGO_TARGET_DIR=$M/target VERIF_NO_REGRESS=${VERIF_NO_REGRESS:-}
( cd $M/verif/harness && CARGO_NET_OFFLINE=true cargo build --profile verif --bin vcheck 2>$M/build.log ) || { grep -E "^error" -A8 $M/build.log | head -30; echo "BUILD FAILED"; exit 2; }
for p in "$@"; do
  out=$(VERIF_ROOT=$M/verif VERIF_SEED=${VERIF_SEED:-1} $M/target/verif/vcheck $p 2>/dev/null); rc=$?
  echo "== $p rc=$rc"; echo "$out" | grep "^violation\|^VIOLATION\|tier=\|regress case" | cut -c1-260 | tail -6
done
git -C $M/repo checkout -q -- .
