#!/usr/bin/env python3
"""Compact view of a replay/regress file of the broker simulator (run-length encoded ops)."""
import json, sys
d = json.load(open(sys.argv[1]))
print(d.get('signature'), '::', (d.get('detail') or '')[:300])
c = d['case']
if 'cfg' in c:
    print(c['cfg'], [(x['id'], 'v5' if x['v5'] else 'v4', 'auto' if x['auto_ack'] else 'manual') for x in c['clients']])
def short(o):
    if isinstance(o, str): return o
    (k, v), = o.items()
    if k == 'Publish':
        return f"Pub c{v['c']} {v['topic']} q{v['qos']}{' R' if v['retain'] else ''} {v['size']}B{' props' if v['props'] else ''}{'' if v['notify'] else ' (no-notify)'}"
    if k == 'Subscribe':
        return f"Sub c{v['c']} {v['filters']} id={v['sub_id']}{'' if v['notify'] else ' (no-notify)'}"
    if k == 'Connect':
        return f"Connect c{v['c']} clean={v['clean']} will={v['will']} alias={v['alias_max']}"
    return f"{k} {json.dumps(v, ensure_ascii=False)}"
ops = c.get('ops', [])
i = 0
while i < len(ops):
    j = i
    while j + 1 < len(ops) and ops[j + 1] == ops[i]:
        j += 1
    print(f"{j - i + 1:4d}x {short(ops[i])}")
    i = j + 1
