#!/bin/bash
# tools/sweep.sh <first seed> <last seed> [ids...] — run the quick tier of every claimed check
# for several seeds; prints every line that is not a clean pass
cd "$(dirname "$0")/.."
first=${1:-1}; last=${2:-3}; shift 2
ids="$@"
[ -z "$ids" ] && ids=$(python3 -c "import json;print(' '.join(c['property_id'] for c in json.load(open('MANIFEST.json'))['checks']))")
./check --setup >/dev/null || exit 2
for s in $(seq $first $last); do
  for p in $ids; do
    out=$(VERIF_SEED=$s ./target/verif/vcheck $p 2>/dev/null); rc=$?
    if [ $rc -ne 0 ] || echo "$out" | grep -q "VIOLATION"; then
      echo "seed=$s $p rc=$rc"; echo "$out" | grep -v "^KNOWN" | tail -4 | cut -c1-300
    fi
  done
done
echo "sweep done seeds $first..$last"
