#!/bin/bash
# tools/repeat.sh <n> [ids...] — run the quick tier of the given checks n times with the SAME seed
# (fresh process each time: hash-map iteration order and thread scheduling differ between runs)
cd "$(dirname "$0")/.."
n=${1:-5}; shift
ids="$@"
[ -z "$ids" ] && ids="C01 C03 C06 C08 C09 C14 C15 C16 C17 C19 C20"
./check --setup >/dev/null || exit 2
for i in $(seq 1 $n); do
  for p in $ids; do
    out=$(VERIF_SEED=${VERIF_SEED:-1} ./target/verif/vcheck $p 2>/dev/null); rc=$?
    if [ $rc -ne 0 ] || echo "$out" | grep -q "VIOLATION"; then
      echo "run=$i $p rc=$rc"; echo "$out" | grep -v "^KNOWN" | tail -4 | cut -c1-300
    fi
  done
done
echo "repeat done n=$n"
