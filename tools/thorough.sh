#!/bin/bash
# tools/thorough.sh [ids...] — run the thorough tier of the given (default: all) checks once,
# print one summary line per check plus everything that is not a clean pass
cd "$(dirname "$0")/.."
ids="$@"
[ -z "$ids" ] && ids=$(python3 -c "import json;print(' '.join(c['property_id'] for c in json.load(open('MANIFEST.json'))['checks']))")
for p in $ids; do
  start=$(date +%s)
  out=$(./check $p --tier thorough 2>&1); rc=$?
  echo "== $p rc=$rc $(( $(date +%s) - start ))s"
  echo "$out" | grep -v "^KNOWN" | grep "VIOLATION\|^violation\|tier=\|inconclusive\|watchdog\|fuzz" | cut -c1-300 | tail -8
done
echo "thorough done"
