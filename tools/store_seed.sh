#!/bin/bash
# tools/store_seed.sh <src seed dir (/tmp/seed/<id>)> <dest name (e.g. C03d)> <property> <crate> <round> "<change>" "<needs>" "<caught_by>" "<signatures>"
# Stores a confirmed seeded defect under /verif/seeded/<dest>/ (patch.diff, demo.rs, notes.md, meta.json).
set -eu
S=$1; D=/verif/seeded/$2; mkdir -p $D
cp $S/_out/patch.diff $D/patch.diff; cp $S/_out/demo.rs $D/seed_demo.rs; [ -f $S/_out/notes.md ] && cp $S/_out/notes.md $D/notes.md
python3 - "$D" "$3" "$4" "$5" "$6" "$7" "$8" "$9" <<'PY'
import json,sys
d,prop,crate,rnd,change,needs,caught,sigs=sys.argv[1:9]
json.dump({"property":prop,"crate":crate,"round":int(rnd),"change":change,"needs_to_manifest":needs,
 "produced_by":"fresh sub-agent given only the property text, its own git worktree of /repo HEAD and a one-line note naming the mechanisms earlier rounds had used (to avoid repeats)",
 "confirmed":{"how":"tools/verify_seed.sh in a scratch worktree at /repo HEAD: patch applies and compiles, `cargo test -p <crate> --offline` passes with it, the demo passes without the patch and fails with it",
  "checks_run":"VERIF_NO_REGRESS=1 tools/mutant.sh <patch> <ids> (quick tier, VERIF_SEED=1, generated search only)"},
 "caught_by":caught,"signatures":sigs},open(d+"/meta.json","w"),indent=1)
PY
echo stored $D
