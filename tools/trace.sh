#!/bin/bash
# usage: tools/trace.sh <id> <replay file>  — compact drain trace
VERIF_TRACE=1 /verif/target/verif/vcheck $1 --replay $2 2>&1 | grep "^drain\|^replay\|^op" | python3 -c "
import sys,re
for line in sys.stdin:
    if line.startswith('op'):
        if 'Publish' in line or 'Turn' in line: continue
        print(line.strip()[:160]); continue
    if not line.startswith('drain'):
        print(line.strip()[:400]); continue
    head=line[:30]
    items=re.findall(r'(Forward\(Forward \{ cursor: (None|Some\(\(\d+, \d+\)\)), size: 0, publish: Publish \{ dup: \w+, qos: (\w+), pkid: (\d+), retain: (\w+), topic: b\"([^\"]*)\", payload: b\"(\d*)|DeviceAck\((\w+)|Unschedule)', line)
    out=[]
    for it in items:
        if it[0].startswith('Forward'): out.append(f'F({it[5]},q{it[2][:3]},pk{it[3]},R={it[4][0]},s{it[6]},{it[1]})')
        elif it[0].startswith('DeviceAck'): out.append('A:'+it[7])
        else: out.append('UNSCHED')
    print(head, ' '.join(out)[:1200])
"
