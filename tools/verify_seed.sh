#!/bin/bash
# tools/verify_seed.sh <seed dir with _out/patch.diff and a demo test> <crate> [features]
# Confirms in a scratch worktree: the patch applies to /repo HEAD and compiles, the crate's
# existing tests pass with it, the demo fails with it and passes without it.
set -u
S=$(readlink -f "$1"); crate=$2; feats=${3:-verif-hooks}
M=/tmp/mutant
mkdir -p $M
if [ ! -e $M/repo/.git ]; then git -C /repo worktree add --detach $M/repo HEAD >/dev/null 2>&1; fi
git -C $M/repo checkout -q --detach $(git -C /repo rev-parse HEAD)
git -C $M/repo checkout -q -- . ; git -C $M/repo clean -fdq -e target
export CARGO_TARGET_DIR=$M/target_repo CARGO_NET_OFFLINE=true
demo=$(ls $S/_out/*.rs | head -1)
mkdir -p $M/repo/$crate/tests; cp $demo $M/repo/$crate/tests/seed_demo.rs
cd $M/repo
echo "--- demo WITHOUT the change"
cargo test -p $crate --offline --features "$feats" --test seed_demo 2>&1 | grep -E "^test result|^error|FAILED|panicked" | head -5
git apply $S/_out/patch.diff || { echo "PATCH DOES NOT APPLY"; exit 2; }
echo "--- existing tests WITH the change (demo file moved away: it may need the hooks feature)"
mv $crate/tests/seed_demo.rs /tmp/mutant/seed_demo.rs.keep
cargo test -p $crate --offline 2>&1 | grep -E "^test result|^error(\[|:)|FAILED" | head -8
mv /tmp/mutant/seed_demo.rs.keep $crate/tests/seed_demo.rs
echo "--- demo WITH the change"
cargo test -p $crate --offline --features "$feats" --test seed_demo 2>&1 | grep -E "^test result|^error|FAILED" | head -5
git checkout -q -- . ; rm -f $crate/tests/seed_demo.rs
