#!/bin/bash
# tools/reseed.sh — run the quick tier of each stored seeded defect's own property check against
# a scratch worktree with the patch applied (generated search only); one summary line per seed
cd "$(dirname "$0")/.."
for d in seeded/*/; do
  k=$(basename $d); p=${k:0:3}
  out=$(VERIF_NO_REGRESS=1 tools/mutant.sh $d/patch.diff $p 2>&1)
  if echo "$out" | grep -q "patch does not apply"; then echo "$k: patch no longer applies to HEAD"; continue; fi
  if echo "$out" | grep -q "BUILD FAILED"; then echo "$k: build failed"; continue; fi
  rc=$(echo "$out" | grep "^== $p" | sed 's/.*rc=//')
  sig=$(echo "$out" | grep "^violation" | head -1 | cut -c1-140)
  echo "$k: rc=$rc $sig"
done
echo "reseed done"
