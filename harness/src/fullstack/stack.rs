//! E5 test bed: the real router (`run_inner` loop on its own OS thread), real per-connection
//! tasks (`rumqttd::verif::verif_remote` = `server::broker::remote`) over `tokio::io::duplex`
//! pairs, and scripted clients that write raw bytes and decode what the broker writes back.
//!
//! Nothing is shared between cases: every case owns its router thread, its tokio runtime, its
//! listeners (settings + will bookkeeping) and its streams, and tears all of them down.
//!
//! Why the router is not started with `Router::spawn()`: the `Router` value owns a clone of its
//! own `router_tx`, so the channel can never become disconnected and the spawned thread never
//! exits (measured: 200 x `spawn()` + drop of the returned sender leaves 200 parked threads). Instead the router runs on a thread of
//! ours whose body is the production loop `loop { run_inner() }` expressed through hook H1
//! (`verif_turn()` = exactly one `run_inner`, returning `false` exactly where production would
//! block in `recv()`), followed by a short pause, repeated until the channel holds an event (as
//! production stays in `recv()` until then); a stop flag ends the thread at the end of the
//! case. The pause is pacing only, never a correctness signal.
//!
//! Time is real (the router is a foreign thread, tokio's paused clock would auto-advance while
//! the router is still working and fire keep-alive timers spuriously). No assertion depends on
//! time: "nothing more will arrive" is always established by a causal barrier (see the callers),
//! and every wait has a generous watchdog whose expiry is reported as *inconclusive*.

use crate::codec::model::{self as md, Bin, Props, Txt, Ver, M};
use crate::codec::reference::{self, Header};
use crate::codec::{Codec, Out, C4, C5};
use crate::engine::{guard, Failure};
use bytes::BytesMut;
use rumqttd::verif::{verif_remote, Event, VerifWillHandlers};
use rumqttd::{ConnectionId, ConnectionSettings, Router, RouterConfig};
use std::future::Future;
use std::pin::Pin;
use std::sync::atomic::{AtomicBool, AtomicU64, Ordering};
use std::sync::{Arc, Mutex};
use std::task::{Context, Poll};
use std::time::{Duration, Instant};
use tokio::io::{AsyncRead, AsyncReadExt, AsyncWrite, AsyncWriteExt, DuplexStream};
use tokio::task::JoinHandle;

/// Generous real-time limit for any single wait. Expiry = inconclusive, never a violation.
pub const WATCHDOG: Duration = Duration::from_secs(10);

/// Why a case body stopped early
#[derive(Debug)]
pub enum Stop {
    Fail(Failure),
    /// a watchdog expired (counted, never a violation)
    Inconclusive(String),
}

impl From<Failure> for Stop {
    fn from(f: Failure) -> Stop {
        Stop::Fail(f)
    }
}

pub type R<T> = Result<T, Stop>;

#[macro_export]
macro_rules! s_ensure {
    ($cond:expr, $sig:expr, $($arg:tt)*) => {
        if !($cond) {
            return Err($crate::fullstack::stack::Stop::Fail($crate::engine::Failure::new($sig, format!($($arg)*))));
        }
    };
}

#[macro_export]
macro_rules! s_fail {
    ($sig:expr, $($arg:tt)*) => {
        return Err($crate::fullstack::stack::Stop::Fail($crate::engine::Failure::new($sig, format!($($arg)*))))
    };
}

// ---------------------------------------------------------------------------------------
// router thread

type RouterTx = flume::Sender<(ConnectionId, Event)>;

pub struct RouterThread {
    stop: Arc<AtomicBool>,
    failure: Arc<Mutex<Option<Failure>>>,
    handle: Option<std::thread::JoinHandle<()>>,
    pub probe: RouterProbe,
}

/// What the router thread publishes about its own progress (read by the quiescence detector,
/// see `Stack::quiet_probe`). Every iteration of the loop ends with exactly one update: a
/// non-idle iteration resets `idle_streak` and then increments `busy`, an idle one increments
/// `idle_streak`. Nothing here influences the router.
#[derive(Clone, Default)]
pub struct RouterProbe {
    /// idle iterations (`verif_turn()` returned false = production would block in `recv()`)
    /// completed since the last non-idle one
    idle_streak: Arc<AtomicU64>,
    /// non-idle iterations completed so far
    busy: Arc<AtomicU64>,
    /// non-idle iterations after which some connection was parked as busy, i.e. the router had
    /// sent `Notification::Unschedule` and was waiting for the link's `Event::Ready` (counted
    /// only when the thread was started with `watch_pauses`; evidence, never asserted on)
    busy_pauses: Arc<AtomicU64>,
    /// set while the detector waits for the router (pacing only, never a correctness signal):
    /// the idle pause is skipped until `idle_streak` reaches `wake_at`, and the waiting case
    /// thread is unparked then and after every non-idle iteration
    hurry: Arc<AtomicBool>,
    wake_at: Arc<AtomicU64>,
    /// the thread has left its loop (stop flag or panic of the router)
    exited: Arc<AtomicBool>,
    /// while set the thread takes no turn: a router that is busy elsewhere, so that its event
    /// channel backs up (see `Stack::back_up_router`)
    hold: Arc<AtomicBool>,
    /// the thread is inside `verif_turn()` (one iteration of the production loop)
    in_turn: Arc<AtomicBool>,
    /// kernel id of the router thread (0: unknown, then `blocked_in_turn` never says yes)
    tid: Arc<AtomicU64>,
}

impl RouterProbe {
    /// Is the router thread asleep (state S: waiting for an event, not for a core) inside an
    /// iteration? Nothing in an iteration waits for another running thread (the locks on the
    /// link buffers are only ever taken by connection tasks, the production `recv()` is not part
    /// of `verif_turn`), so this is the router waiting for a link or a client.
    fn blocked_in_turn(&self) -> bool {
        let tid = self.tid.load(Ordering::SeqCst);
        if tid == 0 || !self.in_turn.load(Ordering::SeqCst) {
            return false;
        }
        let stat = std::fs::read_to_string(format!("/proc/self/task/{tid}/stat")).unwrap_or_default();
        let state = stat.rsplit_once(')').and_then(|(_, rest)| rest.trim_start().chars().next());
        state == Some('S') && self.in_turn.load(Ordering::SeqCst)
    }

    /// iterations after which a connection was waiting for `Event::Ready`
    pub fn busy_pauses(&self) -> u64 {
        self.busy_pauses.load(Ordering::SeqCst)
    }
    pub fn busy_turns(&self) -> u64 {
        self.busy.load(Ordering::SeqCst)
    }
}

pub fn router_config() -> RouterConfig {
    RouterConfig {
        max_connections: 16,
        max_outgoing_packet_count: 200,
        max_segment_size: 256 * 1024,
        max_segment_count: 4,
        custom_segment: None,
        initialized_filters: None,
        shared_subscriptions_strategy: Default::default(),
    }
}

impl RouterThread {
    pub fn start(config: RouterConfig) -> (RouterThread, RouterTx) {
        RouterThread::start_probed(config, false)
    }

    /// `watch_pauses`: after every non-idle iteration look (read-only `verif_snapshot`) whether a
    /// connection is parked as busy and count it in `RouterProbe::busy_pauses`
    pub fn start_probed(config: RouterConfig, watch_pauses: bool) -> (RouterThread, RouterTx) {
        let mut router = Router::new(0, config);
        let tx = router.verif_link();
        let stop = Arc::new(AtomicBool::new(false));
        let failure = Arc::new(Mutex::new(None));
        let probe = RouterProbe::default();
        let (stop2, failure2, probe2) = (stop.clone(), failure.clone(), probe.clone());
        // the thread that runs the case body (and blocks in `Stack::quiet_probe`)
        let case_thread = std::thread::current();
        let handle = std::thread::Builder::new()
            .name("e5-router".into())
            .spawn(move || {
                let mut idle = 0u32;
                let tid = std::fs::read_link("/proc/thread-self").ok().and_then(|p| p.file_name()?.to_str()?.parse::<u64>().ok());
                probe2.tid.store(tid.unwrap_or(0), Ordering::SeqCst);
                while !stop2.load(Ordering::Acquire) {
                    if probe2.hold.load(Ordering::Acquire) {
                        std::thread::sleep(Duration::from_micros(200));
                        continue;
                    }
                    // one iteration of the production loop body
                    probe2.in_turn.store(true, Ordering::SeqCst);
                    let turn = guard("router_thread", || router.verif_turn());
                    probe2.in_turn.store(false, Ordering::SeqCst);
                    match turn {
                        Ok(true) => {
                            idle = 0;
                            if watch_pauses && router.verif_snapshot().connections.iter().any(|c| c.status == "busy") {
                                probe2.busy_pauses.fetch_add(1, Ordering::SeqCst);
                            }
                            // whatever this iteration did (signals to links included) happened
                            // before the increment becomes visible
                            probe2.idle_streak.store(0, Ordering::SeqCst);
                            probe2.busy.fetch_add(1, Ordering::SeqCst);
                            if probe2.hurry.load(Ordering::SeqCst) {
                                case_thread.unpark();
                            }
                        }
                        Ok(false) => {
                            // production blocks in recv() here and stays there until an event is
                            // queued - whatever else the router may still have to do. So does
                            // this thread: no further iteration before the channel has an event
                            // (for a correct router the iterations skipped this way do nothing).
                            // Every look at the channel counts as an idle iteration.
                            loop {
                                idle = idle.saturating_add(1);
                                let streak = probe2.idle_streak.fetch_add(1, Ordering::SeqCst) + 1;
                                let wake_at = probe2.wake_at.load(Ordering::SeqCst);
                                if probe2.hurry.load(Ordering::SeqCst) && streak <= wake_at {
                                    // the detector counts idle iterations (some microseconds)
                                    if streak == wake_at {
                                        case_thread.unpark();
                                    }
                                    std::hint::spin_loop();
                                } else if idle < 64 {
                                    std::thread::yield_now();
                                } else {
                                    std::thread::sleep(Duration::from_micros(50));
                                }
                                if router.verif_pending_events() > 0 || stop2.load(Ordering::Acquire) {
                                    break;
                                }
                            }
                        }
                        Err(f) => {
                            // what happens in production: the router thread is gone. Dropping
                            // the router disconnects every link, so nothing blocks for ever.
                            *failure2.lock().unwrap() = Some(f);
                            break;
                        }
                    }
                }
                probe2.exited.store(true, Ordering::SeqCst);
                drop(router);
            })
            .expect("router thread");
        (RouterThread { stop, failure, handle: Some(handle), probe }, tx)
    }

    pub fn failure(&self) -> Option<Failure> {
        self.failure.lock().unwrap().clone()
    }

    /// Stops and joins the thread; returns the panic of the router, if it panicked
    pub fn shutdown(mut self) -> Option<Failure> {
        self.stop.store(true, Ordering::Release);
        if let Some(h) = self.handle.take() {
            let _ = h.join();
        }
        self.failure()
    }
}

impl Drop for RouterThread {
    fn drop(&mut self) {
        self.stop.store(true, Ordering::Release);
        if let Some(h) = self.handle.take() {
            let _ = h.join();
        }
    }
}

// ---------------------------------------------------------------------------------------
// connection task wrapper: a panic inside `remote()` becomes the task's output, with the
// engine's signature format (location + normalised message)

struct Guarded<F> {
    inner: Pin<Box<F>>,
    /// number of times any connection task of this case was polled (quiescence detector)
    polls: Arc<AtomicU64>,
}

impl<F: Future<Output = ()>> Future for Guarded<F> {
    type Output = Result<(), Failure>;
    fn poll(mut self: Pin<&mut Self>, cx: &mut Context<'_>) -> Poll<Self::Output> {
        self.polls.fetch_add(1, Ordering::SeqCst);
        let inner = &mut self.inner;
        match guard("connection_task", || inner.as_mut().poll(cx)) {
            Ok(Poll::Ready(())) => Poll::Ready(Ok(())),
            Ok(Poll::Pending) => Poll::Pending,
            Err(f) => Poll::Ready(Err(f)),
        }
    }
}

// ---------------------------------------------------------------------------------------
// listeners

/// One listener = protocol version + connection settings + the will bookkeeping shared by its
/// connections (what `Server<P>` holds)
#[derive(Clone)]
pub struct Listener {
    pub ver: Ver,
    pub settings: Arc<ConnectionSettings>,
    pub wills: VerifWillHandlers,
}

pub fn plain_settings(connection_timeout_ms: u16) -> ConnectionSettings {
    ConnectionSettings {
        connection_timeout_ms,
        max_payload_size: 1 << 20,
        max_inflight_count: 100,
        auth: None,
        external_auth: None,
        dynamic_filters: false,
    }
}

impl Listener {
    pub fn new(ver: Ver, settings: ConnectionSettings) -> Listener {
        Listener { ver, settings: Arc::new(settings), wills: VerifWillHandlers::new() }
    }
    /// no authentication, long connection timeout
    pub fn plain(ver: Ver) -> Listener {
        Listener::new(ver, plain_settings(30_000))
    }
}

// ---------------------------------------------------------------------------------------
// the stack handed to a case body

pub struct Stack {
    pub router_tx: RouterTx,
    /// progress counters of the router thread of this case
    pub router: RouterProbe,
    /// polls of this case's connection tasks so far
    polls: Arc<AtomicU64>,
    router_failure: Arc<Mutex<Option<Failure>>>,
}

pub enum TaskEnd {
    Finished,
    Panicked(Failure),
}

/// Outcome of `Conn::try_next`
#[derive(Debug)]
pub enum Polled {
    Frame(M),
    /// the broker has not written (all of) a further frame yet
    Nothing,
    /// the broker has closed the stream
    Closed,
}

/// Scripted client end of one connection
pub struct Conn {
    pub ver: Ver,
    pub name: &'static str,
    io: Option<DuplexStream>,
    rbuf: Vec<u8>,
    task: Option<JoinHandle<Result<(), Failure>>>,
    ended: Option<Result<(), Failure>>,
    /// acknowledge forwarded QoS 1/2 publishes like a well-behaved client
    pub auto_ack: bool,
    /// every packet received so far
    pub log: Vec<M>,
}

impl Stack {
    /// Opens a connection through `l`: spawns the real per-connection task on one end of a
    /// 64 KiB duplex and returns the scripted client holding the other end.
    pub fn open(&self, name: &'static str, l: &Listener) -> Conn {
        let (client_end, server_end) = tokio::io::duplex(64 * 1024);
        let cfg = l.settings.clone();
        let tx = self.router_tx.clone();
        let wills = l.wills.clone();
        let polls = self.polls.clone();
        let task = match l.ver {
            Ver::V4 => tokio::spawn(Guarded {
                inner: Box::pin(verif_remote(cfg, tx, Box::new(server_end), rumqttd::protocol::v4::V4, wills)),
                polls,
            }),
            Ver::V5 => tokio::spawn(Guarded {
                inner: Box::pin(verif_remote(cfg, tx, Box::new(server_end), rumqttd::protocol::v5::V5, wills)),
                polls,
            }),
        };
        Conn {
            ver: l.ver,
            name,
            io: Some(client_end),
            rbuf: Vec::new(),
            task: Some(task),
            ended: None,
            auto_ack: true,
            log: Vec::new(),
        }
    }

    /// Opens a connection and performs a plain CONNECT (clean session, keep-alive 600 s);
    /// the CONNACK must be successful (these are the harness' own helper connections).
    pub async fn connect(&self, name: &'static str, l: &Listener, client_id: &str) -> R<Conn> {
        let mut c = self.open(name, l);
        let connect = M::Connect(md::Connect {
            keep_alive: 600,
            client_id: Txt::lit(client_id),
            clean: true,
            will: None,
            login: None,
            props: Props::default(),
        });
        c.send_packet(&connect).await?;
        match c.next().await? {
            Some(M::ConnAck(a)) if a.code == 0 => Ok(c),
            other => Err(Stop::Fail(Failure::new(
                "helper_connection_not_admitted",
                format!("{name}: plain CONNECT as {client_id:?} answered with {other:?}"),
            ))),
        }
    }
}

// ---------------------------------------------------------------------------------------
// quiescence detector: deciding "no further frame will come" without a wall clock
//
// Who can act in a case: (1) the case body and (2) the connection tasks, all on the ONE thread
// of the current-thread runtime (a connection task runs only while the body is inside an
// `.await` that returns to the scheduler), and (3) the router thread. There are no timers that
// fire within a case (keep-alive 600 s, connection timeout 30 s) and no other threads.
//
// Work can be pending in exactly these places:
//   T1  a connection task is runnable (woken, not yet polled until it is pending again);
//   T2  the router has a ready connection or an event in its channel;
//   T3  bytes written by a client that its connection task has not read: the task was woken by
//       the write, so this is T1 - unless the task is inside a write towards its client;
//   T4  bytes written towards a client that the client has not read.
// and it moves only along T1 -> {T2, T4, nothing} (a task runs: it sends events to the router,
// writes to its client, or finds nothing to do) and T2 -> {T1, nothing} (the router works: it
// fills a connection's outgoing buffer and signals that task). A connection task that is pending
// inside a write towards a client that does not read (T4 on ANOTHER connection than the one
// being waited on) is not work: only that client's next read can move it. So if at one instant
// there is no T1 and no T2, and no T4 on the stream the body waits on, then nothing will ever be
// written to that stream again unless a client acts: a frame still owed there is lost for good.
//
// One observation (`quiet_probe`) establishes, in this order:
//   (b) the body yields to the scheduler; one yield polls every runnable connection task (the
//       scheduler works off its local and its remote queue - up to 61 polls, a case has 2-3
//       tasks - before it polls the body again). `polls` counts polls of connection tasks:
//       unchanged over the yields = no task was runnable when the body yielded.
//   (c) the stream waited on is drained into the client's buffer and that buffer is empty.
//   (a) `busy` is sampled, then `idle_streak`; the body blocks WITHOUT yielding to the scheduler
//       (so no connection task can run and no event can be sent) until the streak has grown by
//       QUIET_IDLE_TURNS + 1 while `busy` still has the sampled value: QUIET_IDLE_TURNS complete
//       iterations began after the sample, each found the ready queue and the channel empty, and
//       no non-idle iteration ended in between. The channel is also seen empty from this side.
// The remaining race is a task that the router woke during its last non-idle iteration (the
// wake precedes the `busy` increment, which precedes our sample): that task is T1 during (a).
// Hence (d): quiescent = two consecutive observations with the same token (polls, busy). The
// second observation begins with yields; a task woken before them is polled there and changes
// `polls`; a wake after them comes from a non-idle iteration that ends either before the second
// sample of `busy` (the tokens differ) or after it (`busy` changes before the streak can grow:
// the loop reads the streak first and `busy` after it). Equal tokens therefore mean: no task
// ran and the router did nothing between the end of the first observation and the end of the
// second, and at the end of the second nothing is runnable, the router is idle with an empty
// channel, and the stream is empty. (A task that stays runnable by re-waking itself - tokio's
// cooperative budget - is polled in every yield and changes `polls` every time.)
// If quiescence cannot be established within the watchdog the result is inconclusive.
//
// The other way a case can come to rest: the router thread itself waits inside an iteration (a
// blocking send towards a connection task that is blocked writing to a client that does not
// read). Then neither counter moves and (a) never ends. `RouterProbe::blocked_in_turn` looks at
// the thread's state: asleep inside `verif_turn()` means waiting for an event that only a
// connection task (or, through it, a client) can produce. Seen for a whole observation, twice,
// with the connection tasks given their chance to run in between and none of them runnable
// (same token), this is a verdict as definite as quiescence: `router_thread_blocked_...`.

/// complete idle iterations of the router that one observation waits for (one suffices for the
/// argument above; the rest is margin. `RouterProbe::hurry` makes them cost some microseconds)
pub const QUIET_IDLE_TURNS: u64 = 200;
/// looks (500 microseconds apart) at a router thread asleep inside one iteration before an
/// observation ends as `Probe::Stuck`. A sleeping thread waits for an event, not for a core,
/// so this is not a verdict about speed; the number only keeps a contended allocator lock from
/// being mistaken for a wait on a connection task.
const STUCK_LOOKS: u32 = 200;
/// yields to the scheduler at the start of an observation (one suffices, see (b))
const QUIET_YIELDS: usize = 2;

/// What one observation saw: the number of connection-task polls and of non-idle router
/// iterations so far
#[derive(Clone, Copy, PartialEq, Eq, Debug)]
pub struct QuietToken {
    polls: u64,
    busy: u64,
    /// bytes of an incomplete frame in the client's buffer (a broker that stops in the middle
    /// of a frame is as quiet as one that stops between frames)
    half_read: usize,
}

#[derive(Clone, Copy, PartialEq, Eq, Debug)]
pub enum Probe {
    /// something moved or is about to: a task ran, the router worked, bytes arrived
    Activity,
    /// conditions (b) and (c) held, but the router thread sat asleep inside one and the same
    /// iteration for the whole observation (STUCK_LOOKS looks)
    Stuck(QuietToken),
    /// conditions (a)-(c) held
    Quiet(QuietToken),
}

/// Outcome of `Stack::next_or_quiescent`
#[derive(Debug)]
pub enum Waited {
    Frame(M),
    /// the broker closed the stream
    Closed,
    /// the system is quiescent: no further frame will be written to this stream unless a
    /// client acts
    Quiescent,
}

/// clears `RouterProbe::hurry` on every way out of an observation
struct Hurry<'a>(&'a AtomicBool);

impl Drop for Hurry<'_> {
    fn drop(&mut self) {
        self.0.store(false, Ordering::SeqCst);
    }
}

impl Stack {
    /// Events queued in the router's channel (= `Router::verif_pending_events()`, read from the
    /// sending side of the same channel, so it is current rather than as of the last iteration)
    pub fn pending_events(&self) -> usize {
        self.router_tx.len()
    }

    /// One observation of the quiescence detector on the stream of `c` (see above)
    pub async fn quiet_probe(&self, c: &mut Conn) -> R<Probe> {
        // (b) every runnable connection task runs until it is pending
        let polls0 = self.polls.load(Ordering::SeqCst);
        for _ in 0..QUIET_YIELDS {
            tokio::task::yield_now().await;
        }
        let polls = self.polls.load(Ordering::SeqCst);
        if polls != polls0 {
            return Ok(Probe::Activity);
        }
        // (c) nothing readable; what is buffered is an incomplete frame (`try_next` hands out
        // every complete one first) whose length must not change between two observations
        if c.fill_now().await {
            return Ok(Probe::Activity);
        }
        let half_read = c.rbuf.len();
        // (a) the router is idle and stays idle while nothing else can run
        let busy = self.router.busy.load(Ordering::SeqCst);
        let streak0 = self.router.idle_streak.load(Ordering::SeqCst);
        self.router.wake_at.store(streak0 + QUIET_IDLE_TURNS + 1, Ordering::SeqCst);
        self.router.hurry.store(true, Ordering::SeqCst);
        let _hurry = Hurry(&self.router.hurry);
        let t0 = Instant::now();
        let mut stuck = 0u32;
        loop {
            let streak = self.router.idle_streak.load(Ordering::SeqCst);
            if self.router.busy.load(Ordering::SeqCst) != busy {
                return Ok(Probe::Activity);
            }
            if streak > streak0 + QUIET_IDLE_TURNS {
                break;
            }
            // the router unparks this thread when one of the two has happened; the timeout only
            // bounds the delay after a missed wake-up
            std::thread::park_timeout(Duration::from_micros(500));
            // neither has happened: is the router asleep inside an iteration (the same one, as
            // neither counter moves)?
            if streak == streak0 && self.router.blocked_in_turn() {
                stuck += 1;
                if stuck >= STUCK_LOOKS {
                    return Ok(Probe::Stuck(QuietToken { polls, busy, half_read }));
                }
            } else {
                stuck = 0;
            }
            if self.router.exited.load(Ordering::SeqCst) {
                // the router thread is gone; its panic is the verdict of the case
                return match self.router_failure.lock().unwrap().clone() {
                    Some(f) => Err(Stop::Fail(f)),
                    None => Err(Stop::Inconclusive("router thread (stopped)".into())),
                };
            }
            if t0.elapsed() > WATCHDOG {
                return Err(Stop::Inconclusive("idle router (quiescence detector)".into()));
            }
        }
        if self.pending_events() != 0 {
            return Ok(Probe::Activity);
        }
        Ok(Probe::Quiet(QuietToken { polls, busy, half_read }))
    }

    /// The next frame on `c`, or the verdict that none will come: waits without a wall clock
    /// until a frame has arrived, the stream is closed, or the system is quiescent (two
    /// consecutive quiet observations with the same token). What other connections have not
    /// read yet is deliberately not part of the condition (see T4 above). Watchdog expiry
    /// (quiescence cannot be established, e.g. on an overloaded machine) is inconclusive.
    pub async fn next_or_quiescent(&self, c: &mut Conn) -> R<Waited> {
        let t0 = Instant::now();
        let mut seen: Option<QuietToken> = None;
        let mut stuck: Option<QuietToken> = None;
        loop {
            match c.try_next().await? {
                Polled::Frame(m) => return Ok(Waited::Frame(m)),
                Polled::Closed => return Ok(Waited::Closed),
                Polled::Nothing => {}
            }
            match self.quiet_probe(c).await? {
                Probe::Activity => (seen, stuck) = (None, None),
                Probe::Quiet(t) if seen == Some(t) => return Ok(Waited::Quiescent),
                Probe::Quiet(t) => (seen, stuck) = (Some(t), None),
                // the second time, after the connection tasks had their chance to run and none
                // was runnable: only a client's action could wake the router thread again
                Probe::Stuck(t) if stuck == Some(t) => {
                    return Err(Stop::Fail(Failure::new(
                        "router_thread_blocked_inside_an_iteration",
                        format!(
                            "the router thread sleeps inside one iteration of its loop while no connection task is runnable and {} waits for a frame: it waits for a connection task that itself waits for its client (a client that does not read stops the broker)",
                            c.name
                        ),
                    )))
                }
                Probe::Stuck(t) => (seen, stuck) = (None, Some(t)),
            }
            if t0.elapsed() > WATCHDOG {
                return Err(Stop::Inconclusive(format!(
                    "frame on {} (neither a frame nor quiescence; {} packets read so far, last: {:?})",
                    c.name,
                    c.log.len(),
                    c.log.last()
                )));
            }
        }
    }
}

impl Stack {
    /// Overload: the router stops taking turns and its event channel is filled up to one free
    /// slot with wake-ups that carry no work (`DeviceData` for a connection with an empty
    /// buffer). Whatever a connection task hands to the router next has to wait for capacity,
    /// as it would behind a busy router. A releaser thread lets the router go on as soon as the
    /// channel has been full for a few milliseconds (somebody is blocked in `send`), or after
    /// 300 ms in any case; the case body may be blocked inside a connection task's blocking
    /// `send` meanwhile (current-thread runtime), which is why the release cannot be its job.
    /// Pacing only: no verdict depends on when the release happens.
    pub fn back_up_router(&self, wake_id: ConnectionId) -> usize {
        let hold = self.router.hold.clone();
        hold.store(true, Ordering::Release);
        let cap = self.router_tx.capacity().unwrap_or(1000);
        let mut filled = 0;
        while self.router_tx.len() + 1 < cap {
            if self.router_tx.try_send((wake_id, Event::DeviceData)).is_err() {
                break;
            }
            filled += 1;
        }
        let tx = self.router_tx.clone();
        std::thread::spawn(move || {
            let start = std::time::Instant::now();
            let mut full = 0;
            while start.elapsed() < Duration::from_millis(300) && full < 5 {
                std::thread::sleep(Duration::from_millis(2));
                full = if tx.len() >= cap { full + 1 } else { 0 };
            }
            hold.store(false, Ordering::Release);
        });
        filled
    }
}

/// Decodes one complete frame written by the broker with rumqttc's decoder of that version
/// (via the codec adapters), cross-checked against the reference decoder.
pub fn decode_from_broker(ver: Ver, frame: &[u8]) -> Result<M, Failure> {
    let mut buf = BytesMut::from(frame);
    let vn = ver.name();
    let m = match ver {
        Ver::V4 => match guard("decode:client_v4", || C4::decode(&mut buf, usize::MAX))? {
            Out::Packet(p) => <C4 as Codec>::from(&p),
            o => {
                return Err(Failure::new(
                    format!("broker_output_not_decodable:{vn}"),
                    format!("rumqttc {vn} decoder on {:02x?}: {o:?}", &frame[..frame.len().min(64)]),
                ))
            }
        },
        Ver::V5 => match guard("decode:client_v5", || C5::decode(&mut buf, usize::MAX))? {
            Out::Packet(p) => <C5 as Codec>::from(&p),
            o => {
                return Err(Failure::new(
                    format!("broker_output_not_decodable:{vn}"),
                    format!("rumqttc {vn} decoder on {:02x?}: {o:?}", &frame[..frame.len().min(64)]),
                ))
            }
        },
    };
    let Some(m) = m else {
        return Err(Failure::new(
            format!("broker_output_not_expressible:{vn}"),
            format!("decoded packet cannot be expressed in the model: {:02x?}", &frame[..frame.len().min(64)]),
        ));
    };
    if !buf.is_empty() {
        return Err(Failure::new(
            format!("broker_output_frame_length:{vn}"),
            format!("decoder left {} bytes of the frame {:02x?}", buf.len(), &frame[..frame.len().min(64)]),
        ));
    }
    // the frame must also be legal by the specification (independent reference decoder)
    match reference::decode(ver, frame) {
        Ok(r) if r.clone().normalise() == m.clone().normalise() => {}
        Ok(r) => {
            return Err(Failure::new(
                format!("broker_output_decoders_disagree:{vn}:{}", m.type_name()),
                format!("rumqttc: {m:?}; reference: {r:?}"),
            ))
        }
        Err(e) => {
            return Err(Failure::new(
                format!("broker_output_illegal_frame:{vn}:{}", m.type_name()),
                format!("reference decoder rejects {:02x?}: {e}", &frame[..frame.len().min(64)]),
            ))
        }
    }
    Ok(m.normalise())
}

impl Conn {
    /// Writes raw bytes; Ok(false) when the broker side has closed the stream
    pub async fn send(&mut self, bytes: &[u8]) -> R<bool> {
        let Some(io) = self.io.as_mut() else { return Ok(false) };
        match tokio::time::timeout(WATCHDOG, io.write_all(bytes)).await {
            Ok(Ok(())) => Ok(true),
            Ok(Err(_)) => Ok(false),
            Err(_) => Err(Stop::Inconclusive(format!("write on {}", self.name))),
        }
    }

    /// Writes as much of `bytes` as the stream takes without waiting (a connection task that
    /// does not read, e.g. because it is blocked writing to this client, takes at most the 64
    /// KiB of the stream); returns the number of bytes written, 0 also when the stream is closed
    pub async fn send_now(&mut self, bytes: &[u8]) -> usize {
        let Some(io) = self.io.as_mut() else { return 0 };
        let mut done = 0;
        while done < bytes.len() {
            let rest = &bytes[done..];
            let polled = tokio::task::coop::unconstrained(std::future::poll_fn(|cx| Poll::Ready(Pin::new(&mut *io).poll_write(cx, rest)))).await;
            match polled {
                Poll::Ready(Ok(n)) if n > 0 => done += n,
                _ => break,
            }
        }
        done
    }

    /// Closes the client's sending direction only (the broker reads end-of-stream, the client
    /// could still read)
    pub async fn shutdown_write(&mut self) {
        if let Some(io) = self.io.as_mut() {
            let _ = io.shutdown().await;
        }
    }

    pub async fn send_packet(&mut self, m: &M) -> R<bool> {
        let bytes = reference::encode(self.ver, m);
        self.send(&bytes).await
    }

    /// Next packet written by the broker; `None` once the broker has closed the stream.
    /// Forwarded QoS 1/2 publishes are acknowledged when `auto_ack` is set.
    pub async fn next(&mut self) -> R<Option<M>> {
        loop {
            if let Header::Complete { remaining, header_len, .. } = reference::parse_header(&self.rbuf) {
                let n = remaining + header_len;
                if self.rbuf.len() >= n {
                    let frame: Vec<u8> = self.rbuf.drain(..n).collect();
                    let m = decode_from_broker(self.ver, &frame)?;
                    self.log.push(m.clone());
                    self.auto_reply(&m).await?;
                    return Ok(Some(m));
                }
            } else if let Header::Malformed = reference::parse_header(&self.rbuf) {
                return Err(Stop::Fail(Failure::new(
                    format!("broker_output_not_decodable:{}", self.ver.name()),
                    format!("malformed fixed header {:02x?}", &self.rbuf[..self.rbuf.len().min(16)]),
                )));
            }
            let Some(io) = self.io.as_mut() else { return Ok(None) };
            let mut chunk = [0u8; 4096];
            match tokio::time::timeout(WATCHDOG, io.read(&mut chunk)).await {
                Ok(Ok(0)) | Ok(Err(_)) => {
                    if !self.rbuf.is_empty() {
                        return Err(Stop::Fail(Failure::new(
                            format!("broker_output_truncated:{}", self.ver.name()),
                            format!("stream ended inside a frame: {:02x?}", &self.rbuf[..self.rbuf.len().min(32)]),
                        )));
                    }
                    return Ok(None);
                }
                Ok(Ok(n)) => self.rbuf.extend_from_slice(&chunk[..n]),
                Err(_) => {
                    return Err(Stop::Inconclusive(format!(
                        "read on {} (task finished: {}, {} packets read so far, last: {:?})",
                        self.name,
                        self.task_finished(),
                        self.log.len(),
                        self.log.last()
                    )))
                }
            }
        }
    }

    /// The acknowledgement a well-behaved client owes for `m`, when `auto_ack` is set
    async fn auto_reply(&mut self, m: &M) -> R<()> {
        if self.auto_ack {
            let ack = |pkid: u16| md::Ack { pkid, reason: 0, props: Props::default() };
            let reply = match m {
                M::Publish(p) if p.qos == 1 => Some(M::PubAck(ack(p.pkid))),
                M::Publish(p) if p.qos == 2 => Some(M::PubRec(ack(p.pkid))),
                M::PubRel(a) => Some(M::PubComp(ack(a.pkid))),
                _ => None,
            };
            if let Some(r) = reply {
                self.send_packet(&r).await?;
            }
        }
        Ok(())
    }

    /// Moves what the broker has written so far into the read buffer, without waiting and
    /// without giving the connection tasks a chance to run (the poll is not subject to tokio's
    /// cooperative budget, so `Pending` really means "the stream is empty"). Returns true once
    /// the broker side has closed the stream.
    async fn fill_now(&mut self) -> bool {
        let Some(io) = self.io.as_mut() else { return true };
        let mut chunk = [0u8; 8192];
        loop {
            let mut rb = tokio::io::ReadBuf::new(&mut chunk);
            let polled = tokio::task::coop::unconstrained(std::future::poll_fn(|cx| Poll::Ready(Pin::new(&mut *io).poll_read(cx, &mut rb)))).await;
            match polled {
                Poll::Pending => return false,
                Poll::Ready(Ok(())) if !rb.filled().is_empty() => self.rbuf.extend_from_slice(rb.filled()),
                Poll::Ready(_) => return true,
            }
        }
    }

    /// `next` without waiting: a frame only if the broker has already written all of it
    pub async fn try_next(&mut self) -> R<Polled> {
        let closed = self.fill_now().await;
        match reference::parse_header(&self.rbuf) {
            Header::Complete { remaining, header_len, .. } if self.rbuf.len() >= remaining + header_len => {
                let frame: Vec<u8> = self.rbuf.drain(..remaining + header_len).collect();
                let m = decode_from_broker(self.ver, &frame)?;
                self.log.push(m.clone());
                self.auto_reply(&m).await?;
                Ok(Polled::Frame(m))
            }
            Header::Malformed => Err(Stop::Fail(Failure::new(
                format!("broker_output_not_decodable:{}", self.ver.name()),
                format!("malformed fixed header {:02x?}", &self.rbuf[..self.rbuf.len().min(16)]),
            ))),
            _ if closed && !self.rbuf.is_empty() => Err(Stop::Fail(Failure::new(
                format!("broker_output_truncated:{}", self.ver.name()),
                format!("stream ended inside a frame: {:02x?}", &self.rbuf[..self.rbuf.len().min(32)]),
            ))),
            _ if closed => Ok(Polled::Closed),
            _ => Ok(Polled::Nothing),
        }
    }

    /// Reads raw bytes (no decoding, kept for later `next` calls) until at least `n` bytes are
    /// buffered; Ok(false) when the stream ended first
    pub async fn read_raw_at_least(&mut self, n: usize) -> R<bool> {
        while self.rbuf.len() < n {
            let Some(io) = self.io.as_mut() else { return Ok(false) };
            let mut chunk = [0u8; 1024];
            match tokio::time::timeout(WATCHDOG, io.read(&mut chunk)).await {
                Ok(Ok(0)) | Ok(Err(_)) => return Ok(false),
                Ok(Ok(k)) => self.rbuf.extend_from_slice(&chunk[..k]),
                Err(_) => return Err(Stop::Inconclusive(format!("raw read on {}", self.name))),
            }
        }
        Ok(true)
    }

    /// Reads until `stop` accepts a packet (inclusive) or the stream ends; returns what was read
    pub async fn read_until(&mut self, mut stop: impl FnMut(&M) -> bool) -> R<(Vec<M>, bool)> {
        let mut got = Vec::new();
        loop {
            match self.next().await? {
                None => return Ok((got, false)),
                Some(m) => {
                    let done = stop(&m);
                    got.push(m);
                    if done {
                        return Ok((got, true));
                    }
                }
            }
        }
    }

    /// Reads until the broker closes the stream
    pub async fn read_to_end(&mut self) -> R<Vec<M>> {
        Ok(self.read_until(|_| false).await?.0)
    }

    /// Drops the client end of the stream (both directions): what a vanished peer looks like
    pub fn close(&mut self) {
        self.io = None;
    }

    pub fn is_open(&self) -> bool {
        self.io.is_some()
    }

    /// Has the connection task returned (or panicked)? Non-blocking.
    pub fn task_finished(&self) -> bool {
        self.ended.is_some() || self.task.as_ref().is_some_and(|t| t.is_finished())
    }

    /// Waits for the connection task to return. Everything the task sent to the router was
    /// enqueued before this returns (the sends happen before the task's completion).
    pub async fn join(&mut self) -> R<TaskEnd> {
        if self.ended.is_none() {
            let Some(task) = self.task.as_mut() else { return Ok(TaskEnd::Finished) };
            match tokio::time::timeout(WATCHDOG, task).await {
                Err(_) => return Err(Stop::Inconclusive(format!("join of {}", self.name))),
                Ok(Ok(r)) => self.ended = Some(r),
                Ok(Err(e)) => {
                    self.ended = Some(Err(Failure::new(
                        "panic:connection_task:join_error",
                        format!("connection task ended abnormally: {e}"),
                    )))
                }
            }
            self.task = None;
        }
        Ok(match self.ended.clone().unwrap() {
            Ok(()) => TaskEnd::Finished,
            Err(f) => TaskEnd::Panicked(f),
        })
    }

    /// `join`, where a panic of the task is a violation ("without error or panic")
    pub async fn join_no_panic(&mut self) -> R<()> {
        match self.join().await? {
            TaskEnd::Finished => Ok(()),
            TaskEnd::Panicked(f) => Err(Stop::Fail(f)),
        }
    }

    /// If the task already ended with a panic, report it
    pub async fn check_not_panicked(&mut self) -> R<()> {
        if self.task_finished() {
            self.join_no_panic().await?;
        }
        Ok(())
    }

    // ---- packet helpers -------------------------------------------------------------

    pub async fn subscribe(&mut self, pkid: u16, filter: &str, qos: u8, sub_id: Option<u32>) -> R<bool> {
        let mut props = Props::default();
        if let Some(id) = sub_id {
            props.subscription_ids = vec![id];
        }
        self.send_packet(&M::Subscribe(md::Subscribe {
            pkid,
            filters: vec![md::Filter {
                path: Txt::lit(filter),
                qos,
                nolocal: false,
                preserve_retain: false,
                retain_rule: 0,
            }],
            props,
        }))
        .await
    }

    /// SUBSCRIBE and wait for the SUBACK with that id; everything else read meanwhile is returned
    pub async fn subscribe_wait(&mut self, pkid: u16, filter: &str, qos: u8, sub_id: Option<u32>) -> R<Vec<M>> {
        self.subscribe(pkid, filter, qos, sub_id).await?;
        let (mut got, found) = self.read_until(|m| matches!(m, M::SubAck(s) if s.pkid == pkid)).await?;
        if !found {
            self.check_not_panicked().await?;
            return Err(Stop::Fail(Failure::new(
                "helper_subscribe_not_acknowledged",
                format!("{}: stream closed before SUBACK {pkid} for {filter:?}; got {got:?}", self.name),
            )));
        }
        got.pop();
        Ok(got)
    }

    pub async fn publish(&mut self, topic: &str, payload: &[u8], qos: u8, pkid: u16) -> R<bool> {
        self.send_packet(&M::Publish(md::Publish {
            dup: false,
            qos,
            retain: false,
            topic: Txt::lit(topic),
            pkid: if qos == 0 { 0 } else { pkid },
            payload: Bin::Lit(payload.to_vec()),
            props: Props::default(),
        }))
        .await
    }

    /// PINGREQ and read up to the PINGRESP. Per-connection processing is FIFO (packets of one
    /// connection are handled in order, and its replies are flushed in that order), so every
    /// reply owed for a packet sent before the PINGREQ precedes the PINGRESP.
    pub async fn ping_barrier(&mut self) -> R<(Vec<M>, bool)> {
        self.send_packet(&M::PingReq).await?;
        let (mut got, found) = self.read_until(|m| matches!(m, M::PingResp)).await?;
        if found {
            got.pop();
        }
        Ok((got, found))
    }
}

// ---------------------------------------------------------------------------------------
// running one case

/// Runs `body` with a fresh router thread and a fresh current-thread runtime, then tears
/// everything down (all connection tasks are dropped with the runtime, the router thread is
/// stopped and joined). A panic of the router thread is a failure of the case.
pub fn run_case<F, Fut>(seed: u64, body: F) -> Result<(), Stop>
where
    F: FnOnce(Stack) -> Fut,
    Fut: Future<Output = R<()>>,
{
    run_case_with(seed, router_config(), body)
}

pub fn run_case_with<F, Fut>(seed: u64, config: RouterConfig, body: F) -> Result<(), Stop>
where
    F: FnOnce(Stack) -> Fut,
    Fut: Future<Output = R<()>>,
{
    run_case_probed(seed, config, false, body)
}

/// `run_case_with`; `watch_pauses` as in `RouterThread::start_probed`. The runtime is a
/// current-thread one: connection tasks run only while the body awaits, which the quiescence
/// detector (`Stack::quiet_probe`) relies on.
pub fn run_case_probed<F, Fut>(seed: u64, config: RouterConfig, watch_pauses: bool, body: F) -> Result<(), Stop>
where
    F: FnOnce(Stack) -> Fut,
    Fut: Future<Output = R<()>>,
{
    let (router, router_tx) = RouterThread::start_probed(config, watch_pauses);
    let rt = tokio::runtime::Builder::new_current_thread()
        .enable_time()
        .rng_seed(tokio::runtime::RngSeed::from_bytes(&seed.to_le_bytes()))
        .build()
        .expect("runtime");
    let stack = Stack {
        router_tx,
        router: router.probe.clone(),
        polls: Arc::new(AtomicU64::new(0)),
        router_failure: router.failure.clone(),
    };
    let result = rt.block_on(body(stack));
    // dropping the runtime drops every connection task (and with them their router senders)
    drop(rt);
    let router_failure = router.shutdown();
    match (result, router_failure) {
        (Err(Stop::Fail(f)), _) => Err(Stop::Fail(f)),
        (_, Some(f)) => Err(Stop::Fail(f)),
        (r, None) => r,
    }
}

/// Maps the outcome of a case body to the engine's result: watchdog expiry is inconclusive
pub fn conclude(r: Result<(), Stop>, obs: &mut crate::engine::Obs, label: impl FnOnce() -> String) -> Result<(), Failure> {
    match r {
        Ok(()) => Ok(()),
        Err(Stop::Fail(f)) => Err(f),
        Err(Stop::Inconclusive(what)) => {
            obs.count("watchdog_inconclusive", 1);
            obs.nontrivial = None;
            let note = format!("watchdog expired while waiting for a {what}: {}", label());
            if let Some(path) = std::env::var_os("VERIF_E5_DUMP") {
                use std::io::Write;
                if let Ok(mut f) = std::fs::OpenOptions::new().create(true).append(true).open(path) {
                    let _ = writeln!(f, "{note}");
                }
            }
            obs.notes.push(note);
            Ok(())
        }
    }
}
