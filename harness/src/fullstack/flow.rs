//! E5 campaign `e5_flow` (C09; delivery part of C01, acknowledgement part of C06): sustained
//! flows through the real link code. One publisher sends up to 320 messages in chunks, one
//! subscriber (one or two subscriptions on one connection) reads and acknowledges in a generated
//! rhythm, including long pauses during which its 64 KiB stream fills up and the broker's
//! connection task blocks inside its write. This is the only campaign in which the production
//! `RemoteLink::start` loop plays its own part of the `Unschedule` / `Ready` handshake, batches
//! its writes and has to pick up acknowledgements between them (E4 plays the link itself).
//!
//! Everything is driven from the one case body (publisher and subscriber steps interleaved), on
//! a current-thread runtime. No assertion depends on time:
//!  * the publisher closes every chunk with a PINGREQ, so "every acknowledgement, nothing else"
//!    is decided at the PINGRESP (B4 in `props.rs`);
//!  * whenever the script waits for a frame it waits with `Stack::next_or_quiescent`: either the
//!    frame arrives or the quiescence detector (`stack.rs`) proves that nothing will ever be
//!    written to that stream again without a further stimulus. Quiescent while the oracle still
//!    expects a frame is a definitive stall (`flow:stalled:*`); the same detector decides the
//!    opposite question "the window is full, does the broker really send nothing more?".
//!
//! Oracle of the subscriber (`SubModel`): per subscription the accepted serials in acceptance
//! order. The broker accepts a QoS 0/1 publish when it handles it and a QoS 2 publish when it
//! handles its PUBREL (rumqttd appends to the log then; assumption listed in the plan), so a
//! chunk is accepted as: its QoS 0/1 messages in sending order, then its QoS 2 messages in
//! release order. A frame must still come iff a PUBREL is owed, or something accepted is
//! undelivered and the window is not full *from the client's point of view* (forwards received
//! minus acknowledgements sent; a lower bound of the broker's count, equal to it at quiescence).
//! While the window is full nothing is owed on any subscription of the connection (the broker
//! parks the whole connection), which is what C09 grants.

use super::stack::*;
use crate::codec::model::{self as md, Bin, Props, Txt, Ver, M};
use crate::codec::reference;
use crate::engine::*;
use crate::{s_ensure, s_fail};
use proptest::prelude::*;
use rumqttd::RouterConfig;
use serde::{Deserialize, Serialize};
use serde_json::json;
use std::collections::{HashSet, VecDeque};

pub const FLOW_RULE: &str = "E5 flow (e5_flow): real router thread + real connection tasks (RemoteLink/Network over 64 KiB duplex streams), publisher and subscriber of (v4|v5)x(v4|v5), max_outgoing_packet_count in {8,30,200}; the subscriber holds f/# (QoS 0-2) and optionally g/# (own QoS) on one connection; the publisher sends 1-320 messages (five topics under f/ and g/, QoS 0-2 with the full acknowledgement flow, payload = serial tag alone / ~200 B / ~3000 B by a per-case mix) in chunks of 1-25 written back-to-back, each chunk closed by PINGREQ, then a QoS 0 end marker per subscription; a cyclic script of Pub(chunks) / Read(frames) / Ack(oldest n | all) steps interleaves them, so the subscriber pauses while its stream fills and the broker's write blocks, acknowledges in order (PUBACK; PUBREC then PUBCOMP held back to the next round, sent on PUBREL, or awaited flow by flow) and eventually everything. Oracle, while reading: per subscription exactly the accepted serials in acceptance order, each once, topic and payload intact (C01); pkid != 0 iff QoS > 0, at most 100 unacknowledged QoS>0 forwards at the client with pairwise distinct ids, checked again after the system went quiescent with a full window; one PUBREL per PUBREC in order (C09); the publisher reads exactly its PUBACK/PUBREC, then PUBCOMP, in request order before the PINGRESP (C06); both tasks alive at the end. Liveness without a clock: a frame the oracle still expects (backlog with an open window, PUBREL, acknowledgements, PINGRESP) while the quiescence detector holds (router idle for 200 iterations with an empty channel, no connection task runnable, stream empty, observed twice) is a stall. Non-trivial: >=60 messages delivered and (>=2 acknowledgement rounds or max_outgoing_packet_count < 200).";

/// topics 0..=2 match f/#, 3..=4 match g/#
pub(super) const TOPICS: [&str; 5] = ["f/a", "f/b/c", "f", "g/a", "g/x/y"];
pub(super) const FILTERS: [&str; 2] = ["f/#", "g/#"];
const END_TOPICS: [&str; 2] = ["f/end", "g/end"];
/// the publisher's own subscription (`FlowParams::echo`)
pub(super) const ECHO_TOPIC: &str = "g/a";
/// what C09 grants: unacknowledged QoS>0 publishes towards one client
pub(super) const WINDOW: usize = 100;
const MEDIUM: usize = 200;
const LARGE: usize = 3000;

#[derive(Clone, Debug, Serialize, Deserialize)]
pub struct FlowMsg {
    /// index into TOPICS
    pub topic: u8,
    pub qos: u8,
    /// 0..100, turned into a size class by `FlowCase::mix` (shrinks towards "tiny")
    pub size: u8,
}

#[derive(Clone, Copy, Debug, PartialEq, Eq, Serialize, Deserialize)]
pub enum FlowStep {
    /// the publisher sends this many chunks (each: `chunk` messages back-to-back, then its
    /// acknowledgement flow) while the subscriber does nothing
    Pub(u8),
    /// the subscriber reads up to this many frames that must arrive
    Read(u16),
    /// the subscriber acknowledges the n oldest unacknowledged forwards; 0 = all of them
    Ack(u8),
}

#[derive(Clone, Copy, Debug, PartialEq, Eq, Serialize, Deserialize)]
pub enum Qos2Style {
    /// PUBREC in the acknowledgement rounds; the PUBCOMPs for the PUBRELs read meanwhile are
    /// held back until the next round
    RecFirst,
    /// PUBCOMP as soon as the PUBREL is read
    CompOnRel,
    /// after every PUBREC the subscriber reads up to its PUBREL and completes the flow
    FlowAtOnce,
}

#[derive(Clone, Debug, Serialize, Deserialize)]
pub struct FlowCase {
    pub seed: u64,
    pub pub_ver: Ver,
    pub sub_ver: Ver,
    /// router `max_outgoing_packet_count`
    pub max_out: u16,
    /// QoS of the subscription f/#
    pub sub_qos: u8,
    /// QoS of the second subscription g/# of the same connection, if any
    pub second: Option<u8>,
    /// messages per chunk
    pub chunk: u8,
    pub qos2: Qos2Style,
    /// `FlowMsg::size` below mix[0]: serial tag only; below mix[1]: ~200 B; otherwise ~3000 B
    pub mix: [u8; 2],
    pub msgs: Vec<FlowMsg>,
    /// executed cyclically until everything is published, delivered and acknowledged
    pub script: Vec<FlowStep>,
}

/// Size class of a message under a payload mix: 0 serial tag only, 1 ~200 B, 2 ~3000 B
pub(super) fn size_class(mix: [u8; 2], m: &FlowMsg) -> u8 {
    if m.size < mix[0] {
        0
    } else if m.size < mix[1] {
        1
    } else {
        2
    }
}

impl FlowCase {
    fn class(&self, m: &FlowMsg) -> u8 {
        size_class(self.mix, m)
    }

    fn params(&self) -> FlowParams<'_> {
        FlowParams {
            sig: "flow",
            ids: ["flow-sub", "flow-pub"],
            pub_ver: self.pub_ver,
            sub_ver: self.sub_ver,
            sub_qos: self.sub_qos,
            second: self.second,
            chunk: self.chunk,
            qos2: self.qos2,
            mix: self.mix,
            msgs: &self.msgs,
            echo: false,
        }
    }
}

/// What the two-client flow (publisher, subscriber, oracle: `Run`) needs to know about a case.
/// `e5_flow` runs it alone, `e5_isolation` runs it as the witness pair among adversaries.
pub(super) struct FlowParams<'a> {
    /// first segment of every failure signature
    pub sig: &'static str,
    /// client ids of the subscriber and of the publisher
    pub ids: [&'static str; 2],
    pub pub_ver: Ver,
    pub sub_ver: Ver,
    /// QoS of the subscriber's f/# and, if any, g/#
    pub sub_qos: u8,
    pub second: Option<u8>,
    pub chunk: u8,
    pub qos2: Qos2Style,
    pub mix: [u8; 2],
    pub msgs: &'a [FlowMsg],
    /// the publisher also holds a QoS 0 subscription on ECHO_TOPIC (both directions on one
    /// connection); messages on that topic are always tiny, so that its stream never fills up
    /// while it writes a chunk
    pub echo: bool,
}

pub(super) fn flow_step() -> BoxedStrategy<FlowStep> {
    prop_oneof![
        4 => prop_oneof![4 => 1u8..=2, 3 => 3u8..=6, 2 => 7u8..=16].prop_map(FlowStep::Pub),
        4 => prop_oneof![2 => 1u16..=8, 3 => 9u16..=60, 3 => 61u16..=160, 2 => Just(400u16)].prop_map(FlowStep::Read),
        3 => prop_oneof![2 => Just(1u8), 3 => 2u8..=6, 2 => 7u8..=80, 3 => Just(0u8)].prop_map(FlowStep::Ack),
    ]
    .boxed()
}

pub(super) fn flow_msg() -> BoxedStrategy<FlowMsg> {
    (0u8..TOPICS.len() as u8, 0u8..=2, 0u8..100).prop_map(|(topic, qos, size)| FlowMsg { topic, qos, size }).boxed()
}

fn flow_case() -> BoxedStrategy<FlowCase> {
    let ver = || prop_oneof![Just(Ver::V4), Just(Ver::V5)];
    let common = || {
        (
            any::<u64>(),
            ver(),
            ver(),
            prop::sample::select(vec![8u16, 30, 200]),
            prop_oneof![Just(Qos2Style::RecFirst), Just(Qos2Style::CompOnRel), Just(Qos2Style::FlowAtOnce)],
        )
    };
    // any rhythm
    let general = (
        common(),
        (0u8..=2, prop_oneof![2 => Just(None), 3 => (0u8..=2).prop_map(Some)]),
        prop_oneof![2 => 1u8..=4, 3 => 5u8..=25],
        // all tiny / a few bigger ones / heavy / no large one / all medium / all large
        prop::sample::select(vec![[100u8, 100], [80, 95], [80, 95], [45, 65], [45, 65], [60, 100], [0, 100], [0, 0]]),
        prop_oneof![1 => prop::collection::vec(flow_msg(), 1..60), 5 => prop::collection::vec(flow_msg(), 60..=320)],
        prop::collection::vec(flow_step(), 2..=8),
    );
    // the slow consumer: the subscriber does not read while (nearly) the whole flow is published,
    // big payloads block the broker's write early, and a QoS 0 subscription lets the connection's
    // outgoing buffer run full behind it - the only way to the Unschedule/Ready handshake, which
    // depends on the buffer length (MAX_CHANNEL_CAPACITY - 1 = 199 notifications), not on
    // max_outgoing_packet_count
    let slow_consumer = (
        common(),
        prop::sample::select(vec![(0u8, Some(0u8)), (0, Some(0)), (0, Some(1)), (0, Some(2)), (1, Some(0)), (2, Some(0))]),
        16u8..=25,
        prop::sample::select(vec![[45u8, 65], [30, 60], [20, 40], [0, 0]]),
        prop::collection::vec(flow_msg(), 270..=320),
        (12u8..=16, prop::collection::vec(flow_step(), 1..=6)).prop_map(|(lead, mut tail)| {
            tail.insert(0, FlowStep::Pub(lead));
            tail
        }),
    );
    prop_oneof![4 => general, 1 => slow_consumer]
        .prop_map(|((seed, pub_ver, sub_ver, max_out, qos2), (sub_qos, second), chunk, mix, msgs, script)| FlowCase {
            seed,
            pub_ver,
            sub_ver,
            max_out,
            sub_qos,
            second,
            chunk,
            qos2,
            mix,
            msgs,
            script,
        })
        .boxed()
}

/// Payload of message `serial`: the serial tag, padded to the size class
pub(super) fn payload(serial: usize, class: u8) -> Vec<u8> {
    let mut p = format!("#{serial};").into_bytes();
    let len = match class {
        0 => p.len(),
        1 => MEDIUM,
        _ => LARGE,
    };
    let mut i = 0usize;
    while p.len() < len {
        p.push((serial as u8).wrapping_mul(7).wrapping_add(i as u8).wrapping_add((i >> 8) as u8));
        i += 1;
    }
    p
}

fn serial_of(payload: &[u8]) -> Option<usize> {
    let end = payload.iter().position(|b| *b == b';')?;
    std::str::from_utf8(payload.get(1..end)?).ok()?.parse().ok().filter(|_| payload[0] == b'#')
}

pub(super) fn ack(pkid: u16) -> md::Ack {
    md::Ack { pkid, reason: 0, props: Props::default() }
}

pub struct Flow;

impl Campaign for Flow {
    type Case = FlowCase;
    fn name(&self) -> &'static str {
        "e5_flow"
    }
    fn cases(&self, tier: Tier) -> u64 {
        // a case moves up to a megabyte through the stack
        tier.pick(400, 6000)
    }
    fn max_shrink_iters(&self, tier: Tier) -> u32 {
        tier.pick(400, 1500)
    }
    fn strategy(&self, _tier: Tier) -> BoxedStrategy<FlowCase> {
        flow_case()
    }
    fn check(&self, case: &FlowCase, obs: &mut Obs) -> Result<(), Failure> {
        let mut stats = FlowStats::default();
        // the logs must hold a whole flow (the subscriber may read nothing until the end): small
        // segments, so that reads cross segment boundaries, but enough of them
        let config = RouterConfig {
            max_outgoing_packet_count: case.max_out as u64,
            max_segment_size: 64 * 1024,
            max_segment_count: 64,
            ..router_config()
        };
        let r = run_case_probed(case.seed, config, true, |stack| flow_body(stack, case, &mut stats));
        obs.class(match (case.pub_ver, case.sub_ver) {
            (Ver::V4, Ver::V4) => "v4->v4",
            (Ver::V4, Ver::V5) => "v4->v5",
            (Ver::V5, Ver::V4) => "v5->v4",
            (Ver::V5, Ver::V5) => "v5->v5",
        });
        let kinds = (0..=2).filter(|q| case.msgs.iter().any(|m| m.qos == *q)).count();
        obs.class_if(case.msgs.iter().any(|m| m.qos == 0), "published_qos0");
        obs.class_if(case.msgs.iter().any(|m| m.qos == 1), "published_qos1");
        obs.class_if(case.msgs.iter().any(|m| m.qos == 2), "published_qos2");
        obs.class_if(kinds >= 2, "published_qos_mixed");
        obs.class(match case.sub_qos {
            0 => "subscription_qos0",
            1 => "subscription_qos1",
            _ => "subscription_qos2",
        });
        obs.class_if(case.second.is_some(), "two_subscriptions_one_connection");
        obs.class_if(case.second.is_some_and(|q| (q == 0) != (case.sub_qos == 0)), "qos0_and_qos>0_subscription_share_the_window");
        obs.class_if(stats.max_window >= WINDOW, "client_window_reached_100");
        obs.class_if(stats.settled_full > 0, "full_window_held_at_quiescence");
        obs.class_if(stats.ack_rounds >= 2, "ack_rounds>=2");
        obs.class_if(stats.rels > 0, "qos2_forward_completed");
        obs.class_if(case.msgs.iter().any(|m| case.class(m) == 2), "large_payload");
        obs.class_if(stats.max_unread_bytes > 64 * 1024, "subscriber_paused_beyond_its_stream_capacity");
        obs.class_if(case.max_out < 200, "small_outgoing_batch");
        obs.class_if(stats.busy_pauses > 0, "unschedule_ready_exercised");
        obs.class(match case.msgs.len() {
            0..=59 => "messages<60",
            60..=199 => "messages_60..199",
            _ => "messages>=200",
        });
        obs.count("messages_published", stats.published);
        obs.count("messages_delivered", stats.delivered);
        obs.count("frames_awaited", stats.waits);
        obs.count("unschedule_pauses_seen", stats.busy_pauses);
        if r.is_ok() && stats.delivered >= 60 && (stats.ack_rounds >= 2 || case.max_out < 200) {
            obs.nontrivial(format!(
                "{}->{} sub_qos={}{} window100={} unschedule={} rounds>=2={}",
                case.pub_ver.name(),
                case.sub_ver.name(),
                case.sub_qos,
                case.second.map(|q| format!("+{q}")).unwrap_or_default(),
                stats.max_window >= WINDOW,
                stats.busy_pauses > 0,
                stats.ack_rounds >= 2
            ));
        }
        obs.sample = Some(json!({
            "versions": format!("{}->{}", case.pub_ver.name(), case.sub_ver.name()),
            "max_out": case.max_out,
            "sub_qos": case.sub_qos,
            "second": case.second,
            "chunk": case.chunk,
            "qos2": format!("{:?}", case.qos2),
            "mix": case.mix,
            "messages": case.msgs.len(),
            "script": format!("{:?}", case.script),
            "delivered": stats.delivered,
            "max_window": stats.max_window,
            "ack_rounds": stats.ack_rounds,
            "unschedule_pauses_seen": stats.busy_pauses,
        }));
        conclude(r, obs, || {
            format!(
                "flow case {}->{} max_out={} sub_qos={} second={:?} chunk={} {:?} mix={:?} messages={} script={:?}",
                case.pub_ver.name(),
                case.sub_ver.name(),
                case.max_out,
                case.sub_qos,
                case.second,
                case.chunk,
                case.qos2,
                case.mix,
                case.msgs.len(),
                case.script
            )
        })
    }
}

#[derive(Default)]
pub(super) struct FlowStats {
    pub published: u64,
    pub delivered: u64,
    /// waits decided by `next_or_quiescent`
    pub waits: u64,
    pub max_window: usize,
    /// times the system went quiescent while the client's window was full
    pub settled_full: u64,
    pub ack_rounds: u64,
    /// PUBRELs received
    pub rels: u64,
    /// accepted for the subscriber and not yet read by it, in payload bytes (maximum)
    pub max_unread_bytes: usize,
    pub busy_pauses: u64,
    /// forwards the publisher received on its own subscription
    pub echoed: u64,
}

/// What has been published under one serial
#[derive(Clone, Copy)]
struct Sent {
    topic: &'static str,
    class: u8,
}

/// The subscriber's side of the oracle
#[derive(Default)]
pub(super) struct SubModel {
    subscribed: [bool; 2],
    /// per subscription (0: f/#, 1: g/#) the serials the broker has accepted, in acceptance order
    accepted: [Vec<usize>; 2],
    /// how many of them have been delivered (or, if optional, passed over)
    delivered: [usize; 2],
    /// QoS>0 forwards received and not yet acknowledged (PUBACK / PUBREC), oldest first
    unacked: VecDeque<(u16, u8)>,
    /// PUBRECs sent whose PUBREL has not arrived, oldest first
    rec_sent: VecDeque<u16>,
    /// PUBRELs received whose PUBCOMP is held back (`Qos2Style::RecFirst`)
    comp_due: VecDeque<u16>,
    /// the system was quiescent with the window full and nothing has been acknowledged since
    settled_full: bool,
    unread_bytes: usize,
}

impl SubModel {
    /// Something accepted that must still be delivered (`optional`: serials that may have been
    /// accepted or not, see `Run::accept_foreign`)
    fn backlog(&self, optional: &HashSet<usize>) -> bool {
        (0..2).any(|s| self.accepted[s][self.delivered[s]..].iter().any(|serial| !optional.contains(serial)))
    }

    /// Why a further frame must arrive without any further stimulus, if it must
    fn owed(&self, optional: &HashSet<usize>) -> Option<&'static str> {
        if !self.rec_sent.is_empty() {
            Some("pubrel_owed")
        } else if self.backlog(optional) && self.unacked.len() < WINDOW {
            Some("backlog:window_full_from_client=false")
        } else {
            None
        }
    }

    fn done(&self, optional: &HashSet<usize>) -> bool {
        !self.backlog(optional) && self.unacked.is_empty() && self.rec_sent.is_empty() && self.comp_due.is_empty()
    }
}

/// One ordered stream of QoS 0 forwards: the accepted serials and how far delivery has come
/// (the publisher's own subscription and the subscriptions of third parties that only watch,
/// `Run::watch`; the subscriber's two streams live in `SubModel`)
#[derive(Default)]
struct Echo {
    /// a watcher's filter is f/# or g/#: the first byte of the topics it is owed. `None`: the
    /// publisher's own subscription on ECHO_TOPIC
    first: Option<u8>,
    accepted: Vec<usize>,
    delivered: usize,
}

/// Publisher, subscriber and their oracle
pub(super) struct Run<'a> {
    pub p: FlowParams<'a>,
    stack: &'a Stack,
    pub stats: &'a mut FlowStats,
    pub publisher: Conn,
    pub sub: Conn,
    model: SubModel,
    echo: Echo,
    /// subscriptions of watching third parties, in the order of `watch`
    watchers: Vec<Echo>,
    /// everything published so far (by whomever), by serial
    sent: Vec<Sent>,
    /// serials whose acceptance is not known (their sender's connection ended before the
    /// broker confirmed them): they may be delivered, at their place, or not at all
    optional: HashSet<usize>,
    /// how many of `p.msgs` have been published
    next_msg: usize,
}

async fn flow_body(stack: Stack, case: &FlowCase, stats: &mut FlowStats) -> R<()> {
    let r = flow_script(&stack, case, stats).await;
    stats.busy_pauses = stack.router.busy_pauses();
    r
}

async fn flow_script(stack: &Stack, case: &FlowCase, stats: &mut FlowStats) -> R<()> {
    // 1. subscriber (clean session, keep-alive 600) with its subscriptions, then the publisher
    let mut run = Run::open(stack, case.params(), stats).await?;

    // 2. the script, cyclically, until everything is published, delivered and acknowledged
    let mut markers_sent = false;
    let mut at = 0usize;
    let mut effect_in_cycle = false;
    let mut steps = 0u32;
    loop {
        if run.all_published() && !markers_sent {
            // 3. QoS 0 end marker per subscription
            run.publish_markers().await?;
            markers_sent = true;
        }
        if markers_sent && run.done() {
            break;
        }
        steps += 1;
        if steps > 100_000 {
            return Err(Stop::Inconclusive("end of the script (step limit)".into()));
        }
        if case.script.is_empty() || (at == case.script.len() && !effect_in_cycle) {
            // a whole cycle changed nothing (e.g. a script without Ack and a full window): the
            // well-behaved subscriber reads what must come and acknowledges everything
            run.forced_round().await?;
            at = 0;
            continue;
        }
        if at == case.script.len() {
            at = 0;
            effect_in_cycle = false;
        }
        let step = case.script[at];
        at += 1;
        effect_in_cycle |= run.step(step).await?;
    }

    // both connections are alive and owe nothing more
    run.alive().await
}

impl<'a> Run<'a> {
    fn sig(&self, tail: impl std::fmt::Display) -> String {
        format!("{}:{}", self.p.sig, tail)
    }

    /// The subscriber connects (clean session, keep-alive 600) and subscribes, then the
    /// publisher connects (and subscribes to ECHO_TOPIC if `p.echo`)
    pub async fn open(stack: &'a Stack, p: FlowParams<'a>, stats: &'a mut FlowStats) -> R<Run<'a>> {
        let mut sub = stack.connect("subscriber", &Listener::plain(p.sub_ver), p.ids[0]).await?;
        sub.auto_ack = false;
        let mut model = SubModel::default();
        for (i, qos) in [Some(p.sub_qos), p.second].into_iter().enumerate() {
            if let Some(qos) = qos {
                let early = sub.subscribe_wait(1 + i as u16, FILTERS[i], qos, None).await?;
                s_ensure!(early.is_empty(), format!("{}:frame_before_any_publish", p.sig), "subscriber read {early:?} before the SUBACK of {}", FILTERS[i]);
                model.subscribed[i] = true;
            }
        }
        let mut publisher = stack.connect("publisher", &Listener::plain(p.pub_ver), p.ids[1]).await?;
        publisher.auto_ack = false;
        if p.echo {
            let early = publisher.subscribe_wait(1, ECHO_TOPIC, 0, None).await?;
            s_ensure!(early.is_empty(), format!("{}:frame_before_any_publish", p.sig), "publisher read {early:?} before the SUBACK of {ECHO_TOPIC}");
        }
        Ok(Run { p, stack, stats, publisher, sub, model, echo: Echo::default(), watchers: Vec::new(), sent: Vec::new(), optional: HashSet::new(), next_msg: 0 })
    }

    pub fn all_published(&self) -> bool {
        self.next_msg >= self.p.msgs.len()
    }

    /// Everything accepted has been delivered and acknowledged
    pub fn done(&self) -> bool {
        self.model.done(&self.optional)
    }

    pub fn window(&self) -> usize {
        self.model.unacked.len()
    }

    /// One step of a script. Returns whether it had any effect.
    pub async fn step(&mut self, step: FlowStep) -> R<bool> {
        match step {
            FlowStep::Pub(chunks) => self.publish(chunks as usize).await,
            FlowStep::Read(k) => self.read(k as usize).await,
            FlowStep::Ack(n) => self.ack(n as usize).await,
        }
    }

    /// What a well-behaved pair does when the script no longer moves anything: the next chunk,
    /// everything that must come is read, everything is acknowledged
    pub async fn forced_round(&mut self) -> R<()> {
        self.publish(1).await?;
        self.read(usize::MAX).await?;
        self.ack(0).await?;
        Ok(())
    }

    // ---- publisher ------------------------------------------------------------------

    /// Sends the next `chunks` chunks (fewer when the messages run out). Returns whether
    /// anything was sent.
    pub async fn publish(&mut self, chunks: usize) -> R<bool> {
        let mut any = false;
        for _ in 0..chunks {
            let from = self.next_msg;
            let to = (from + self.p.chunk.max(1) as usize).min(self.p.msgs.len());
            if from >= to {
                break;
            }
            let batch: Vec<(&'static str, u8, u8)> = self.p.msgs[from..to]
                .iter()
                .map(|m| {
                    let topic = TOPICS[m.topic as usize % TOPICS.len()];
                    let class = if self.p.echo && topic == ECHO_TOPIC { 0 } else { size_class(self.p.mix, m) };
                    (topic, m.qos.min(2), class)
                })
                .collect();
            self.next_msg = to;
            self.publish_batch(&batch).await?;
            any = true;
        }
        Ok(any)
    }

    pub async fn publish_markers(&mut self) -> R<()> {
        let batch: Vec<(&'static str, u8, u8)> = (0..2).filter(|s| self.model.subscribed[*s]).map(|s| (END_TOPICS[s], 0, 0)).collect();
        self.publish_batch(&batch).await
    }

    /// Gives the next message (of whatever sender) its serial; returns the serial and the payload
    pub fn register(&mut self, topic: &'static str, class: u8) -> (usize, Vec<u8>) {
        let serial = self.sent.len();
        self.sent.push(Sent { topic, class });
        (serial, payload(serial, class))
    }

    /// The broker has accepted message `serial` (now, i.e. behind everything accepted before):
    /// it is owed to every witness subscription it matches
    fn accept(&mut self, serial: usize) {
        let Sent { topic, class } = self.sent[serial];
        let s = if topic.starts_with('f') { 0 } else { 1 };
        if (topic.starts_with('f') || topic.starts_with('g')) && self.model.subscribed[s] {
            self.model.accepted[s].push(serial);
            self.model.unread_bytes += payload(serial, class).len();
            self.stats.max_unread_bytes = self.stats.max_unread_bytes.max(self.model.unread_bytes);
        }
        if self.p.echo && topic == ECHO_TOPIC && !self.echo.accepted.contains(&serial) {
            self.echo.accepted.push(serial);
        }
        for w in self.watchers.iter_mut().filter(|w| w.first == topic.as_bytes().first().copied()) {
            w.accepted.push(serial);
        }
    }

    /// A third party now holds a QoS 0 subscription on f/# (`first` = b'f') or g/#: it is owed
    /// everything accepted from now on. The caller reads its stream and hands the forwards to
    /// `on_watched`. Returns the watcher's index.
    pub fn watch(&mut self, first: u8) -> usize {
        self.watchers.push(Echo { first: Some(first), ..Echo::default() });
        self.watchers.len() - 1
    }

    /// Something accepted is still owed to watcher `w`
    pub fn watched_backlog(&self, w: usize) -> bool {
        let w = &self.watchers[w];
        w.accepted[w.delivered..].iter().any(|s| !self.optional.contains(s))
    }

    pub fn on_watched(&mut self, w: usize, p: &md::Publish) -> R<()> {
        self.on_stream(Some(w), p)
    }

    /// A message of a third client, registered with `register`: the broker has confirmed it
    /// (`confirmed`), or the sender's connection ended first, so that nobody knows whether the
    /// broker accepted it (it may then be delivered at this place or never). The caller
    /// guarantees that nothing else is published between the sending and this call.
    pub fn accept_foreign(&mut self, serial: usize, confirmed: bool) {
        if !confirmed {
            self.optional.insert(serial);
        }
        self.accept(serial);
    }

    /// One chunk: the publishes back-to-back in one write, closed by a PINGREQ; exactly their
    /// PUBACK / PUBREC in request order up to the PINGRESP; then the PUBRELs, exactly their
    /// PUBCOMPs (C06). Afterwards the broker has accepted all of them (see the module comment
    /// for the order).
    async fn publish_batch(&mut self, batch: &[(&'static str, u8, u8)]) -> R<()> {
        let ver = self.publisher.ver;
        let mut bytes = Vec::new();
        let mut want = Vec::new();
        let mut serials = Vec::new();
        for &(topic, qos, class) in batch {
            let (serial, body) = self.register(topic, class);
            let pkid = (serial % 60_000) as u16 + 1;
            bytes.extend(reference::encode(
                ver,
                &M::Publish(md::Publish {
                    dup: false,
                    qos,
                    retain: false,
                    topic: Txt::lit(topic),
                    pkid: if qos == 0 { 0 } else { pkid },
                    payload: Bin::Lit(body),
                    props: Props::default(),
                }),
            ));
            match qos {
                0 => {}
                1 => want.push(M::PubAck(ack(pkid))),
                _ => want.push(M::PubRec(ack(pkid))),
            }
            serials.push((serial, qos));
            self.stats.published += 1;
        }
        // the publisher's own subscription is read while the chunk is acknowledged: what it may
        // receive is fixed before the broker can send it
        let echo_order = |release_pass: bool| serials.iter().filter(move |(_, qos)| (*qos == 2) == release_pass).map(|(s, _)| *s);
        if self.p.echo {
            for serial in echo_order(false).filter(|s| self.sent[*s].topic == ECHO_TOPIC).collect::<Vec<_>>() {
                self.echo.accepted.push(serial);
            }
        }
        bytes.extend(reference::encode(ver, &M::PingReq));
        self.publisher.send(&bytes).await?;
        self.replies(&want, "publish").await?;

        let releases: Vec<u16> = want.iter().filter_map(|m| if let M::PubRec(a) = m { Some(a.pkid) } else { None }).collect();
        if !releases.is_empty() {
            if self.p.echo {
                for serial in echo_order(true).filter(|s| self.sent[*s].topic == ECHO_TOPIC).collect::<Vec<_>>() {
                    self.echo.accepted.push(serial);
                }
            }
            let mut bytes = Vec::new();
            for pkid in &releases {
                bytes.extend(reference::encode(ver, &M::PubRel(ack(*pkid))));
            }
            bytes.extend(reference::encode(ver, &M::PingReq));
            self.publisher.send(&bytes).await?;
            let want: Vec<M> = releases.iter().map(|p| M::PubComp(ack(*p))).collect();
            self.replies(&want, "release").await?;
        }

        for release_pass in [false, true] {
            for serial in echo_order(release_pass).collect::<Vec<_>>() {
                self.accept(serial);
            }
        }
        Ok(())
    }

    /// Reads the publisher's stream up to the PINGRESP: exactly `want`, in this order (and, with
    /// `p.echo`, forwards of its own subscription in between)
    async fn replies(&mut self, want: &[M], phase: &'static str) -> R<()> {
        let mut got = 0usize;
        loop {
            self.stats.waits += 1;
            let m = match self.stack.next_or_quiescent(&mut self.publisher).await? {
                Waited::Frame(m) => m,
                Waited::Closed => {
                    self.publisher.check_not_panicked().await?;
                    s_fail!(self.sig(format_args!("publisher_closed:{phase}")), "publisher stream closed after {got} of {} replies", want.len())
                }
                Waited::Quiescent => s_fail!(
                    self.sig(format_args!("stalled:publisher:{phase}")),
                    "the system is quiescent, the publisher has read {got} of {} replies and no PINGRESP; next owed: {:?}",
                    want.len(),
                    want.get(got)
                ),
            };
            if m == M::PingResp {
                s_ensure!(
                    got == want.len(),
                    self.sig(format_args!("ack:missing:{}", want[got.min(want.len() - 1)].type_name())),
                    "PINGRESP arrived after {got} of {} replies of the {phase} phase; first missing: {:?}",
                    want.len(),
                    want.get(got)
                );
                return Ok(());
            }
            if let (true, M::Publish(p)) = (self.p.echo, &m) {
                self.on_echo(p)?;
                continue;
            }
            match want.get(got) {
                Some(w) if *w == m => got += 1,
                w => s_fail!(
                    self.sig(format_args!("ack:unexpected:{}:{}", phase, m.type_name())),
                    "reply {got} of the {phase} phase is {m:?}, expected {}",
                    w.map(|w| format!("{w:?}")).unwrap_or_else(|| "the PINGRESP".into())
                ),
            }
        }
    }

    /// A forward on the publisher's own QoS 0 subscription: the accepted ECHO_TOPIC messages in
    /// acceptance order, each once
    fn on_echo(&mut self, p: &md::Publish) -> R<()> {
        self.on_stream(None, p)?;
        self.stats.echoed += 1;
        Ok(())
    }

    /// A forward on an ordered QoS 0 stream (`None`: the publisher's, `Some(w)`: a watcher's)
    fn on_stream(&mut self, w: Option<usize>, p: &md::Publish) -> R<()> {
        let name = if w.is_some() { "watch" } else { "echo" };
        let topic = p.topic.get();
        let body = p.payload.get();
        let stream = match w {
            None => &self.echo,
            Some(w) => &self.watchers[w],
        };
        let fits = match stream.first {
            None => topic == ECHO_TOPIC,
            Some(b) => topic.as_bytes().first() == Some(&b),
        };
        s_ensure!(fits, self.sig(format_args!("{name}:foreign_topic")), "a forward on {topic:?} on a subscription it does not match");
        let Some(serial) = serial_of(&body) else {
            s_fail!(self.sig(format_args!("{name}:payload_unidentifiable")), "forward on {topic:?} with payload {:02x?}", &body[..body.len().min(24)])
        };
        let mut at = stream.delivered;
        while stream.accepted.get(at).is_some_and(|s| *s != serial && self.optional.contains(s)) {
            at += 1;
        }
        if stream.accepted.get(at) != Some(&serial) {
            let sig = if stream.accepted[..at].contains(&serial) {
                "duplicate"
            } else if stream.accepted[at..].contains(&serial) {
                "order"
            } else {
                "not_accepted"
            };
            s_fail!(self.sig(format_args!("{name}:{sig}")), "forward {at} of this subscription is message {serial}, expected message {:?}", stream.accepted.get(at))
        }
        s_ensure!(body == payload(serial, self.sent[serial].class), self.sig(format_args!("{name}:payload_differs")), "message {serial}: delivered {} bytes", body.len());
        s_ensure!(p.qos == 0 && p.pkid == 0, self.sig(format_args!("{name}:qos")), "forward on a QoS 0 subscription: {p:?}");
        match w {
            None => self.echo.delivered = at + 1,
            Some(w) => self.watchers[w].delivered = at + 1,
        }
        Ok(())
    }

    // ---- subscriber -----------------------------------------------------------------

    /// Waits for the next frame on the subscriber's stream; `None` = quiescent
    async fn sub_frame(&mut self) -> R<Option<M>> {
        self.stats.waits += 1;
        match self.stack.next_or_quiescent(&mut self.sub).await? {
            Waited::Frame(m) => Ok(Some(m)),
            Waited::Quiescent => Ok(None),
            Waited::Closed => {
                self.sub.check_not_panicked().await?;
                s_fail!(
                    self.sig("subscriber_closed"),
                    "the broker closed the well-behaved subscriber ({} unacknowledged, {} PUBRELs owed); last frames: {:?}",
                    self.model.unacked.len(),
                    self.model.rec_sent.len(),
                    &self.sub.log[self.sub.log.len().saturating_sub(3)..]
                )
            }
        }
    }

    fn stalled<T>(&self, owed: &str) -> R<T> {
        Err(Stop::Fail(Failure::new(
            self.sig(format_args!("stalled:{owed}")),
            format!(
                "the system is quiescent (router idle, no connection task runnable, stream empty) but the subscriber is still owed a frame: delivered {:?} of {:?} accepted per subscription, {} unacknowledged at the client, {} PUBRELs owed, {} published; last frame: {:?}",
                self.model.delivered,
                [self.model.accepted[0].len(), self.model.accepted[1].len()],
                self.model.unacked.len(),
                self.model.rec_sent.len(),
                self.sent.len(),
                self.sub.log.last().map(|m| m.type_name())
            ),
        )))
    }

    /// Reads up to `k` frames that must arrive. With a full window nothing must; then the body
    /// waits (once per acknowledgement round) until the system is quiescent and takes what the
    /// broker has sent nevertheless: a QoS>0 forward among it exceeds the window.
    pub async fn read(&mut self, k: usize) -> R<bool> {
        let mut any = false;
        for _ in 0..k {
            if let Some(owed) = self.model.owed(&self.optional) {
                match self.sub_frame().await? {
                    Some(m) => self.on_frame(m).await?,
                    None => return self.stalled(owed),
                }
            } else if self.model.unacked.len() >= WINDOW && !self.model.settled_full {
                match self.sub_frame().await? {
                    Some(m) => self.on_frame(m).await?,
                    None => {
                        self.model.settled_full = true;
                        self.stats.settled_full += 1;
                        break;
                    }
                }
            } else {
                break;
            }
            any = true;
        }
        Ok(any)
    }

    async fn on_frame(&mut self, m: M) -> R<()> {
        match m {
            M::Publish(p) => self.on_publish(&p),
            M::PubRel(a) => {
                // one PUBREL per PUBREC, in the order of the PUBRECs
                match self.model.rec_sent.front() {
                    Some(p) if *p == a.pkid => {}
                    Some(_) if self.model.rec_sent.contains(&a.pkid) => {
                        s_fail!(self.sig("pubrel:order"), "PUBREL {} while the PUBRECs {:?} are unanswered", a.pkid, self.model.rec_sent)
                    }
                    _ => s_fail!(self.sig("pubrel:unsolicited"), "PUBREL {} without an unanswered PUBREC ({:?})", a.pkid, self.model.rec_sent),
                }
                self.model.rec_sent.pop_front();
                self.stats.rels += 1;
                if self.p.qos2 == Qos2Style::RecFirst {
                    self.model.comp_due.push_back(a.pkid);
                } else {
                    self.sub.send_packet(&M::PubComp(ack(a.pkid))).await?;
                }
                Ok(())
            }
            other => s_fail!(self.sig(format_args!("unexpected_frame:{}", other.type_name())), "subscriber read {other:?}"),
        }
    }

    fn on_publish(&mut self, p: &md::Publish) -> R<()> {
        let topic = p.topic.get();
        let body = p.payload.get();
        let s = match topic.as_bytes().first() {
            Some(b'f') => 0,
            Some(b'g') => 1,
            _ => s_fail!(self.sig("delivery:foreign_topic"), "forward on {topic:?}"),
        };
        s_ensure!(self.model.subscribed[s], self.sig("delivery:not_subscribed"), "forward on {topic:?} without a subscription on {}", FILTERS[s]);
        let Some(serial) = serial_of(&body) else {
            s_fail!(self.sig("delivery:payload_unidentifiable"), "forward on {topic:?} with payload {:02x?}", &body[..body.len().min(24)])
        };
        // a message whose acceptance is not known may be missing at its place
        while self.model.accepted[s].get(self.model.delivered[s]).is_some_and(|x| *x != serial && self.optional.contains(x)) {
            self.model.delivered[s] += 1;
        }
        // C01: exactly the accepted ones, in acceptance order, each once
        let at = self.model.delivered[s];
        if self.model.accepted[s].get(at) != Some(&serial) {
            let sig = if self.model.accepted[s][..at].contains(&serial) {
                "delivery:duplicate"
            } else if self.model.accepted[s][at..].contains(&serial) {
                "delivery:order"
            } else {
                "delivery:not_accepted_on_this_subscription"
            };
            s_fail!(
                self.sig(sig),
                "{}: forward {} is message {serial} on {topic:?}, expected message {:?} (accepted so far: {})",
                FILTERS[s],
                at,
                self.model.accepted[s].get(at),
                self.model.accepted[s].len()
            )
        }
        let sent = self.sent[serial];
        s_ensure!(topic == sent.topic, self.sig("delivery:topic_differs"), "message {serial} published on {:?}, delivered on {topic:?}", sent.topic);
        s_ensure!(
            body == payload(serial, sent.class),
            self.sig("delivery:payload_differs"),
            "message {serial}: delivered {} bytes, published {}",
            body.len(),
            payload(serial, sent.class).len()
        );
        self.model.delivered[s] += 1;
        self.model.unread_bytes = self.model.unread_bytes.saturating_sub(body.len());
        self.stats.delivered += 1;
        // C09: the forwarded QoS is the broker's choice, but the packet id must fit it
        s_ensure!(p.qos <= 2, self.sig("forward_qos_invalid"), "forward with QoS {}", p.qos);
        s_ensure!(
            (p.qos > 0) == (p.pkid != 0),
            self.sig(format_args!("pkid:qos{}_with_pkid_{}", p.qos.min(1), if p.pkid == 0 { "zero" } else { "nonzero" })),
            "forward {p:?}"
        );
        if p.qos > 0 {
            let reused = self.model.unacked.iter().any(|(id, _)| *id == p.pkid);
            self.model.unacked.push_back((p.pkid, p.qos));
            self.stats.max_window = self.stats.max_window.max(self.model.unacked.len());
            s_ensure!(
                self.model.unacked.len() <= WINDOW,
                self.sig("window_exceeded"),
                "{} QoS>0 forwards are unacknowledged at the client (the system had been quiescent with the full window: {}); packet id {} {}",
                self.model.unacked.len(),
                self.model.settled_full,
                p.pkid,
                if reused { "is also held by an older one" } else { "is fresh" }
            );
            s_ensure!(
                !reused,
                self.sig("pkid:reused_while_unacknowledged"),
                "forward with packet id {} while {:?} are unacknowledged",
                p.pkid,
                self.model.unacked.iter().map(|(id, _)| *id).collect::<Vec<_>>()
            );
        }
        Ok(())
    }

    /// Acknowledges the `n` oldest unacknowledged forwards in order (0 = all), the PUBACKs and
    /// PUBRECs of one round in one write; held-back PUBCOMPs go first. Returns whether anything
    /// was sent.
    pub async fn ack(&mut self, n: usize) -> R<bool> {
        let ver = self.sub.ver;
        let mut bytes = Vec::new();
        for pkid in self.model.comp_due.drain(..) {
            bytes.extend(reference::encode(ver, &M::PubComp(ack(pkid))));
        }
        let n = if n == 0 { self.model.unacked.len() } else { n.min(self.model.unacked.len()) };
        for _ in 0..n {
            let (pkid, qos) = self.model.unacked.pop_front().unwrap();
            if qos == 1 {
                bytes.extend(reference::encode(ver, &M::PubAck(ack(pkid))));
                continue;
            }
            bytes.extend(reference::encode(ver, &M::PubRec(ack(pkid))));
            self.model.rec_sent.push_back(pkid);
            if self.p.qos2 == Qos2Style::FlowAtOnce {
                // complete this flow before the next acknowledgement
                self.sub.send(&bytes).await?;
                bytes.clear();
                while !self.model.rec_sent.is_empty() {
                    match self.sub_frame().await? {
                        Some(m) => self.on_frame(m).await?,
                        None => return self.stalled("pubrel_owed"),
                    }
                }
            }
        }
        let any = n > 0 || !bytes.is_empty();
        if !bytes.is_empty() {
            self.sub.send(&bytes).await?;
        }
        if n > 0 {
            self.stats.ack_rounds += 1;
            self.model.settled_full = false;
        }
        Ok(any)
    }

    // ---- end ------------------------------------------------------------------------

    /// PINGREQ on both connections, answered by the PINGRESP and nothing else (the publisher's
    /// own subscription has delivered everything); tasks running
    pub async fn alive(&mut self) -> R<()> {
        self.sub.send_packet(&M::PingReq).await?;
        loop {
            match self.sub_frame().await? {
                Some(M::PingResp) => break,
                Some(m) => self.on_frame(m).await?,
                None => return self.stalled("pingresp_owed"),
            }
        }
        self.publisher.send_packet(&M::PingReq).await?;
        self.replies(&[], "end").await?;
        while self.echo.accepted[self.echo.delivered..].iter().any(|s| !self.optional.contains(s)) {
            match self.stack.next_or_quiescent(&mut self.publisher).await? {
                Waited::Frame(M::Publish(p)) => self.on_echo(&p)?,
                Waited::Frame(m) => s_fail!(self.sig(format_args!("ack:unexpected:end:{}", m.type_name())), "publisher read {m:?} after the last PINGRESP"),
                Waited::Closed => {
                    self.publisher.check_not_panicked().await?;
                    s_fail!(self.sig("publisher_closed:end"), "publisher stream closed")
                }
                Waited::Quiescent => s_fail!(
                    self.sig("stalled:publisher:echo"),
                    "the system is quiescent, the publisher has received {} of the {} accepted messages on {ECHO_TOPIC}",
                    self.echo.delivered,
                    self.echo.accepted.len()
                ),
            }
        }
        for c in [&mut self.sub, &mut self.publisher] {
            c.check_not_panicked().await?;
        }
        for c in [&self.sub, &self.publisher] {
            s_ensure!(!c.task_finished(), self.sig("connection_not_alive_at_the_end"), "{}: task finished", c.name);
        }
        Ok(())
    }
}
