//! E5 campaigns for C19 (admission), C16 (will decision logic of `remote()`), C20 (cross-version
//! delivery, every notification encodable).
//!
//! All assertions are barrier-synchronised (never time-based). The three barrier arguments:
//!
//! (B1) *join barrier*: once `Conn::join` has returned, the connection task has returned, so
//!      every event it sent to the router channel (`DeviceData`, `Disconnect`, `PublishWill`) was
//!      enqueued before the join completed.
//! (B2) *channel FIFO*: the router consumes its single channel in order, and a publish is
//!      appended to a filter's log while its event is handled. So a publish caused by an event
//!      enqueued before event E is in the log before any publish caused by E.
//! (B3) *log FIFO*: a subscriber receives the entries of ONE filter log in log order. So when an
//!      observer with a single subscription sees the sentinel, it has already seen every earlier
//!      entry of that log. (Order across two subscriptions is not guaranteed and never used.)
//! (B4) *per-connection FIFO*: packets of one connection are handled in the order written and
//!      its replies are queued in that order (C06), so replies owed for packets written before a
//!      PINGREQ precede the PINGRESP.

use super::stack::*;
use crate::codec::model::{self as md, Bin, Props, Txt, Ver, M};
use crate::codec::reference;
use crate::engine::*;
use crate::topic::ref_matches;
use crate::{s_ensure, s_fail};
use proptest::prelude::*;
use rumqttd::verif::VerifWillHandlers;
use serde::{Deserialize, Serialize};
use std::collections::{HashMap, HashSet};
use std::sync::Arc;

// ---------------------------------------------------------------------------------------
// Single switches for the known-finding regions (DESIGN §6). Set to `true` once the fix from
// $W/fixes/ is applied to /repo: the main campaigns then generate inside the region as well.

// (D2, `V4::write` hitting `unreachable!()` for a PUBLISH carrying `Some(properties)`, was fixed
// in /repo by commit 2b6c7c0: no exclusion any more; regress/C20/d2-*.json, regress/C16/d2-*.json
// must pass.)
/// R12: the router ignores a PUBREL that carries properties (`Packet::PubRel(pubrel, None)` only)
pub const R12_FIXED: bool = true;
/// F1: when the CONNACK cannot be written (peer already gone), `remote()` returns without
/// `Event::Disconnect` / `Event::PublishWill`: the router keeps a ghost connection, the will is lost
pub const F1_FIXED: bool = true;
/// F2: a connection that ends inside `RemoteLink::new` (client id refused by the router, F1)
/// leaves its entry in the listener's will bookkeeping; the next CONNECT with that client id
/// panics on `try_send(..).unwrap()` while holding the mutex, which poisons it for every later
/// connection of the listener
pub const F2_FIXED: bool = true;
/// F3: while a connection task is blocked writing to a client that does not read (or whenever a
/// write to the client fails), a DISCONNECT that the client has already sent is never read: the
/// link ends with a write error and the will is published although DISCONNECT came first.
/// Design-level (reads are not served while a write is pending); no fix proposed.
pub const F3_FIXED: bool = true;
/// F4 (an older connection task's PublishWill publishes the next connection's will) was repaired in /repo
pub const F4_FIXED: bool = true;

fn ack(pkid: u16) -> md::Ack {
    md::Ack { pkid, reason: 0, props: Props::default() }
}

fn publish_m(topic: &str, payload: &[u8], qos: u8, pkid: u16) -> M {
    M::Publish(md::Publish {
        dup: false,
        qos,
        retain: false,
        topic: Txt::lit(topic),
        pkid: if qos == 0 { 0 } else { pkid },
        payload: Bin::Lit(payload.to_vec()),
        props: Props::default(),
    })
}

fn is_publish_with(m: &M, topic: &str, payload: &[u8]) -> bool {
    matches!(m, M::Publish(p) if p.topic.get() == topic && p.payload.get() == payload)
}

fn publishes(ms: &[M]) -> Vec<&md::Publish> {
    ms.iter().filter_map(|m| if let M::Publish(p) = m { Some(p) } else { None }).collect()
}

/// Reads up to the sentinel publish and returns what was read before it (the sentinel itself is
/// dropped). Also stops as soon as more than `max_before` other publishes have arrived: the
/// caller's comparison then fails at once, instead of waiting for a sentinel that a defect may
/// have made unrecognisable (e.g. a corrupted payload).
async fn until_sentinel(c: &mut Conn, topic: &str, sentinel: &[u8], max_before: usize) -> R<(Vec<M>, bool)> {
    let mut others = 0;
    let (mut seen, found) = c
        .read_until(|m| {
            if is_publish_with(m, topic, sentinel) {
                return true;
            }
            if matches!(m, M::Publish(_)) {
                others += 1;
            }
            others > max_before
        })
        .await?;
    if found && seen.last().is_some_and(|m| is_publish_with(m, topic, sentinel)) {
        seen.pop();
    }
    Ok((seen, found))
}

fn ver_strategy() -> BoxedStrategy<Ver> {
    prop_oneof![Just(Ver::V4), Just(Ver::V5)].boxed()
}

// =======================================================================================
// C19 — admission
// =======================================================================================

pub const C19_RULE: &str = "E5 admission: per case one listener (v4 or v5; no auth / static map / external callback accept-all, deny-all or checking / both; in 12% of the cases the broker is full: max_connections = the two helper connections) and 1-4 sequential fresh connections through it (a connection repeats its predecessor's first bytes with probability 1/4). Each writes first bytes = CONNECT (one generated defect, in a fifth of the damaged CONNECTs two independent ones: other protocol version's CONNECT, wrong protocol name, level outside {4,5}, keep-alive 0, client id containing + $ # /, empty id without clean session, broker full, login absent / unknown user / wrong password / other scheme's credentials), or another packet type, or garbage, or a CONNECT prefix (never followed by anything), or nothing; then SUBSCRIBE + PUBLISH (pipelined in the same write or after reading the reply). Region F2 (the same router-refused client id presented again) is excluded by construction and probed separately. Oracle: a reference admission function written from the statement; CONNACK(Success) is written iff it admits; for a rejected connection no CONNACK(Success) is ever read up to the broker's close, an independent observer subscribed to '#' sees nothing caused by it before a sentinel published after the connection task was joined, and a later non-clean connection under the same client id is not told that a session exists. Non-trivial: >=1 rejected connection that also sent the follow-up.";

const PROTO_NAMES: [&str; 6] = ["MQTT", "MQIsdp", "MQTX", "mqtt", "", "MQTTT"];
const IDS: [&str; 12] = ["dev1", "dev-2_ok", "", "a+b", "$sys", "x#", "a/b", "+", "#", "/", "ünï-3", "dev1"];
const C19_T: &str = "c19/t";
const C19_WILL: &str = "c19/will";

#[derive(Clone, Debug, Serialize, Deserialize)]
pub struct ConnectSpec {
    /// wire format (protocol version) the CONNECT is encoded in
    pub enc: Ver,
    /// index into PROTO_NAMES (0 = "MQTT")
    pub name: u8,
    /// replaces the protocol level byte; never 4 or 5
    pub level: Option<u8>,
    pub keep_alive: u16,
    /// index into IDS
    pub id: u8,
    pub clean: bool,
    /// 0 right for the listener's configuration, 1 absent, 2 unknown user, 3 wrong password,
    /// 4 the other scheme's right credentials, 5 another user's password, 6 empty password,
    /// 7 unknown user with empty password
    pub login: u8,
    pub will: bool,
    /// write the CONNECT in two chunks, yielding in between (Some(fraction/256))
    pub split: Option<u8>,
}

#[derive(Clone, Debug, Serialize, Deserialize)]
pub enum First {
    Connect(ConnectSpec),
    /// a complete, well-formed packet of another type (index into the list in `other_packet`)
    Other(u8),
    /// arbitrary bytes whose first byte does not announce a CONNECT
    Garbage(Vec<u8>),
    Silence,
    /// a proper prefix of a CONNECT that would be admitted (fraction/256 of its length)
    Partial(ConnectSpec, u8),
}

#[derive(Clone, Debug, Serialize, Deserialize)]
pub struct Attempt {
    pub first: First,
    /// follow-up written in the same write as the first bytes
    pub pipelined: bool,
    pub follow_qos: u8,
    /// connection_timeout_ms of the listener for first bytes that never complete a packet
    pub timeout_ms: u16,
    /// an admitted connection ends with DISCONNECT (else: stream dropped)
    pub polite_end: bool,
}

#[derive(Clone, Debug, Serialize, Deserialize)]
pub struct C19Case {
    pub seed: u64,
    pub listener: Ver,
    pub static_auth: bool,
    /// 0 none, 1 callback accepts everything, 2 denies everything, 3 accepts ("ext","extpw") only
    pub external: u8,
    pub attempts: Vec<Attempt>,
    /// the router's max_connections equals the number of helper connections (observer +
    /// controller): the broker is full, nobody else can become a session
    #[serde(default)]
    pub at_limit: bool,
}

fn resolve_login(choice: u8, static_auth: bool, external: u8) -> Option<(&'static str, &'static str)> {
    let ext_check = external == 3;
    match choice {
        1 => None,
        2 => Some(("nouser", "pass1")),
        3 => Some(if ext_check { ("ext", "nope") } else { ("user1", "nope") }),
        4 => Some(if ext_check { ("user1", "pass1") } else { ("ext", "extpw") }),
        5 => Some(("user2", "pass1")),
        6 => Some((if ext_check { "ext" } else { "user1" }, "")),
        // an unknown user with an empty password (an empty user NAME is not generated: the
        // broker's CONNECT decoder reads it as "no login", which the statement does not settle)
        7 => Some(("nouser", "")),
        _ => Some(if ext_check {
            ("ext", "extpw")
        } else if static_auth {
            ("user1", "pass1")
        } else {
            ("any", "thing")
        }),
    }
}

fn static_map() -> HashMap<String, String> {
    [("user1", "pass1"), ("user2", "pass2")].iter().map(|(u, p)| (u.to_string(), p.to_string())).collect()
}

/// Reference: does the listener's configuration accept these credentials? Written from the
/// statement plus the contract documented by rumqttd's own `handle_auth` tests: when a callback
/// is configured it decides alone; otherwise the static map must contain exactly this pair.
fn ref_auth_accepts(static_auth: bool, external: u8, login: Option<(&str, &str)>) -> bool {
    if !static_auth && external == 0 {
        return true;
    }
    let Some((user, pass)) = login else { return false };
    match external {
        1 => true,
        2 => false,
        3 => user == "ext" && pass == "extpw",
        _ => matches!((user, pass), ("user1", "pass1") | ("user2", "pass2")),
    }
}

/// Reference admission rule, straight from the first sentence of C19: every condition of the
/// statement that the first bytes fail (empty = the connection becomes a session).
fn ref_reasons(case: &C19Case, first: &First) -> Vec<&'static str> {
    let First::Connect(c) = first else {
        return vec![match first {
            First::Other(_) => "other_packet",
            First::Garbage(_) => "garbage",
            First::Silence => "silence",
            _ => "partial_connect",
        }];
    };
    let mut r = Vec::new();
    if c.enc != case.listener {
        r.push("other_protocol_version");
    }
    if c.name != 0 {
        r.push("protocol_name");
    }
    if c.level.is_some() {
        r.push("protocol_level");
    }
    if c.keep_alive == 0 {
        r.push("zero_keep_alive");
    }
    let id = IDS[c.id as usize % IDS.len()];
    if id.chars().any(|ch| "+$#/".contains(ch)) {
        r.push("client_id_metacharacter");
    }
    if id.is_empty() && !c.clean {
        r.push("empty_client_id_without_clean_session");
    }
    if !ref_auth_accepts(case.static_auth, case.external, resolve_login(c.login, case.static_auth, case.external)) {
        r.push("credentials");
    }
    // second sentence of the statement: the number of live connections never exceeds the maximum
    if case.at_limit {
        r.push("connection_limit");
    }
    r
}

/// conditions that the router checks (after `mqtt_connect` let the CONNECT through)
fn router_side(reason: &str) -> bool {
    reason == "client_id_metacharacter" || reason == "connection_limit"
}

fn ref_admits(case: &C19Case, first: &First) -> Result<(), &'static str> {
    match ref_reasons(case, first).first() {
        None => Ok(()),
        Some(r) => Err(r),
    }
}

/// Region F2 (a predicate on cases): a CONNECT that passes `mqtt_connect` and is refused by the
/// router inside `RemoteLink::new` (client id with a metacharacter, or the broker is full); a
/// later CONNECT of the same kind with the SAME non-empty client id through the same listener is
/// in the region (an empty id is replaced by a fresh random one per connection). Returns the
/// indices of the attempts inside the region.
fn c19_f2_region(case: &C19Case) -> Vec<usize> {
    let mut refused: HashSet<&str> = HashSet::new();
    let mut inside = Vec::new();
    for (k, a) in case.attempts.iter().enumerate() {
        if let First::Connect(c) = &a.first {
            let reasons = ref_reasons(case, &a.first);
            let id = IDS[c.id as usize % IDS.len()];
            if !reasons.is_empty() && reasons.iter().all(|r| router_side(r)) && !id.is_empty() && !refused.insert(id) {
                inside.push(k);
            }
        }
    }
    inside
}

/// Moves a case out of region F2 by construction: a repeated refused client id is replaced by
/// an id of the same kind that was not presented before (7 ids with metacharacters, 3 plain
/// ids and the empty id with clean session; at most 4 attempts)
fn c19_avoid_f2(case: &mut C19Case) -> u64 {
    let mut moved = 0;
    loop {
        let inside = c19_f2_region(case);
        let Some(&k) = inside.first() else { return moved };
        let used: HashSet<&str> = case.attempts[..k]
            .iter()
            .filter_map(|a| if let First::Connect(c) = &a.first { Some(IDS[c.id as usize % IDS.len()]) } else { None })
            .collect();
        if let First::Connect(c) = &mut case.attempts[k].first {
            let meta = IDS[c.id as usize % IDS.len()].chars().any(|ch| "+$#/".contains(ch));
            let pool: &[u8] = if meta { &[3, 4, 5, 6, 7, 8, 9] } else { &[0, 1, 10] };
            match pool.iter().find(|i| !used.contains(IDS[**i as usize])) {
                Some(i) => c.id = *i,
                None => {
                    c.id = 2; // empty id: the broker assigns a fresh one
                    c.clean = true;
                }
            }
        }
        moved += 1;
    }
}

fn connect_bytes(case: &C19Case, c: &ConnectSpec, k: usize) -> Vec<u8> {
    let id = IDS[c.id as usize % IDS.len()];
    let m = M::Connect(md::Connect {
        keep_alive: c.keep_alive,
        client_id: Txt::lit(id),
        clean: c.clean,
        will: c.will.then(|| md::Will {
            topic: Txt::lit(C19_WILL),
            message: Bin::Lit(format!("will-{k}").into_bytes()),
            qos: 0,
            retain: false,
            props: Props::default(),
        }),
        login: resolve_login(c.login, case.static_auth, case.external)
            .map(|(u, p)| md::Login { username: Txt::lit(u), password: Txt::lit(p) }),
        props: Props::default(),
    });
    let (byte1, body) = reference::encode_body(c.enc, &m);
    // body = 00 04 'M' 'Q' 'T' 'T' <level> <rest>: substitute name and level
    let name = PROTO_NAMES[c.name as usize % PROTO_NAMES.len()].as_bytes();
    let mut b = Vec::with_capacity(body.len() + 4);
    b.extend_from_slice(&(name.len() as u16).to_be_bytes());
    b.extend_from_slice(name);
    b.push(c.level.unwrap_or(body[6]));
    b.extend_from_slice(&body[7..]);
    let mut out = vec![byte1];
    reference::put_varint(&mut out, b.len());
    out.extend_from_slice(&b);
    out
}

/// A complete well-formed non-CONNECT packet in the listener's wire format
fn other_packet(ver: Ver, which: u8, k: usize) -> M {
    match which % 10 {
        0 => publish_m(C19_T, format!("first-{k}").as_bytes(), 0, 0),
        1 => publish_m(C19_T, format!("first-{k}").as_bytes(), 1, 7),
        2 => M::Subscribe(md::Subscribe {
            pkid: 3,
            filters: vec![md::Filter { path: Txt::lit("#"), qos: 0, nolocal: false, preserve_retain: false, retain_rule: 0 }],
            props: Props::default(),
        }),
        3 => M::PingReq,
        4 => M::Disconnect(md::Disconnect { reason: 0, props: Props::default() }),
        5 => M::PubAck(ack(1)),
        6 => M::PubRel(ack(1)),
        7 => M::Unsubscribe(md::Unsubscribe { pkid: 4, filters: vec![Txt::lit("#")], props: Props::default() }),
        8 => M::ConnAck(md::ConnAck { session_present: false, code: 0, props: Props::default() }),
        _ => {
            let _ = ver;
            M::SubAck(md::SubAck { pkid: 1, codes: vec![0], props: Props::default() })
        }
    }
}

fn followup_bytes(ver: Ver, k: usize, qos: u8) -> Vec<u8> {
    let mut out = reference::encode(
        ver,
        &M::Subscribe(md::Subscribe {
            pkid: 1,
            filters: vec![md::Filter { path: Txt::lit("c19/s"), qos: 0, nolocal: false, preserve_retain: false, retain_rule: 0 }],
            props: Props::default(),
        }),
    );
    out.extend(reference::encode(ver, &publish_m(C19_T, format!("follow-{k}").as_bytes(), qos, 2)));
    out
}

fn c19_settings(case: &C19Case, timeout_ms: u16) -> rumqttd::ConnectionSettings {
    let mut s = plain_settings(timeout_ms);
    if case.static_auth {
        s.auth = Some(static_map());
    }
    match case.external {
        1 => s.set_auth_handler(|_id: String, _u: String, _p: String| async { true }),
        2 => s.set_auth_handler(|_id: String, _u: String, _p: String| async { false }),
        3 => s.set_auth_handler(|_id: String, u: String, p: String| async move { u == "ext" && p == "extpw" }),
        _ => {}
    }
    s
}

pub struct C19Admission {
    /// probe campaign for known finding F2 (cases inside the region)
    pub probe_f2: bool,
}

pub const F2_SIGNATURE: &str = "panic:connection_task:rumqttd/src/server/broker.rs:called";

fn connect_spec(listener_known: bool) -> BoxedStrategy<ConnectSpec> {
    let _ = listener_known;
    // a spec that is valid for any listener once `enc` is set to the listener's version (the
    // case generator does that), damaged by one defect, in a fifth of the cases by two
    // independent ones (the reference admission function lists every reason)
    fn damage(c: &mut ConnectSpec, defect: u8, detail: u16) {
        match defect {
            // 0..=3: no defect (about a third of the CONNECTs are admissible)
            4 => c.enc = Ver::V5, // marker: "other version" (resolved by the case generator)
            5 => c.name = 1 + idx(detail, PROTO_NAMES.len() - 1) as u8,
            6 => c.level = Some([3u8, 6, 0, 255, 131][idx(detail, 5)]),
            7 => c.keep_alive = 0,
            8 => c.id = 3 + idx(detail, 7) as u8, // ids with + $ # /
            9 => {
                c.id = 2; // empty
                c.clean = detail & 1 == 0; // empty + clean is admissible
            }
            10 | 11 => c.login = 1 + idx(detail, 7) as u8,
            _ => {}
        }
    }
    (
        0u8..=11,                                                               // defect
        any::<u16>(),                                                           // keep-alive source
        any::<u16>(),                                                           // id source
        any::<bool>(),                                                          // clean
        any::<bool>(),                                                          // will
        prop_oneof![4 => Just(None), 1 => any::<u8>().prop_map(Some)],          // split
        any::<u16>(),                                                           // defect detail
        prop_oneof![4 => Just(None), 1 => (4u8..=11, any::<u16>()).prop_map(Some)], // second defect
    )
        .prop_map(|(defect, ka, ids, clean, will, split, detail, second)| {
            let valid_ids = [0usize, 1, 10, 11];
            let mut c = ConnectSpec {
                enc: Ver::V4, // patched by the case generator
                name: 0,
                level: None,
                keep_alive: [1u16, 5, 60, 600, 65535][idx(ka, 5)],
                id: valid_ids[idx(ids, valid_ids.len())] as u8,
                clean,
                login: 0,
                will,
                split,
            };
            damage(&mut c, defect, detail);
            if let Some((d2, detail2)) = second {
                if defect >= 4 && d2 != defect {
                    damage(&mut c, d2, detail2);
                }
            }
            c
        })
        .boxed()
}

fn attempt_strategy() -> BoxedStrategy<Attempt> {
    let first = prop_oneof![
        14 => connect_spec(true).prop_map(First::Connect),
        2 => (0u8..10).prop_map(First::Other),
        2 => prop::collection::vec(any::<u8>(), 1..40).prop_map(First::Garbage),
        1 => Just(First::Silence),
        2 => (connect_spec(true), any::<u8>()).prop_map(|(mut c, f)| {
            // the prefix of an otherwise admissible CONNECT
            c.name = 0;
            c.level = None;
            c.keep_alive = c.keep_alive.max(1);
            c.id = 0;
            c.login = 0;
            c.split = None;
            First::Partial(c, f)
        }),
    ];
    (first, any::<bool>(), 0u8..=1, 50u16..=200, any::<bool>())
        .prop_map(|(first, pipelined, follow_qos, timeout_ms, polite_end)| Attempt { first, pipelined, follow_qos, timeout_ms, polite_end })
        .boxed()
}

/// 1-4 attempts; an attempt repeats the first bytes of its predecessor with probability 1/4
/// (the same client id is presented again through the same listener)
fn attempts_strategy() -> BoxedStrategy<Vec<Attempt>> {
    prop::collection::vec((attempt_strategy(), prop::bool::weighted(0.25)), 1..=4)
        .prop_map(|v| {
            let mut out: Vec<Attempt> = Vec::with_capacity(v.len());
            for (mut a, repeat) in v {
                if repeat {
                    if let Some(prev) = out.last() {
                        a.first = prev.first.clone();
                    }
                }
                out.push(a);
            }
            out
        })
        .boxed()
}

impl Campaign for C19Admission {
    type Case = C19Case;
    fn name(&self) -> &'static str {
        if self.probe_f2 {
            "e5_probe_f2_refused_client_id_again"
        } else {
            "e5_admission"
        }
    }
    fn cases(&self, tier: Tier) -> u64 {
        if self.probe_f2 {
            tier.pick(40, 200)
        } else {
            tier.pick(1200, 20_000)
        }
    }
    fn probes_known(&self) -> Vec<&'static str> {
        if self.probe_f2 {
            vec![F2_SIGNATURE]
        } else {
            vec![]
        }
    }
    fn strategy(&self, _tier: Tier) -> BoxedStrategy<C19Case> {
        let probe_f2 = self.probe_f2;
        let auth = prop_oneof![
            6 => Just((false, 0u8)),
            5 => Just((true, 0u8)),
            3 => Just((false, 3u8)),
            2 => Just((false, 1u8)),
            1 => Just((false, 2u8)),
            2 => Just((true, 3u8)),
            1 => Just((true, 1u8)),
        ];
        (any::<u64>(), ver_strategy(), auth, attempts_strategy(), prop::bool::weighted(0.12))
            .prop_map(|(seed, listener, (static_auth, external), mut attempts, at_limit)| {
                let other = if listener == Ver::V4 { Ver::V5 } else { Ver::V4 };
                for a in attempts.iter_mut() {
                    match &mut a.first {
                        First::Connect(c) => {
                            // V5 in the raw spec marks "the other version"
                            c.enc = if c.enc == Ver::V5 { other } else { listener };
                        }
                        First::Partial(c, _) => c.enc = listener,
                        First::Garbage(b) => {
                            // never announce a CONNECT (type nibble 1)
                            if b[0] >> 4 == 1 {
                                b[0] = (b[0] & 0x0f) | 0x30;
                            }
                        }
                        _ => {}
                    }
                }
                C19Case { seed, listener, static_auth, external, attempts, at_limit }
            })
            .prop_map(move |mut c| {
                if probe_f2 {
                    // the first two attempts present the same refused client id; a third,
                    // unrelated connection meets the poisoned bookkeeping
                    if c.external == 2 {
                        c.external = 0;
                    }
                    // half of the probes reach the region through a full broker and a plain id
                    c.at_limit = c.seed & 32 == 0;
                    let spec = ConnectSpec {
                        enc: c.listener,
                        name: 0,
                        level: None,
                        keep_alive: 60,
                        id: if c.at_limit { [0u8, 1, 10][(c.seed % 3) as usize] } else { 3 + (c.seed % 7) as u8 },
                        clean: c.seed & 8 == 0,
                        login: 0,
                        will: c.seed & 16 == 0,
                        split: None,
                    };
                    let mk = |first: First| Attempt { first, pipelined: false, follow_qos: 0, timeout_ms: 100, polite_end: true };
                    let mut attempts = vec![mk(First::Connect(spec.clone())), mk(First::Connect(spec.clone()))];
                    if let Some(a) = c.attempts.pop() {
                        attempts.push(a);
                    }
                    c.attempts = attempts;
                }
                c
            })
            .boxed()
    }

    fn check(&self, case: &C19Case, obs: &mut Obs) -> Result<(), Failure> {
        let mut case = case.clone();
        if !self.probe_f2 && !F2_FIXED {
            // known-finding region F2, excluded by construction
            let moved = c19_avoid_f2(&mut case);
            obs.count("excluded_f2_repeated_refused_client_id_replaced", moved);
        }
        let case = &case;
        let mut shape = Vec::new();
        let mut config = router_config();
        if case.at_limit {
            config.max_connections = 2; // observer + controller
        }
        let r = run_case_with(case.seed, config, |stack| c19_body(stack, case, &mut shape));
        let mut admitted = 0;
        for s in &shape {
            if *s == "admitted" {
                admitted += 1;
            } else {
                obs.class(s);
            }
        }
        obs.class_if(admitted > 0, "admitted");
        obs.class_if(case.static_auth, "static_auth");
        obs.class_if(case.external != 0, "external_auth");
        obs.class_if(case.listener == Ver::V5, "listener_v5");
        obs.class_if(case.at_limit, "broker_full");
        obs.count("attempts", shape.len() as u64);
        // non-trivial: a rejected connection that also wrote the follow-up (a CONNECT prefix is
        // never followed by anything)
        let rejected_with_followup = shape.iter().filter(|s| **s != "admitted" && **s != "partial_connect").count();
        if rejected_with_followup > 0 && r.is_ok() {
            let mut key: Vec<&str> = shape.iter().filter(|s| **s != "admitted").copied().collect();
            key.sort();
            key.dedup();
            obs.nontrivial(key.join("+"));
        }
        conclude(r, obs, || format!("admission case {}", serde_json::to_string(case).unwrap_or_default()))
    }
}

async fn c19_body(stack: Stack, case: &C19Case, shape: &mut Vec<&'static str>) -> R<()> {
    let plain = Listener::plain(Ver::V4);
    // independent observer: one subscription ('#'), so (B3) applies to everything it receives
    let mut observer = stack.connect("observer", &plain, "c19-observer").await?;
    observer.subscribe_wait(1, "#", 0, None).await?;
    let mut controller = stack.connect("controller", &plain, "c19-controller").await?;
    // all attempts go through ONE listener: same configuration, same will bookkeeping
    let wills = VerifWillHandlers::new();
    // wills of admitted connections that were dropped without DISCONNECT legitimately fire (C16)
    let mut tolerated_wills: HashSet<Vec<u8>> = HashSet::new();
    // client ids that legitimately own a session or were used by an admitted connection
    let mut used_ids: HashSet<&str> = HashSet::new();

    for (k, at) in case.attempts.iter().enumerate() {
        let verdict = ref_admits(case, &at.first);
        let completes = matches!(at.first, First::Connect(_) | First::Other(_));
        // a real timeout matters only for first bytes that never complete a packet; complete
        // packets get a long one so that a descheduled test thread cannot turn into a rejection
        let timeout = if completes { 30_000 } else { at.timeout_ms };
        let listener = Listener { ver: case.listener, settings: Arc::new(c19_settings(case, timeout)), wills: wills.clone() };
        let mut x = stack.open("subject", &listener);
        let first: Vec<u8> = match &at.first {
            First::Connect(c) => connect_bytes(case, c, k),
            First::Other(w) => reference::encode(case.listener, &other_packet(case.listener, *w, k)),
            First::Garbage(b) => b.clone(),
            First::Silence => Vec::new(),
            First::Partial(c, f) => {
                let full = connect_bytes(case, c, k);
                let cut = 1 + (*f as usize * (full.len() - 1)) / 256; // 1..len-1
                full[..cut.min(full.len() - 1)].to_vec()
            }
        };
        // a CONNECT prefix stays a prefix: bytes written after it would become part of the
        // CONNECT frame (and could complete it to a well-formed one), so nothing follows
        let follow = match at.first {
            First::Partial(..) => Vec::new(),
            _ => followup_bytes(case.listener, k, at.follow_qos),
        };
        let split = match &at.first {
            First::Connect(c) => c.split.map(|f| 1 + (f as usize * (first.len() - 1)) / 256),
            _ => None,
        };
        match split {
            Some(cut) if cut < first.len() => {
                x.send(&first[..cut]).await?;
                tokio::task::yield_now().await; // let the task see an incomplete packet
                x.send(&first[cut..]).await?;
                if at.pipelined {
                    x.send(&follow).await?;
                }
            }
            _ => {
                let mut bytes = first.clone();
                if at.pipelined {
                    bytes.extend_from_slice(&follow);
                }
                x.send(&bytes).await?;
            }
        }
        let sentinel = format!("sentinel-{k}").into_bytes();
        let follow_payload = format!("follow-{k}").into_bytes();

        match verdict {
            Ok(()) => {
                shape.push("admitted");
                match x.next().await? {
                    Some(M::ConnAck(a)) if a.code == 0 => {}
                    other => {
                        x.check_not_panicked().await?;
                        s_fail!("admissible_connect_not_admitted", "attempt {k}: expected CONNACK(Success), got {other:?}")
                    }
                }
                if !at.pipelined {
                    x.send(&follow).await?;
                }
                // (B4): the router handled the follow-up PUBLISH before the PINGREQ
                let (_acks, pong) = x.ping_barrier().await?;
                if !pong {
                    x.check_not_panicked().await?;
                    s_fail!("admitted_connection_closed_by_broker", "attempt {k}: stream closed before PINGRESP")
                }
                // the sentinel is written after the PINGRESP was read, hence enqueued after the
                // follow-up was handled (B2); observer has a single log (B3)
                controller.publish(C19_T, &sentinel, 0, 0).await?;
                let (seen, found) = until_sentinel(&mut observer, C19_T, &sentinel, 1 + tolerated_wills.len()).await?;
                s_ensure!(found, "observer_connection_closed", "attempt {k}: observer stream closed; saw {seen:?}");
                let mut follow_seen = 0;
                for p in publishes(&seen) {
                    if p.topic.get() == C19_T && p.payload.get() == follow_payload {
                        follow_seen += 1;
                    } else if p.topic.get() == C19_WILL && tolerated_wills.contains(&p.payload.get()) {
                    } else {
                        s_fail!("observer_saw_unexplained_message", "attempt {k} (admitted): {p:?}")
                    }
                }
                s_ensure!(
                    follow_seen == 1,
                    "admitted_followup_not_delivered_once",
                    "attempt {k}: follow-up publish seen {follow_seen} times by the observer"
                );
                if let First::Connect(c) = &at.first {
                    used_ids.insert(IDS[c.id as usize % IDS.len()]);
                    if c.will && !at.polite_end {
                        tolerated_wills.insert(format!("will-{k}").into_bytes());
                    }
                }
                if at.polite_end {
                    x.send_packet(&M::Disconnect(md::Disconnect { reason: 0, props: Props::default() })).await?;
                }
                x.close();
                x.join_no_panic().await?;
            }
            Err(reason) => {
                shape.push(reason);
                if !at.pipelined {
                    let _ = x.send(&follow).await?;
                }
                // everything the broker writes until it closes the stream
                loop {
                    match x.next().await? {
                        None => break,
                        Some(M::ConnAck(a)) if a.code == 0 => {
                            s_fail!(format!("successful_connack_for_inadmissible_first_packet:{reason}"), "attempt {k}: {:?} answered CONNACK(Success)", at.first)
                        }
                        Some(_) => {}
                    }
                }
                x.close();
                x.join_no_panic().await?;
                // (B1) the task has returned; (B2)+(B3) anything it caused precedes the sentinel
                controller.publish(C19_T, &sentinel, 0, 0).await?;
                let (seen, found) = until_sentinel(&mut observer, C19_T, &sentinel, tolerated_wills.len()).await?;
                s_ensure!(found, "observer_connection_closed", "attempt {k}: observer stream closed; saw {seen:?}");
                for p in publishes(&seen) {
                    if p.topic.get() == C19_WILL && tolerated_wills.contains(&p.payload.get()) {
                        continue;
                    }
                    s_fail!(format!("rejected_connection_had_effect:{reason}"), "attempt {k}: {:?} rejected, but the observer received {p:?}", at.first)
                }
                // a rejected CONNECT must not have created a session under its client id
                if let First::Connect(c) = &at.first {
                    let id = IDS[c.id as usize % IDS.len()];
                    let usable = !id.is_empty() && !id.chars().any(|ch| "+$#/".contains(ch));
                    if usable && !c.clean && !used_ids.contains(id) && !case.at_limit {
                        let mut probe = stack.open("probe", &plain);
                        probe
                            .send_packet(&M::Connect(md::Connect {
                                keep_alive: 600,
                                client_id: Txt::lit(id),
                                clean: false,
                                will: None,
                                login: None,
                                props: Props::default(),
                            }))
                            .await?;
                        match probe.next().await? {
                            Some(M::ConnAck(a)) if a.code == 0 => {
                                s_ensure!(
                                    !a.session_present,
                                    format!("rejected_connection_left_a_session:{reason}"),
                                    "attempt {k}: probe under client id {id:?} was told a session exists"
                                );
                            }
                            other => s_fail!("helper_connection_not_admitted", "probe got {other:?}"),
                        }
                        used_ids.insert(id); // the probe itself now owns a session
                        probe.send_packet(&M::Disconnect(md::Disconnect { reason: 0, props: Props::default() })).await?;
                        probe.close();
                        probe.join_no_panic().await?;
                    }
                }
            }
        }
    }
    Ok(())
}

pub fn c19_campaigns() -> Vec<Box<dyn DynCampaign>> {
    vec![Box::new(C19Admission { probe_f2: false }), Box::new(C19Takeover), Box::new(C19Admission { probe_f2: true })]
}

// =======================================================================================
// C19 (second sentence, end to end): takeover — the newer connection replaces the older
// =======================================================================================

#[derive(Clone, Debug, Serialize, Deserialize)]
pub struct TakeoverCase {
    pub seed: u64,
    pub old_ver: Ver,
    pub new_ver: Ver,
    pub old_clean: bool,
    pub new_clean: bool,
    pub sub_qos: u8,
    pub messages: u8,
}

pub struct C19Takeover;

impl Campaign for C19Takeover {
    type Case = TakeoverCase;
    fn name(&self) -> &'static str {
        "e5_takeover"
    }
    fn cases(&self, tier: Tier) -> u64 {
        tier.pick(600, 8000)
    }
    fn strategy(&self, _tier: Tier) -> BoxedStrategy<TakeoverCase> {
        (any::<u64>(), ver_strategy(), ver_strategy(), any::<bool>(), any::<bool>(), 0u8..=2, 1u8..=3)
            .prop_map(|(seed, old_ver, new_ver, old_clean, new_clean, sub_qos, messages)| TakeoverCase {
                seed,
                old_ver,
                new_ver,
                old_clean,
                new_clean,
                sub_qos,
                messages,
            })
            .boxed()
    }
    fn check(&self, case: &TakeoverCase, obs: &mut Obs) -> Result<(), Failure> {
        let r = run_case(case.seed, |stack| takeover_body(stack, case));
        obs.class_if(case.old_ver != case.new_ver, "cross_listener");
        if r.is_ok() {
            obs.nontrivial(format!("{}->{} clean={}/{}", case.old_ver.name(), case.new_ver.name(), case.old_clean, case.new_clean));
        }
        conclude(r, obs, || "takeover".to_string())
    }
}

async fn takeover_body(stack: Stack, case: &TakeoverCase) -> R<()> {
    const T: &str = "tk/t";
    let connect = |clean: bool| {
        M::Connect(md::Connect {
            keep_alive: 600,
            client_id: Txt::lit("tk-client"),
            clean,
            will: None,
            login: None,
            props: Props::default(),
        })
    };
    let mut controller = stack.connect("controller", &Listener::plain(Ver::V4), "tk-controller").await?;
    let mut old = stack.open("old", &Listener::plain(case.old_ver));
    old.send_packet(&connect(case.old_clean)).await?;
    s_ensure!(matches!(old.next().await?, Some(M::ConnAck(a)) if a.code == 0), "helper_connection_not_admitted", "old connection");
    old.subscribe_wait(1, T, case.sub_qos, None).await?;

    let mut new = stack.open("new", &Listener::plain(case.new_ver));
    new.send_packet(&connect(case.new_clean)).await?;
    match new.next().await? {
        Some(M::ConnAck(a)) if a.code == 0 => {}
        other => s_fail!("takeover_connect_not_admitted", "second CONNECT under the same client id answered {other:?}"),
    }
    // The router handled the second CONNECT (its CONNACK was read), and handling it removes the
    // older connection first. A PINGREQ written by the older client now is either not answered
    // (its connection is gone from the router; the stream ends when its task notices) or, if the
    // older connection is still being served, answered by a PINGRESP. Both outcomes are prompt
    // and causal; nothing is timed.
    let _ = old.send_packet(&M::PingReq).await?;
    let (rest, pong) = old.read_until(|m| matches!(m, M::PingResp)).await?;
    s_ensure!(
        !pong,
        "older_connection_still_served_after_takeover",
        "the older connection got a PINGRESP after the newer one's CONNACK; it read {rest:?}"
    );
    s_ensure!(
        publishes(&rest).is_empty(),
        "older_connection_received_message_after_takeover",
        "older connection read {rest:?}"
    );
    old.join_no_panic().await?;

    // only the newer connection receives messages now
    new.subscribe_wait(2, T, case.sub_qos, None).await?;
    let n = case.messages as usize;
    for i in 0..n {
        controller.publish(T, format!("m{i}").as_bytes(), 0, 0).await?;
    }
    controller.publish(T, b"sentinel", 0, 0).await?;
    // single publisher connection, single log (B2, B3)
    let (seen, found) = until_sentinel(&mut new, T, b"sentinel", n).await?;
    if !found {
        new.check_not_panicked().await?;
        s_fail!("newer_connection_closed", "newer connection closed after takeover; saw {seen:?}")
    }
    let got: Vec<Vec<u8>> = publishes(&seen).iter().map(|p| p.payload.get()).collect();
    let want: Vec<Vec<u8>> = (0..n).map(|i| format!("m{i}").into_bytes()).collect();
    s_ensure!(got == want, "newer_connection_delivery_after_takeover", "newer connection received {got:?}, expected {want:?}");
    Ok(())
}

// =======================================================================================
// C16 — the will decision logic of remote()
// =======================================================================================

pub const C16_E5_RULE: &str = "E5: a real connection task (v4 or v5 listener) whose CONNECT registers a will (topic w/a or w/b, 1-8 byte payload, QoS 0-2, optionally retained; v5 optionally with a will-delay property and no session expiry, i.e. effective delay 0, and further will properties) or no will; 0-3 packets are exchanged; the connection then ends by DISCONNECT (then close, or wait for the broker's close), by dropping the stream (after CONNACK, after a PUBLISH that was not yet acknowledged, in the middle of a packet), by a malformed packet, by a router-initiated close (unsolicited PUBACK / PUBREC / PUBCOMP / PUBREL, v5 PUBLISH with topic alias 0, SUBSCRIBE to a $-filter) or (thorough tier) by keep-alive expiry. An observer (v4 or v5) holds ONE subscription (w/a, w/b, w/+ or w/#). After the connection task was joined a controller publishes a sentinel on a topic of that filter; the observer must have received, before the sentinel, exactly one copy of the will (topic, payload) iff a will was registered, no DISCONNECT was sent and the topic matches the filter, and nothing otherwise. A late subscriber (of the other protocol version than the observer) then receives the retained copy iff the will fired with retain set. Regions F1 (stream dropped before the CONNACK could be written), F3 (DISCONNECT sent while a write towards the client is pending or failing: the subject never subscribes, so nothing is owed to it when it disconnects) and F4 (an earlier connection of the same client id that ended with DISCONNECT is still waiting out a will delay when the subject connects with a clean start) are excluded by construction and probed separately. In a fifth of the cases with a client-side end the router is backed up at that moment (it takes no turns and its event channel is filled up to one free slot with work-less wake-ups, released by a helper thread once the channel has been full for 10 ms): what remote() hands to the router has to wait for capacity and must not be dropped. In a fifth of the client-side ends the subject holds a QoS 1 subscription of its own and a message for it is published right before the end without waiting, so that a forward towards the subject is being written when its DISCONNECT / close arrives. Takeovers are not generated. Non-trivial: will registered, matching observer, end other than DISCONNECT.";

const WILL_TOPICS: [&str; 2] = ["w/a", "w/b"];
/// (filter, topic on which the controller publishes sentinels)
const OBS_FILTERS: [(&str, &str); 4] = [("w/a", "w/a"), ("w/#", "w/a"), ("w/+", "w/b"), ("w/b", "w/b")];

#[derive(Clone, Debug, Serialize, Deserialize)]
pub struct WillSpec {
    pub topic: u8,
    pub payload: Vec<u8>,
    pub qos: u8,
    pub retain: bool,
    /// v5 only: will-delay-interval property (no session expiry is sent, so the effective delay
    /// is 0: the session ends with the connection)
    pub delay: Option<u32>,
    /// v5 only: content type + one user property on the will
    pub more_props: bool,
}

#[derive(Clone, Debug, PartialEq, Serialize, Deserialize)]
pub enum End {
    /// DISCONNECT, then (false) drop the stream at once / (true) wait for the broker to close
    Disconnect { wait: bool },
    /// v5: DISCONNECT (reason 0) carrying properties (0 reason string, 1 user property,
    /// 2 session expiry 0), then drop the stream; v4 subjects send the plain DISCONNECT
    DisconnectProps { kind: u8 },
    /// drop the stream
    Close,
    /// write a PUBLISH (QoS 0/1) and drop the stream without reading
    CloseAfterPublish { qos: u8 },
    /// write the first `fraction/256` of a PUBLISH frame and drop the stream
    CloseMidPacket { fraction: u8 },
    /// 0 reserved type 0, 1 reserved type 15 (v4) / AUTH-typed garbage, 2 length over the limit,
    /// 3 PUBLISH with QoS 3, 4 malformed remaining length
    Malformed { kind: u8 },
    /// 0 PUBACK, 1 PUBREC, 2 PUBCOMP, 3 PUBREL for ids the broker never used, 4 (v5) PUBLISH
    /// with topic alias 0, 5 SUBSCRIBE to "$SYS/x"
    RouterClose { kind: u8 },
    /// keep-alive 1 s, then silence: the broker closes after 1.5 s (real time)
    KeepAlive,
    /// write the CONNECT and drop the stream before the CONNACK could be written
    CloseBeforeConnack,
    /// the subject subscribed to own/t and does not read; a 100 KiB message for it blocks the
    /// connection task in its write (64 KiB stream); the subject then sends DISCONNECT and
    /// drops the stream
    DisconnectWhileWriteBlocked,
}

#[derive(Clone, Debug, Serialize, Deserialize)]
pub struct C16Case {
    pub seed: u64,
    pub ver: Ver,
    pub obs_ver: Ver,
    pub obs_filter: u8,
    pub obs_qos: u8,
    pub will: Option<WillSpec>,
    /// packets exchanged before the end: 0 PINGREQ, 1 PUBLISH QoS 0, 2 PUBLISH QoS 1 (acknowledged)
    pub pre: Vec<u8>,
    pub end: End,
    pub late_subscriber: bool,
    /// the router is busy elsewhere and its event channel is (all but) full when the subject's
    /// connection ends (client-side ends only): what `remote()` hands over has to wait
    #[serde(default)]
    pub backed_up: bool,
    /// an earlier connection of the same client id through the same listener (v5, a will with a
    /// delay of one hour, session expiry one hour) that ended with DISCONNECT: its will is void,
    /// but its connection task is still waiting out the delay when the subject connects
    #[serde(default)]
    pub predecessor: bool,
    /// the subject holds a QoS 1 subscription of its own and a message for it is published
    /// right before the end (not awaited): a forward towards the subject is being written, or
    /// about to be, when its DISCONNECT / close arrives (F3 as it was first seen, repaired)
    #[serde(default)]
    pub late_forward: bool,
}

fn will_spec() -> BoxedStrategy<WillSpec> {
    (
        0u8..2,
        prop::collection::vec(any::<u8>(), 1..=8),
        0u8..=2,
        prop::bool::weighted(0.4),
        prop_oneof![4 => Just(None), 3 => Just(Some(0u32)), 1 => Just(Some(30u32))],
        prop::bool::weighted(0.3),
    )
        .prop_map(|(topic, payload, qos, retain, delay, more_props)| WillSpec { topic, payload, qos, retain, delay, more_props })
        .boxed()
}

fn end_strategy(keepalive: bool) -> BoxedStrategy<End> {
    if keepalive {
        return Just(End::KeepAlive).boxed();
    }
    let base = prop_oneof![
        4 => any::<bool>().prop_map(|wait| End::Disconnect { wait }),
        2 => (0u8..3).prop_map(|kind| End::DisconnectProps { kind }),
        3 => Just(End::Close),
        2 => (0u8..=1).prop_map(|qos| End::CloseAfterPublish { qos }),
        2 => any::<u8>().prop_map(|fraction| End::CloseMidPacket { fraction }),
        2 => (0u8..5).prop_map(|kind| End::Malformed { kind }),
        4 => (0u8..6).prop_map(|kind| End::RouterClose { kind }),
        1 => Just(End::CloseBeforeConnack),
    ]
    .boxed();
    if F3_FIXED {
        prop_oneof![20 => base, 1 => Just(End::DisconnectWhileWriteBlocked)].boxed()
    } else {
        base
    }
}

fn c16_case(keepalive: bool) -> BoxedStrategy<C16Case> {
    (
        any::<u64>(),
        ver_strategy(),
        ver_strategy(),
        0u8..4,
        0u8..=2,
        prop_oneof![5 => will_spec().prop_map(Some), 1 => Just(None)],
        prop::collection::vec(0u8..3, 0..=3),
        end_strategy(keepalive),
        (prop::bool::weighted(0.5), prop::bool::weighted(0.2), prop::bool::weighted(0.15), prop::bool::weighted(0.2)),
    )
        .prop_map(move |(seed, ver, obs_ver, obs_filter, obs_qos, mut will, pre, end, (late_subscriber, backed_up, predecessor, late_forward))| {
            if let Some(w) = will.as_mut() {
                if ver == Ver::V4 {
                    w.delay = None;
                    w.more_props = false;
                }
            }
            let client_side = matches!(end, End::Disconnect { .. } | End::DisconnectProps { .. } | End::Close | End::CloseAfterPublish { .. } | End::CloseMidPacket { .. });
            let predecessor = predecessor && ver == Ver::V5 && !keepalive && end != End::CloseBeforeConnack;
            let late_forward = late_forward && F3_FIXED && client_side && !backed_up;
            C16Case { seed, ver, obs_ver, obs_filter, obs_qos, will, pre, end, late_subscriber, backed_up: backed_up && client_side, predecessor, late_forward }
        })
        .boxed()
}

#[derive(Clone, Copy, PartialEq, Eq, Debug)]
pub enum C16Mode {
    Main,
    KeepAlive,
    /// inside region F1: the stream is dropped before the CONNACK could be written
    ProbeF1,
    /// inside region F3: DISCONNECT while the connection task is blocked in a write
    ProbeF3,
    /// inside region F4: an earlier connection of the same client id is still waiting out a
    /// will delay when the subject connects (clean start)
    ProbeF4,
}

pub struct C16Wills {
    pub mode: C16Mode,
}

pub const F1_SIGNATURE: &str = "will_not_published:CloseBeforeConnack";
pub const F3_SIGNATURE: &str = "will_published_unexpectedly:after_disconnect";
/// F4: the predecessor's PublishWill publishes the will the subject has just registered
pub const F4_SIGNATURE_A: &str = "will_published_unexpectedly:after_disconnect";

impl Campaign for C16Wills {
    type Case = C16Case;
    fn name(&self) -> &'static str {
        match self.mode {
            C16Mode::Main => "e5_will_decision",
            C16Mode::KeepAlive => "e5_will_keepalive",
            C16Mode::ProbeF1 => "e5_probe_f1_close_before_connack",
            C16Mode::ProbeF3 => "e5_probe_f3_disconnect_while_write_blocked",
            C16Mode::ProbeF4 => "e5_probe_f4_predecessor_waiting_out_will_delay",
        }
    }
    fn cases(&self, tier: Tier) -> u64 {
        match self.mode {
            C16Mode::Main => tier.pick(3000, 40_000),
            C16Mode::KeepAlive => tier.pick(0, 48),
            C16Mode::ProbeF4 => tier.pick(400, 4000),
            _ => tier.pick(40, 200),
        }
    }
    fn probes_known(&self) -> Vec<&'static str> {
        match self.mode {
            C16Mode::ProbeF1 => vec![F1_SIGNATURE],
            C16Mode::ProbeF3 => vec![F3_SIGNATURE],
            C16Mode::ProbeF4 => vec![F4_SIGNATURE_A],
            _ => vec![],
        }
    }
    fn strategy(&self, _tier: Tier) -> BoxedStrategy<C16Case> {
        let mode = self.mode;
        (c16_case(mode == C16Mode::KeepAlive), will_spec())
            .prop_map(move |(mut c, w)| {
                match mode {
                    C16Mode::ProbeF1 => {
                        c.backed_up = false;
                        c.predecessor = false;
                        c.late_forward = false;
                        c.end = End::CloseBeforeConnack;
                        c.will.get_or_insert(w);
                        c.obs_filter = 1; // w/# matches every will topic
                    }
                    C16Mode::ProbeF4 => {
                        c.ver = Ver::V5;
                        c.backed_up = false;
                        c.late_forward = false;
                        c.predecessor = true;
                        c.will.get_or_insert(w);
                        c.obs_filter = 1;
                        if matches!(c.end, End::CloseBeforeConnack | End::KeepAlive | End::DisconnectWhileWriteBlocked) {
                            c.end = End::Close;
                        }
                    }
                    C16Mode::ProbeF3 => {
                        c.backed_up = false;
                        c.predecessor = false;
                        c.late_forward = false;
                        c.end = End::DisconnectWhileWriteBlocked;
                        c.will.get_or_insert(w);
                        c.obs_filter = 1;
                    }
                    _ => {}
                }
                c
            })
            .boxed()
    }
    fn check(&self, case: &C16Case, obs: &mut Obs) -> Result<(), Failure> {
        let mut case = case.clone();
        // the late subscriber uses the other protocol version than the observer
        let late_ver = if case.obs_ver == Ver::V4 { Ver::V5 } else { Ver::V4 };
        if matches!(self.mode, C16Mode::Main | C16Mode::KeepAlive) {
            // known-finding region F1, excluded by construction
            if case.end == End::CloseBeforeConnack && !F1_FIXED {
                case.end = End::Close;
                obs.count("excluded_f1_close_before_connack_replaced_by_close", 1);
            }
            // known-finding region F4 (an earlier connection of the same client id still waiting
            // out a will delay when the subject connects), excluded by construction
            if case.predecessor && !F4_FIXED {
                case.predecessor = false;
                obs.count("excluded_f4_predecessor_waiting_out_will_delay_removed", 1);
            }
            // known-finding region F3 (a write towards the subject pending or failing when it
            // disconnects) is excluded by construction: the generator never yields
            // DisconnectWhileWriteBlocked unless the switch is on, and in every other history
            // nothing is owed to the subject when it sends DISCONNECT (it never subscribes, and
            // every acknowledgement was read before)
        }
        let r = run_case(case.seed, |stack| c16_body(stack, &case, late_ver));
        let (filter, _) = OBS_FILTERS[case.obs_filter as usize % 4];
        let matching = case.will.as_ref().is_some_and(|w| ref_matches(WILL_TOPICS[w.topic as usize % 2], filter));
        let polite = matches!(case.end, End::Disconnect { .. } | End::DisconnectProps { .. } | End::DisconnectWhileWriteBlocked);
        obs.class_if(case.will.is_some(), "will_registered");
        obs.class_if(case.backed_up, "router_backed_up_at_the_end");
        obs.class_if(case.predecessor, "predecessor_task_waiting_out_a_will_delay");
        obs.class_if(case.late_forward, "forward_towards_the_subject_in_flight_at_the_end");
        obs.class_if(polite, "end_disconnect");
        obs.class_if(case.will.is_some() && !polite && matching, "will_expected");
        obs.class_if(case.will.is_some() && !matching, "observer_not_matching");
        obs.class_if(case.will.as_ref().is_some_and(|w| w.retain), "will_retained");
        obs.class(match case.end {
            End::Disconnect { .. } => "end:disconnect",
            End::DisconnectProps { .. } => "end:disconnect_with_properties",
            End::Close => "end:close",
            End::CloseAfterPublish { .. } => "end:close_after_publish",
            End::CloseMidPacket { .. } => "end:close_mid_packet",
            End::Malformed { .. } => "end:malformed",
            End::RouterClose { .. } => "end:router_close",
            End::KeepAlive => "end:keep_alive",
            End::CloseBeforeConnack => "end:close_before_connack",
            End::DisconnectWhileWriteBlocked => "end:disconnect_while_write_blocked",
        });
        if r.is_ok() && case.will.is_some() && matching && !polite {
            obs.nontrivial(format!("{:?}", case.end).split([' ', '{']).next().unwrap_or("").to_string());
        }
        conclude(r, obs, || format!("will case {}", serde_json::to_string(&case).unwrap_or_default()))
    }
}

fn will_connect(case: &C16Case, keep_alive: u16) -> M {
    M::Connect(md::Connect {
        keep_alive,
        client_id: Txt::lit("c16-subject"),
        clean: true,
        will: case.will.as_ref().map(|w| {
            let mut props = Props::default();
            if case.ver == Ver::V5 {
                props.will_delay = w.delay;
                if w.more_props {
                    props.content_type = Some(Txt::lit("text/plain"));
                    props.user = vec![(Txt::lit("k"), Txt::lit("v"))];
                }
            }
            md::Will { topic: Txt::lit(WILL_TOPICS[w.topic as usize % 2]), message: Bin::Lit(w.payload.clone()), qos: w.qos, retain: w.retain, props }
        }),
        login: None,
        props: Props::default(),
    })
}

async fn c16_body(stack: Stack, case: &C16Case, late_ver: Ver) -> R<()> {
    let (filter, _) = OBS_FILTERS[case.obs_filter as usize % 4];
    let mut observer = stack.connect("observer", &Listener::plain(case.obs_ver), "c16-observer").await?;
    observer.subscribe_wait(1, filter, case.obs_qos, None).await?;
    let mut controller = stack.connect("controller", &Listener::plain(Ver::V4), "c16-controller").await?;

    // one listener for the subject and its predecessor: the will bookkeeping of `remote()` is
    // per listener
    let subject_listener = Listener::plain(case.ver);
    if case.predecessor {
        let mut p = stack.open("predecessor", &subject_listener);
        let mut props = Props::default();
        props.session_expiry = Some(3600);
        let mut wprops = Props::default();
        wprops.will_delay = Some(3600);
        p.send_packet(&M::Connect(md::Connect {
            keep_alive: 600,
            client_id: Txt::lit("c16-subject"),
            clean: true,
            will: Some(md::Will { topic: Txt::lit(WILL_TOPICS[0]), message: Bin::Lit(b"predecessor-will".to_vec()), qos: 0, retain: false, props: wprops }),
            login: None,
            props,
        }))
        .await?;
        match p.next().await? {
            Some(M::ConnAck(a)) if a.code == 0 => {}
            other => s_fail!("helper_connection_not_admitted", "predecessor CONNECT answered {other:?}"),
        }
        // DISCONNECT, then wait for the broker to close the stream: the router has dropped the
        // connection and removed the will; the task now waits out the will delay
        p.send_packet(&M::Disconnect(md::Disconnect { reason: 0, props: Props::default() })).await?;
        p.read_to_end().await?;
        p.close();
        std::mem::forget(p);
    }
    let mut x = stack.open("subject", &subject_listener);
    let keep_alive = if case.end == End::KeepAlive { 1 } else { 600 };
    x.send_packet(&will_connect(case, keep_alive)).await?;
    if case.end == End::CloseBeforeConnack {
        // the task has not run yet (current-thread runtime, no await since the write): it will
        // find the CONNECT followed by end-of-stream and fail to write its CONNACK
        x.close();
        return c16_judge(stack, case, late_ver, x, observer, controller, false).await;
    }
    match x.next().await? {
        Some(M::ConnAck(a)) if a.code == 0 => {}
        other => {
            x.check_not_panicked().await?;
            s_fail!("helper_connection_not_admitted", "subject CONNECT answered {other:?}")
        }
    }
    // The subject publishes to a topic nobody subscribed to (the broker drops such messages);
    // unless `late_forward` is set it never subscribes, so nothing but the awaited
    // acknowledgements is ever written to it.
    let mut pkid = 10u16;
    for step in &case.pre {
        match step {
            0 => {
                let (_, pong) = x.ping_barrier().await?;
                s_ensure!(pong, "helper_connection_closed", "subject closed during the preamble");
            }
            1 => {
                x.publish("own/t", b"pre", 0, 0).await?;
            }
            _ => {
                pkid += 1;
                x.publish("own/t", b"pre", 1, pkid).await?;
                let want = pkid;
                let (_, found) = x.read_until(|m| matches!(m, M::PubAck(a) if a.pkid == want)).await?;
                s_ensure!(found, "helper_connection_closed", "subject closed during the preamble");
            }
        }
    }
    let mut sent_disconnect = false;
    if case.late_forward {
        // own/t is matched by no observer filter; the subject does not read the forward
        x.auto_ack = false;
        x.subscribe_wait(7, "own/t", 1, None).await?;
        controller.publish("own/t", b"late forward", 1, 77).await?;
    }
    if case.backed_up {
        // id 0 = the observer (first connection of the case): a wake-up without work
        stack.back_up_router(0);
    }
    match &case.end {
        End::Disconnect { wait } => {
            sent_disconnect = true;
            x.send_packet(&M::Disconnect(md::Disconnect { reason: 0, props: Props::default() })).await?;
            if *wait {
                x.read_to_end().await?;
            }
            x.close();
        }
        End::DisconnectProps { kind } => {
            sent_disconnect = true;
            let mut props = Props::default();
            if case.ver == Ver::V5 {
                match kind % 3 {
                    0 => props.reason_string = Some(Txt::lit("bye")),
                    1 => props.user = vec![(Txt::lit("k"), Txt::lit("v"))],
                    _ => props.session_expiry = Some(0),
                }
            }
            x.send_packet(&M::Disconnect(md::Disconnect { reason: 0, props })).await?;
            x.close();
        }
        End::Close => x.close(),
        End::CloseAfterPublish { qos } => {
            x.publish("own/t", b"last", *qos, 99).await?;
            x.close();
        }
        End::CloseMidPacket { fraction } => {
            let frame = reference::encode(case.ver, &publish_m("own/t", b"0123456789abcdef", 1, 98));
            let cut = 1 + (*fraction as usize * (frame.len() - 1)) / 256;
            x.send(&frame[..cut.min(frame.len() - 1)]).await?;
            x.close();
        }
        End::Malformed { kind } => {
            let bytes: Vec<u8> = match kind {
                0 => vec![0x00, 0x00],
                1 => vec![0xF0, 0x02, 0x00, 0x00],
                2 => vec![0x30, 0xFF, 0xFF, 0xFF, 0x7F],
                3 => vec![0x36, 0x05, 0x00, 0x01, b'a', 0x00, 0x01],
                _ => vec![0x30, 0x80, 0x80, 0x80, 0x80, 0x01],
            };
            x.send(&bytes).await?;
            // the broker closes on the protocol error; the client keeps its end open meanwhile
            x.read_to_end().await?;
            x.close();
        }
        End::RouterClose { kind } => {
            let m = match kind {
                0 => M::PubAck(ack(4242)),
                1 => M::PubRec(ack(4242)),
                2 => M::PubComp(ack(4242)),
                3 => M::PubRel(ack(4242)),
                4 if case.ver == Ver::V5 => {
                    let mut props = Props::default();
                    props.topic_alias = Some(0);
                    M::Publish(md::Publish { dup: false, qos: 0, retain: false, topic: Txt::lit("own/t"), pkid: 0, payload: Bin::Lit(b"x".to_vec()), props })
                }
                _ => M::Subscribe(md::Subscribe {
                    pkid: 5,
                    filters: vec![md::Filter { path: Txt::lit("$SYS/x"), qos: 0, nolocal: false, preserve_retain: false, retain_rule: 0 }],
                    props: Props::default(),
                }),
            };
            x.send_packet(&m).await?;
            x.read_to_end().await?;
            x.close();
        }
        End::KeepAlive => {
            // nothing is written any more; the broker's keep-alive timer (1.5 s) ends the link
            x.read_to_end().await?;
            x.close();
        }
        End::CloseBeforeConnack => unreachable!(),
        End::DisconnectWhileWriteBlocked => {
            sent_disconnect = true;
            x.auto_ack = false;
            x.subscribe_wait(1, "own/t", 0, None).await?;
            let big = vec![0x42u8; 100 * 1024];
            controller.publish("own/t", &big, 0, 0).await?;
            // The first bytes of the forwarded message prove that the connection task is inside
            // `write_all` of a 100 KiB frame; the stream holds 64 KiB and at most 1 KiB more was
            // read, so that write cannot complete: the task is blocked in it (no timing involved).
            s_ensure!(x.read_raw_at_least(1).await?, "helper_connection_closed", "subject closed before the forward");
            x.send_packet(&M::Disconnect(md::Disconnect { reason: 0, props: Props::default() })).await?;
            x.close();
        }
    }
    c16_judge(stack, case, late_ver, x, observer, controller, sent_disconnect).await
}

async fn c16_judge(stack: Stack, case: &C16Case, late_ver: Ver, mut x: Conn, mut observer: Conn, mut controller: Conn, sent_disconnect: bool) -> R<()> {
    let (filter, sentinel_topic) = OBS_FILTERS[case.obs_filter as usize % 4];
    // (B1) remote() sends PublishWill before it returns (effective will delay 0:
    // `timeout(0 s, will_rx.recv_async())` elapses at once)
    x.join_no_panic().await?;
    // (B2) the sentinel is enqueued after the join, (B3) the observer has one log
    controller.publish(sentinel_topic, b"sentinel-1", 0, 0).await?;
    let expected_will = case.will.as_ref().filter(|w| !sent_disconnect && ref_matches(WILL_TOPICS[w.topic as usize % 2], filter));
    let (seen, found) = until_sentinel(&mut observer, sentinel_topic, b"sentinel-1", expected_will.is_some() as usize).await?;
    if !found {
        observer.check_not_panicked().await?;
        s_fail!("observer_connection_closed", "observer stream closed; saw {seen:?}")
    }
    let got = publishes(&seen);
    let end_name = format!("{:?}", case.end);
    let end_name = end_name.split([' ', '{']).next().unwrap_or("");
    match expected_will {
        Some(w) => {
            let topic = WILL_TOPICS[w.topic as usize % 2];
            s_ensure!(!got.is_empty(), format!("will_not_published:{end_name}"), "end {:?}: observer of {filter:?} received no will before the sentinel", case.end);
            s_ensure!(got.len() == 1, format!("will_published_more_than_once:{end_name}"), "observer received {got:?}");
            s_ensure!(
                got[0].topic.get() == topic && got[0].payload.get() == w.payload,
                "will_content_differs",
                "registered ({topic:?}, {:02x?}), observer received {:?}",
                w.payload,
                got[0]
            );
        }
        None => {
            let why = if case.will.is_none() {
                "no_will_registered"
            } else if sent_disconnect {
                "after_disconnect"
            } else {
                "topic_not_matching"
            };
            s_ensure!(got.is_empty(), format!("will_published_unexpectedly:{why}"), "end {:?}: observer received {got:?}", case.end);
        }
    }
    if case.late_subscriber {
        // retained copy ("retain as registered"): a subscription made now gets the will as a
        // retained message iff it fired with retain set. Retained messages are handed out at the
        // subscription's first read, ahead of the log entries, and the second sentinel is
        // published only after the SUBACK was read.
        let fired = case.will.as_ref().filter(|_| !sent_disconnect);
        let mut late = stack.connect("late", &Listener::plain(late_ver), "c16-late").await?;
        let early = late.subscribe_wait(1, filter, 0, None).await?;
        controller.publish(sentinel_topic, b"sentinel-2", 0, 0).await?;
        let (seen, found) = until_sentinel(&mut late, sentinel_topic, b"sentinel-2", 1).await?;
        if !found {
            late.check_not_panicked().await?;
            s_fail!("observer_connection_closed", "late subscriber stream closed; saw {seen:?}")
        }
        let all: Vec<M> = early.into_iter().chain(seen).collect();
        let got = publishes(&all);
        match fired.filter(|w| w.retain && ref_matches(WILL_TOPICS[w.topic as usize % 2], filter)) {
            Some(w) => {
                s_ensure!(got.len() == 1, "retained_will_copies", "late subscriber received {got:?}, expected one retained will");
                s_ensure!(
                    got[0].topic.get() == WILL_TOPICS[w.topic as usize % 2] && got[0].payload.get() == w.payload && got[0].retain,
                    "retained_will_content_differs",
                    "late subscriber received {:?}",
                    got[0]
                );
            }
            None => s_ensure!(got.is_empty(), "retained_will_unexpected", "late subscriber received {got:?}"),
        }
    }
    Ok(())
}

pub fn c16_campaigns() -> Vec<Box<dyn DynCampaign>> {
    vec![
        Box::new(C16Wills { mode: C16Mode::Main }),
        Box::new(C16Wills { mode: C16Mode::KeepAlive }),
        Box::new(C16Wills { mode: C16Mode::ProbeF1 }),
        Box::new(C16Wills { mode: C16Mode::ProbeF3 }),
        Box::new(C16Wills { mode: C16Mode::ProbeF4 }),
    ]
}

// =======================================================================================
// C20 — messages cross protocol versions; every notification is encodable
// =======================================================================================

pub const C20_E5_RULE: &str = "E5: publisher and subscriber connection tasks on listeners of (v4,v4), (v4,v5), (v5,v4), (v5,v5); the subscriber holds one subscription (exact topic, x/# or #; QoS 0-2; v5 optionally with a subscription identifier) and the publisher sends 1-3 messages (QoS 0-2 with the full acknowledgement flow, payload 0-2000 bytes) followed by a sentinel on the same topic. A v5 publisher attaches every subset of {payload format indicator, message expiry (>= 10^6 s, value not compared), content type, response topic, correlation data, user properties, topic alias (later messages may use the alias with an empty topic)}. Oracle: what the subscriber reads before the sentinel decodes with rumqttc's decoder of the subscriber's version (and is a legal frame by the reference decoder) to exactly the published messages in order (topic, payload); towards v5 the publisher's properties are preserved (topic alias removed, the subscription identifier added), towards v4 the frame carries none; both tasks are alive afterwards (PINGREQ answered, JoinHandle not finished, no panic). Optional tails: UNSUBSCRIBE, and a v5 publish with topic alias 0 whose server DISCONNECT must decode. Region R12 (PUBREL carrying properties) is excluded by construction and probed separately. Non-trivial: publisher and subscriber of different versions, or >=1 property on a message.";

const C20_TOPICS: [&str; 4] = ["x/a", "x/b/c", "x/é/😀", "x"];

#[derive(Clone, Debug, Serialize, Deserialize)]
pub struct C20Msg {
    pub payload: Bin,
    /// bit 0 payload format, 1 message expiry, 2 content type, 3 response topic, 4 correlation
    /// data, 5 user properties, 6 topic alias
    pub mask: u8,
    pub payload_format: u8,
    pub expiry: u32,
    pub content_type: Txt,
    pub response_topic: Txt,
    pub correlation: Bin,
    pub user: Vec<(Txt, Txt)>,
    pub alias: u16,
    /// send with an empty topic and the alias established by an earlier message (if any)
    pub reuse_alias: bool,
    /// QoS 2 from a v5 publisher: properties on the PUBREL (bit 0 reason string, bit 1 user property)
    pub rel_props: u8,
}

#[derive(Clone, Debug, Serialize, Deserialize)]
pub struct C20Case {
    pub seed: u64,
    pub pub_ver: Ver,
    pub sub_ver: Ver,
    pub pub_qos: u8,
    pub sub_qos: u8,
    pub topic: u8,
    /// 0 exact topic, 1 "x/#", 2 "#"
    pub filter: u8,
    pub sub_id: Option<u32>,
    pub msgs: Vec<C20Msg>,
    pub unsubscribe: bool,
    pub bad_alias_tail: bool,
}

fn c20_msg() -> BoxedStrategy<C20Msg> {
    use crate::codec::gen;
    let payload = (any::<u8>(), prop_oneof![6 => 0u32..=40, 2 => Just(0u32), 3 => 41u32..=2000, 1 => Just(128u32)])
        .prop_map(|(seed, len)| Bin::Gen { seed, len });
    (
        (payload, 0u8..128, 0u8..=1, 1_000_000u32..=u32::MAX, gen::txt_short(), gen::txt_nonempty()),
        (
            gen::bin(),
            prop::collection::vec((gen::txt_short(), gen::txt_short()), 1..=3),
            prop::sample::select(vec![1u16, 2, 4095, 4096]),
            prop::bool::weighted(0.5),
            0u8..4,
        ),
    )
        .prop_map(|((payload, mask, payload_format, expiry, content_type, response_topic), (correlation, user, alias, reuse_alias, rel_props))| C20Msg {
            payload,
            mask,
            payload_format,
            expiry,
            content_type,
            response_topic,
            correlation,
            user,
            alias,
            reuse_alias,
            rel_props,
        })
        .boxed()
}

fn c20_case() -> BoxedStrategy<C20Case> {
    (
        (any::<u64>(), ver_strategy(), ver_strategy(), 0u8..=2, 0u8..=2, 0u8..4, 0u8..3),
        (
            prop_oneof![2 => Just(None), 1 => crate::codec::gen::sub_id().prop_map(Some)],
            prop::collection::vec(c20_msg(), 1..=3),
            prop::bool::weighted(0.3),
            prop::bool::weighted(0.2),
        ),
    )
        .prop_map(|((seed, pub_ver, sub_ver, pub_qos, sub_qos, topic, filter), (sub_id, mut msgs, unsubscribe, bad_alias_tail))| {
            for m in msgs.iter_mut() {
                // half of the messages of a v5 publisher carry no PUBREL properties at all
                if pub_ver == Ver::V4 {
                    m.mask = 0;
                    m.reuse_alias = false;
                    m.rel_props = 0;
                }
            }
            C20Case {
                seed,
                pub_ver,
                sub_ver,
                pub_qos,
                sub_qos,
                topic,
                filter,
                sub_id: if sub_ver == Ver::V5 { sub_id } else { None },
                msgs,
                unsubscribe,
                bad_alias_tail: bad_alias_tail && pub_ver == Ver::V5,
            }
        })
        .boxed()
}

/// Publish properties of one message as the publisher sends them
fn c20_props(m: &C20Msg) -> Props {
    let mut p = Props::default();
    if m.mask & 1 != 0 {
        p.payload_format = Some(m.payload_format);
    }
    if m.mask & 2 != 0 {
        p.message_expiry = Some(m.expiry);
    }
    if m.mask & 4 != 0 {
        p.content_type = Some(m.content_type.clone());
    }
    if m.mask & 8 != 0 {
        p.response_topic = Some(m.response_topic.clone());
    }
    if m.mask & 16 != 0 {
        p.correlation_data = Some(m.correlation.clone());
    }
    if m.mask & 32 != 0 {
        p.user = m.user.clone();
    }
    if m.mask & 64 != 0 {
        p.topic_alias = Some(m.alias);
    }
    p
}

#[derive(Clone, Copy, PartialEq, Eq, Debug)]
pub enum C20Mode {
    Main,
    /// inside region R12: v5 publisher, QoS 2, PUBREL with properties
    ProbeR12,
}

pub struct C20Cross {
    pub mode: C20Mode,
}

pub const R12_SIGNATURE: &str = "qos2_release_with_properties_not_completed";

impl Campaign for C20Cross {
    type Case = C20Case;
    fn name(&self) -> &'static str {
        match self.mode {
            C20Mode::Main => "e5_cross_version",
            C20Mode::ProbeR12 => "e5_probe_r12_pubrel_properties",
        }
    }
    fn cases(&self, tier: Tier) -> u64 {
        match self.mode {
            C20Mode::Main => tier.pick(3000, 40_000),
            _ => tier.pick(60, 400),
        }
    }
    fn probes_known(&self) -> Vec<&'static str> {
        match self.mode {
            C20Mode::Main => vec![],
            C20Mode::ProbeR12 => vec![R12_SIGNATURE],
        }
    }
    fn strategy(&self, _tier: Tier) -> BoxedStrategy<C20Case> {
        let mode = self.mode;
        c20_case()
            .prop_map(move |mut c| {
                match mode {
                    C20Mode::Main => {}
                    C20Mode::ProbeR12 => {
                        c.pub_ver = Ver::V5;
                        c.pub_qos = 2;
                        c.msgs[0].rel_props = 1 + (c.seed % 3) as u8;
                    }
                }
                c
            })
            .boxed()
    }
    fn check(&self, case: &C20Case, obs: &mut Obs) -> Result<(), Failure> {
        let mut case = case.clone();
        if self.mode == C20Mode::Main {
            // known-finding region R12, excluded by construction
            if !R12_FIXED {
                let mut n = 0;
                for m in case.msgs.iter_mut() {
                    if m.rel_props != 0 && case.pub_qos == 2 {
                        n += 1;
                    }
                    m.rel_props = 0;
                }
                obs.count("excluded_r12_pubrel_properties_removed", n);
            }
        }
        let mut stats = C20Stats::default();
        let r = run_case(case.seed, |stack| c20_body(stack, &case, &mut stats));
        let with_props = case.msgs.iter().filter(|m| m.mask != 0).count();
        obs.class(match (case.pub_ver, case.sub_ver) {
            (Ver::V4, Ver::V4) => "v4->v4",
            (Ver::V4, Ver::V5) => "v4->v5",
            (Ver::V5, Ver::V4) => "v5->v4",
            (Ver::V5, Ver::V5) => "v5->v5",
        });
        obs.class_if(with_props > 0, "message_with_properties");
        obs.class_if(with_props > 0 && case.pub_ver == Ver::V5 && case.sub_ver == Ver::V4, "v5_properties_towards_v4");
        obs.class_if(case.msgs.iter().any(|m| m.mask & 64 != 0), "topic_alias");
        obs.class_if(stats.alias_reused, "topic_alias_reused_with_empty_topic");
        obs.class_if(case.sub_id.is_some(), "subscription_identifier");
        obs.class_if(case.pub_qos == 2, "publisher_qos2");
        obs.class_if(case.sub_qos == 2, "subscriber_qos2");
        obs.class_if(stats.server_disconnect_seen, "server_disconnect_decoded");
        obs.class_if(stats.unsuback_seen, "unsuback_decoded");
        obs.count("messages", case.msgs.len() as u64);
        if r.is_ok() && (case.pub_ver != case.sub_ver || with_props > 0) {
            obs.nontrivial(format!("{}->{} props={}", case.pub_ver.name(), case.sub_ver.name(), with_props.min(1)));
        }
        conclude(r, obs, || format!("cross-version case {}", serde_json::to_string(&case).unwrap_or_default()))
    }
}

#[derive(Default)]
struct C20Stats {
    alias_reused: bool,
    server_disconnect_seen: bool,
    unsuback_seen: bool,
}

/// Sends `request`, then a PINGREQ, and reads up to the reply selected by `is_reply`. (B4): the
/// reply owed for `request` precedes the PINGRESP, so a PINGRESP seen first means that the reply
/// will never come. Returns whether the reply came.
async fn request_reply(c: &mut Conn, request: &M, is_reply: impl Fn(&M) -> bool) -> R<bool> {
    c.send_packet(request).await?;
    c.send_packet(&M::PingReq).await?;
    let (got, found) = c.read_until(|m| is_reply(m) || matches!(m, M::PingResp)).await?;
    if !found {
        c.check_not_panicked().await?;
        return Err(Stop::Fail(Failure::new(
            "connection_closed_while_waiting_for_reply",
            format!("{}: stream closed after {request:?}; read {got:?}", c.name),
        )));
    }
    if matches!(got.last(), Some(M::PingResp)) {
        return Ok(false);
    }
    // consume the PINGRESP of the barrier
    let (_, pong) = c.read_until(|m| matches!(m, M::PingResp)).await?;
    s_ensure!(pong, "connection_closed_while_waiting_for_reply", "{}: stream closed before PINGRESP", c.name);
    Ok(true)
}

async fn c20_body(stack: Stack, case: &C20Case, stats: &mut C20Stats) -> R<()> {
    let topic = C20_TOPICS[case.topic as usize % C20_TOPICS.len()];
    let filter = match case.filter % 3 {
        0 => topic,
        1 => "x/#",
        _ => "#",
    };
    let mut sub = stack.connect("subscriber", &Listener::plain(case.sub_ver), "c20-sub").await?;
    sub.subscribe_wait(1, filter, case.sub_qos, case.sub_id).await?;
    let mut publisher = stack.connect("publisher", &Listener::plain(case.pub_ver), "c20-pub").await?;

    let mut alias_in_use: Option<u16> = None;
    let mut expected: Vec<(Props, Vec<u8>)> = Vec::new();
    for (i, m) in case.msgs.iter().enumerate() {
        let pkid = 100 + i as u16;
        let mut props = if case.pub_ver == Ver::V5 { c20_props(m) } else { Props::default() };
        let mut wire_topic = topic;
        if case.pub_ver == Ver::V5 && m.reuse_alias {
            if let Some(a) = alias_in_use {
                // empty topic + known alias: the broker resolves it to `topic`
                props.topic_alias = Some(a);
                wire_topic = "";
                stats.alias_reused = true;
            }
        }
        if wire_topic == topic {
            if let Some(a) = props.topic_alias {
                alias_in_use = Some(a);
            }
        }
        let payload = m.payload.get();
        let publish = M::Publish(md::Publish {
            dup: false,
            qos: case.pub_qos,
            retain: false,
            topic: Txt::lit(wire_topic),
            pkid: if case.pub_qos == 0 { 0 } else { pkid },
            payload: Bin::Lit(payload.clone()),
            props: props.clone(),
        });
        match case.pub_qos {
            0 => {
                publisher.send_packet(&publish).await?;
            }
            1 => {
                let ok = request_reply(&mut publisher, &publish, |r| matches!(r, M::PubAck(a) if a.pkid == pkid)).await?;
                s_ensure!(ok, "publish_not_acknowledged:qos1", "message {i}: PINGRESP arrived before the PUBACK");
            }
            _ => {
                let ok = request_reply(&mut publisher, &publish, |r| matches!(r, M::PubRec(a) if a.pkid == pkid)).await?;
                s_ensure!(ok, "publish_not_acknowledged:qos2", "message {i}: PINGRESP arrived before the PUBREC");
                let mut rel = ack(pkid);
                if case.pub_ver == Ver::V5 {
                    if m.rel_props & 1 != 0 {
                        rel.props.reason_string = Some(Txt::lit("released"));
                    }
                    if m.rel_props & 2 != 0 {
                        rel.props.user = vec![(Txt::lit("k"), Txt::lit("v"))];
                    }
                }
                let with_props = !rel.props.is_empty();
                let ok = request_reply(&mut publisher, &M::PubRel(rel), |r| matches!(r, M::PubComp(a) if a.pkid == pkid)).await?;
                if !ok && with_props {
                    s_fail!(R12_SIGNATURE, "message {i}: PUBREL with properties was answered by PINGRESP before any PUBCOMP: the release was ignored")
                }
                s_ensure!(ok, "qos2_release_not_completed", "message {i}: PINGRESP arrived before the PUBCOMP");
            }
        }
        props.topic_alias = None;
        expected.push((props, payload));
    }
    // sentinel from the same publisher on the same topic: (B4) handled after the messages,
    // (B2)+(B3) behind them in the subscriber's single log
    publisher.publish(topic, b"c20-sentinel", 0, 0).await?;
    let (seen, found) = until_sentinel(&mut sub, topic, b"c20-sentinel", expected.len()).await?;
    if !found {
        sub.check_not_panicked().await?;
        publisher.check_not_panicked().await?;
        s_fail!("subscriber_connection_closed", "subscriber stream closed before the sentinel; read {seen:?}")
    }
    let got = publishes(&seen);
    let pair = format!("{}_to_{}", case.pub_ver.name(), case.sub_ver.name());
    for (i, (g, (props, payload))) in got.iter().zip(expected.iter()).enumerate() {
        s_ensure!(g.topic.get() == topic, format!("delivered_topic_differs:{pair}"), "message {i}: topic {:?}, published on {topic:?}", g.topic);
        s_ensure!(
            g.payload.get() == *payload,
            format!("delivered_payload_differs:{pair}"),
            "message {i}: payload of {} bytes, published {} bytes; received {:?}",
            g.payload.len(),
            payload.len(),
            g
        );
        let mut want = props.clone();
        let mut have = g.props.clone();
        match case.sub_ver {
            // a v4 frame cannot carry properties: a legal v4 frame (reference decoder) with
            // exactly the published payload is the check that they were dropped
            Ver::V4 => want = Props::default(),
            Ver::V5 => {
                if let Some(id) = case.sub_id {
                    want.subscription_ids = vec![id];
                }
                // message expiry: present iff published, never larger; the value is not compared
                match (want.message_expiry.take(), have.message_expiry.take()) {
                    (Some(w), Some(h)) if h <= w => {}
                    (None, None) => {}
                    (w, h) => s_fail!(format!("delivered_properties_differ:{pair}"), "message {i}: published message expiry {w:?}, delivered {h:?}"),
                }
            }
        }
        have.force_some = false;
        want.force_some = false;
        if have != want {
            let mut fields = Vec::new();
            macro_rules! d {
                ($($f:ident),*) => { $( if have.$f != want.$f { fields.push(stringify!($f)); } )* };
            }
            d!(payload_format, content_type, response_topic, correlation_data, user, subscription_ids, topic_alias);
            if fields.is_empty() {
                fields.push("other");
            }
            s_fail!(format!("delivered_properties_differ:{pair}"), "message {i}: {} differ: published {want:?}, delivered {have:?}", fields.join("+"))
        }
    }
    s_ensure!(
        got.len() == expected.len(),
        format!("delivered_message_count:{pair}"),
        "published {} messages, subscriber received {}: {got:?}",
        expected.len(),
        got.len()
    );
    // both connection tasks are still alive
    for c in [&mut sub, &mut publisher] {
        let (extra, pong) = c.ping_barrier().await?;
        if !pong {
            c.check_not_panicked().await?;
            s_fail!("connection_not_alive_after_delivery", "{}: stream closed instead of PINGRESP", c.name)
        }
        s_ensure!(publishes(&extra).is_empty(), "message_after_sentinel", "{}: received {extra:?} after the sentinel", c.name);
        s_ensure!(!c.task_finished(), "connection_not_alive_after_delivery", "{}: task finished", c.name);
    }
    // further notifications: UNSUBACK, server DISCONNECT (decodable, no panic)
    if case.unsubscribe {
        sub.send_packet(&M::Unsubscribe(md::Unsubscribe { pkid: 9, filters: vec![Txt::lit(filter)], props: Props::default() })).await?;
        let (got, pong) = sub.ping_barrier().await?;
        if !pong {
            sub.check_not_panicked().await?;
            s_fail!("connection_not_alive_after_delivery", "subscriber closed after UNSUBSCRIBE")
        }
        stats.unsuback_seen = got.iter().any(|m| matches!(m, M::UnsubAck(_)));
    }
    if case.bad_alias_tail {
        let mut props = Props::default();
        props.topic_alias = Some(0);
        publisher
            .send_packet(&M::Publish(md::Publish {
                dup: false,
                qos: 0,
                retain: false,
                topic: Txt::lit(topic),
                pkid: 0,
                payload: Bin::Lit(b"bad alias".to_vec()),
                props,
            }))
            .await?;
        // the router closes the connection with a reason; whatever is written must decode
        let rest = publisher.read_to_end().await?;
        stats.server_disconnect_seen = rest.iter().any(|m| matches!(m, M::Disconnect(_)));
        publisher.join_no_panic().await?;
    }
    sub.check_not_panicked().await?;
    publisher.check_not_panicked().await?;
    Ok(())
}

pub fn c20_campaigns() -> Vec<Box<dyn DynCampaign>> {
    vec![
        Box::new(C20Cross { mode: C20Mode::Main }),
        Box::new(C20Cross { mode: C20Mode::ProbeR12 }),
    ]
}
