//! Engine E5 "fullstack": the broker's real per-connection task (`server::broker::remote()`,
//! `mqtt_connect`, `RemoteLink`, `Network`, `V4`/`V5`) over in-memory duplex streams, with the
//! real router loop on its own OS thread. Serves C19 (admission), C16 (will decision logic in
//! `remote()`), C20 (cross-version delivery, "encoded without panic") and C09 (sustained flows
//! through the link: window, `Unschedule`/`Ready`, resuming after acknowledgements).
//!
//! `stack` is the test bed (router thread, listeners, scripted clients, barriers, quiescence
//! detector); `props` holds the campaigns `c19_campaigns()`, `c16_campaigns()`,
//! `c20_campaigns()`; `flow` holds the campaign `Flow` ("e5_flow"), `isolation` the campaign
//! `Isolation` ("e5_isolation", C14: the flow pair as witnesses among misbehaving clients).

#![allow(dead_code)]
pub mod flow;
pub mod isolation;
pub mod props;
pub mod stack;
