//! E5 campaign `e5_isolation` (C14): the witness pair of `flow.rs` - publisher W1, subscriber W2,
//! optionally a bystander W3 that only has to stay connected - among up to three adversaries
//! that go through the REAL per-connection tasks (`remote()`, `RemoteLink::start`, `Network`,
//! the codecs): byte-level misbehaviour, sockets closed at arbitrary points, consumers that stop
//! reading so that the broker's write blocks and their outgoing buffer runs full, takeovers of
//! their own connections, reconnect storms. E4 (`props/c14.rs`) decides C14 with a simulated
//! link; this campaign decides it through the link code.
//!
//! The witnesses are `flow::Run` unchanged (script interpreter, publisher chunks closed by
//! PINGREQ, `SubModel`, liveness through the quiescence detector), with signatures `iso:*`.
//! Adversary steps are interleaved with the witness steps in one sequential case body; the
//! script is repeated until the witnesses are done, adversary steps only in the first pass.
//!
//! Rules that keep the oracle exact and the body from blocking:
//!  * An adversary in good standing (`Healthy`: connected, everything it sent so far confirmed)
//!    closes every valid request with a PINGREQ and the body reads its stream up to the PINGRESP
//!    with `next_or_quiescent` (frames in between are acknowledged like a well-behaved client
//!    would). So its inbound pipe is empty before its next write, and a write to it cannot
//!    block. A valid QoS 0/1 publish of an adversary on a witness topic is owed to the witnesses
//!    like any other: nothing else is published between its sending and the end of the barrier
//!    (the body is sequential), so its place in the acceptance order is the end of the list at
//!    that moment. If the barrier fails (stream closed or system quiescent before the PINGRESP -
//!    possible without any fault of the broker's design under test: known finding R5 lets a late
//!    signal of a finished adversary connection end a later adversary connection), nobody knows
//!    whether the broker accepted the publish (a PUBACK seen settles it): it is registered as
//!    *optional* at that place (`Run::accept_foreign`) and the connection is dropped.
//!    A QoS 2 publish of an adversary is never released and goes to a topic outside f/ and g/
//!    (rumqttd releases a recorded publish on any PUBREL of that connection, whatever its id).
//!  * Everything else is written with `Conn::send_now` (never waits) and the stream of an
//!    adversary that is `Stalled` is never read again. After a misbehaviour the body reads the
//!    adversary's stream until it is closed or the system is quiescent (both end for certain).
//!  * Wills, wildcard topic names and other bad topics stay outside f/ and g/ (a will is
//!    published whenever the broker notices the end of a connection, which has no place in a
//!    sequential oracle; rumqttd does not validate PUBLISH topic names at all, which is not
//!    this property's business).
//!  * Known finding R5 (recycled connection ids) cannot reach a witness: W2 and W1 connect
//!    first, W3 connects after the initial, plain connects of the adversaries and before any
//!    adversary connection has ended; none of them ever reconnects. So their slab slots are
//!    never recycled, and a late signal carries the id of a finished connection, never theirs.
//!    W3 exists because a slip of the kind "the neighbouring / the latest connection" would
//!    otherwise only ever hit adversaries, whose fate is not asserted.
//!  * Late bystanders ("iso-w4-0", "iso-w4-1", ...: `AdvAct::Evict`) do connect after adversary
//!    connections have ended - on purpose into the slab slot a connection has just lost: an
//!    adversary in good standing sends a packet that the ROUTER answers by dropping it (v5 with
//!    a DISCONNECT carrying a reason code, otherwise silently), keeps its socket open, and with no
//!    await in between the bystander's CONNECT is written, so that it is handled right behind
//!    the offending packet. This is where a signal of the dropped connection's task would act
//!    on a later connection, which C14 forbids - and where R5 allows it if the signal is late
//!    *legitimately*. The gate `late_ok` keeps the two apart; the argument is written there.
//!  * The adversaries' client ids are "iso-w" (a prefix of the witnesses' ids "iso-w1",
//!    "iso-w2", "iso-w3"), "iso-w10" (an extension) and "adv".

use super::flow::*;
use super::stack::*;
use crate::codec::model::{self as md, Bin, Props, Txt, Ver, M};
use crate::codec::reference;
use crate::engine::*;
use crate::s_ensure;
use proptest::prelude::*;
use rumqttd::{ConnectionSettings, RouterConfig};
use serde::{Deserialize, Serialize};
use serde_json::json;

/// known finding R5 (recycled connection ids) was repaired in /repo
const R5_FIXED: bool = true;

pub const ISOLATION_RULE: &str = "E5 isolation (e5_isolation): the e5_flow pair as witnesses (subscriber W2 'iso-w2' on f/# and optionally g/#, publisher W1 'iso-w1' with 20-200 messages in chunks closed by PINGREQ, optionally holding a QoS 0 subscription on g/a itself; optionally a bystander W3 'iso-w3' connected after the adversaries' initial connects) among adversaries 'iso-w', 'iso-w10', 'adv' on real connection tasks (own listener, 8 KiB packet limit), whose generated steps are interleaved with the witness script: plain CONNECT (again on a new stream = takeover of its own connection; storms of up to 5 without waiting), SUBSCRIBE to the witnesses' filters, '#', '+/a', x/#, valid PUBLISH on the witnesses' topics (QoS 0/1: part of the oracle, positioned by a PINGREQ barrier, optional if the barrier fails) and others (QoS 2, never released, only there), Stall (subscribes f/#, g/# and optionally '#', '+/#' with QoS 0-1 and never reads again), unsolicited PUBACK/PUBREC/PUBREL/PUBCOMP, second CONNECT, SUBSCRIBE to '$x' and malformed filters, PUBLISH with wildcard / invalid UTF-8 / empty topic (outside f/ and g/), QoS 3, frames cut at a generated byte (written at once or byte by byte) followed by close, garbage, an oversized frame, DISCONNECT+close, abrupt close, close of the sending direction only; Evict: an adversary in good standing sends a packet for which the router drops it (v5: topic alias 0, unknown alias, subscription identifier in PUBLISH, subscription identifier 0 - answered by DISCONNECT with a reason code; any version: unsolicited PUBACK/PUBREC/PUBCOMP, PUBREL for an unknown id, SUBSCRIBE to $x) and keeps its socket open, while one or two late bystanders 'iso-w4-0', 'iso-w4-1', ... write their CONNECT right before / behind it without anything awaited in between (so that they are given the slot just lost), must be admitted, optionally subscribe (QoS 0) to f/# or g/# and are then owed every later message, and must be alive at the end; left out when a late signal of an earlier connection cannot be excluded from the code (known finding R5: every stream the client closed must have a finished task, every other ended stream must be open, drained and dropped by the router). Oracle: e5_flow's on the witnesses (exact ordered delivery incl. the adversaries' valid publishes, exact acknowledgements to W1, window, liveness by the quiescence detector), all witness tasks alive and answering PINGREQ at the end, no panic in any connection task or the router. Non-trivial: >=1 adversary connection closed by the broker, stalled or taken over, while the witnesses exchanged >=20 messages.";

const WITNESS_IDS: [&str; 2] = ["iso-w2", "iso-w1"];
const BYSTANDER_ID: &str = "iso-w3";
const ADV_IDS: [&str; 3] = ["iso-w", "iso-w10", "adv"];
/// 0..=4 are the witnesses' TOPICS
const ADV_TOPICS: [&str; 7] = ["f/a", "f/b/c", "f", "g/a", "g/x/y", "x/y", "x"];
const ADV_FILTERS: [&str; 7] = ["f/#", "g/#", "#", "f/a", "+/a", "x/#", "g/+/y"];
const BAD_FILTERS: [&str; 5] = ["$x", "$SYS/#", "x/#/y", "x+", ""];
/// packet limit of the adversaries' listener
const ADV_MAX_PACKET: usize = 8 * 1024;

#[derive(Clone, Copy, Debug, PartialEq, Eq, Serialize, Deserialize)]
pub enum Bad {
    /// 0 PUBACK, 1 PUBREC, 2 PUBREL, 3 PUBCOMP, nobody asked for
    Ack { kind: u8, pkid: u16 },
    SecondConnect,
    /// index into BAD_FILTERS
    Subscribe { which: u8 },
    /// 0 topic x/#, 1 topic x/+/y, 2 invalid UTF-8, 3 empty topic (v5: without alias)
    PublishTopic { which: u8 },
    /// first byte 0x36
    PublishQos3,
    /// a valid frame (0 PUBLISH QoS 1 of ~200 B on x/y, 1 SUBSCRIBE x/#, 2 PUBREL) cut after
    /// `cut` bytes (modulo its length, at least 1), written at once or byte by byte, then close
    Cut { frame: u8, cut: u16, bytewise: bool },
    Garbage { seed: u8, len: u8 },
    /// PUBLISH larger than the listener's packet limit
    Oversized,
}

#[derive(Clone, Copy, Debug, PartialEq, Eq, Serialize, Deserialize)]
pub enum AdvAct {
    /// `storm` further CONNECTs on streams of their own go first, without waiting for anything
    Connect { clean: bool, will: bool, storm: u8 },
    /// index into ADV_FILTERS
    Subscribe { filter: u8, qos: u8 },
    /// index into ADV_TOPICS; size class 0..=2
    Publish { topic: u8, qos: u8, size: u8 },
    /// subscribes to the witnesses' filters (`wide`: also '#' and '+/#') and never reads again
    Stall { qos: u8, wide: bool },
    Misbehave(Bad),
    Close { disconnect: bool },
    CloseHalf,
    /// The adversary (in good standing) sends a packet for which the router drops it and keeps
    /// its socket open; late bystanders write their CONNECTs around it, nothing is awaited in
    /// between. `how` % 9: 0 PUBLISH with topic alias 0, 1 empty topic with an unknown alias, 2
    /// PUBLISH carrying a subscription identifier, 3 SUBSCRIBE with subscription identifier 0
    /// (v5: the router answers these with a DISCONNECT and a reason code; a v4 adversary uses
    /// `how` + 4), 4 / 5 / 6 PUBACK / PUBREC / PUBCOMP nobody asked for, 7 PUBREL for an unknown
    /// id, 8 SUBSCRIBE to $x. `order` % 4: the writes are X B | B X | X B B | B X B (X = the
    /// offending packet, B = a bystander's CONNECT). `watch`: the bystanders then subscribe
    /// (QoS 0) to f/# (0) or g/# (1) and are owed what is accepted from then on.
    Evict { how: u8, order: u8, watch: Option<u8> },
}

#[derive(Clone, Copy, Debug, PartialEq, Eq, Serialize, Deserialize)]
pub enum IsoStep {
    W(FlowStep),
    A { slot: u8, act: AdvAct },
}

#[derive(Clone, Debug, Serialize, Deserialize)]
pub struct IsoCase {
    pub seed: u64,
    pub pub_ver: Ver,
    pub sub_ver: Ver,
    pub adv_ver: [Ver; 3],
    pub max_out: u16,
    pub sub_qos: u8,
    pub second: Option<u8>,
    pub chunk: u8,
    pub qos2: Qos2Style,
    pub mix: [u8; 2],
    /// W1 holds a QoS 0 subscription on g/a
    pub echo: bool,
    /// W3
    pub bystander: bool,
    /// adversaries that connect (plainly) right after the witnesses
    pub initial: u8,
    pub msgs: Vec<FlowMsg>,
    /// executed cyclically until the witnesses are done; adversary steps in the first pass only
    pub steps: Vec<IsoStep>,
}

fn bad() -> BoxedStrategy<Bad> {
    prop_oneof![
        4 => (0u8..4, prop_oneof![Just(1u16), Just(2), Just(100), Just(101), any::<u16>()]).prop_map(|(kind, pkid)| Bad::Ack { kind, pkid }),
        1 => Just(Bad::SecondConnect),
        2 => (0u8..BAD_FILTERS.len() as u8).prop_map(|which| Bad::Subscribe { which }),
        2 => (0u8..4).prop_map(|which| Bad::PublishTopic { which }),
        1 => Just(Bad::PublishQos3),
        3 => (0u8..3, any::<u16>(), any::<bool>()).prop_map(|(frame, cut, bytewise)| Bad::Cut { frame, cut, bytewise }),
        2 => (any::<u8>(), 1u8..=64).prop_map(|(seed, len)| Bad::Garbage { seed, len }),
        1 => Just(Bad::Oversized),
    ]
    .boxed()
}

fn adv_act() -> BoxedStrategy<AdvAct> {
    prop_oneof![
        5 => (any::<bool>(), prop::bool::weighted(0.3), prop_oneof![6 => Just(0u8), 2 => 1u8..=4]).prop_map(|(clean, will, storm)| AdvAct::Connect { clean, will, storm }),
        3 => (0u8..ADV_FILTERS.len() as u8, 0u8..=2).prop_map(|(filter, qos)| AdvAct::Subscribe { filter, qos }),
        5 => (0u8..ADV_TOPICS.len() as u8, 0u8..=2, prop_oneof![3 => Just(0u8), 1 => Just(1u8), 1 => Just(2u8)]).prop_map(|(topic, qos, size)| AdvAct::Publish { topic, qos, size }),
        2 => (0u8..=1, any::<bool>()).prop_map(|(qos, wide)| AdvAct::Stall { qos, wide }),
        6 => bad().prop_map(AdvAct::Misbehave),
        2 => any::<bool>().prop_map(|disconnect| AdvAct::Close { disconnect }),
        1 => Just(AdvAct::CloseHalf),
        2 => evict(),
    ]
    .boxed()
}

fn evict() -> BoxedStrategy<AdvAct> {
    (0u8..9, 0u8..4, prop_oneof![Just(None), Just(Some(0u8)), Just(Some(1u8))]).prop_map(|(how, order, watch)| AdvAct::Evict { how, order, watch }).boxed()
}

fn iso_step() -> BoxedStrategy<IsoStep> {
    prop_oneof![
        2 => flow_step().prop_map(IsoStep::W),
        3 => (0u8..3, adv_act()).prop_map(|(slot, act)| IsoStep::A { slot, act }),
    ]
    .boxed()
}

fn iso_case() -> BoxedStrategy<IsoCase> {
    let ver = || prop_oneof![Just(Ver::V4), Just(Ver::V5)];
    let common = || {
        (
            (any::<u64>(), ver(), ver(), [ver(), ver(), ver()], prop::sample::select(vec![8u16, 30, 200])),
            (0u8..=2, prop_oneof![2 => Just(None), 3 => (0u8..=2).prop_map(Some)]),
            prop_oneof![Just(Qos2Style::RecFirst), Just(Qos2Style::CompOnRel), Just(Qos2Style::FlowAtOnce)],
            (any::<bool>(), any::<bool>()),
        )
    };
    // anything
    let general = (
        common(),
        prop_oneof![1 => 1u8..=4, 3 => 5u8..=25],
        prop::sample::select(vec![[100u8, 100], [80, 95], [80, 95], [45, 65], [60, 100], [0, 100]]),
        0u8..=3,
        prop::collection::vec(flow_msg(), 20..=200),
        prop::collection::vec(iso_step(), 6..=36),
    );
    // the stalled consumer: an adversary subscribes widely and stops reading at once, the
    // witnesses then move a heavy flow past it, so that the broker's write towards it blocks and
    // its outgoing buffer runs full (Unschedule) while the witnesses must not notice
    // (chunks of 1: one signal to the stalled link per notification in its buffer, so that the
    // signal channel runs full together with the buffer)
    let stalled = (
        common(),
        prop_oneof![1 => Just(1u8), 3 => 8u8..=25],
        prop::sample::select(vec![[45u8, 65], [30, 60], [0, 0]]),
        1u8..=3,
        prop::collection::vec(flow_msg(), 120..=200),
        ((0u8..=1, 2u8..=6), prop::collection::vec(iso_step(), 4..=24)).prop_map(|((qos, lead), mut tail)| {
            tail.insert(0, IsoStep::A { slot: 0, act: AdvAct::Stall { qos, wide: true } });
            tail.insert(1, IsoStep::W(FlowStep::Pub(lead)));
            tail
        }),
    );
    // evictions: all three adversaries are connected from the start, are thrown out by the
    // router one after the other while late bystanders take their slots, and connect again
    let eviction = (
        common(),
        prop_oneof![1 => 1u8..=4, 3 => 5u8..=25],
        prop::sample::select(vec![[100u8, 100], [80, 95], [45, 65]]),
        Just(3u8),
        prop::collection::vec(flow_msg(), 20..=120),
        (
            prop::collection::vec((0u8..3, evict(), flow_step(), any::<bool>()), 2..=6),
            prop::collection::vec(iso_step(), 0..=12),
        )
            .prop_map(|(groups, tail)| {
                let mut steps = Vec::new();
                for (slot, act, w, clean) in groups {
                    steps.push(IsoStep::A { slot, act });
                    steps.push(IsoStep::W(w));
                    steps.push(IsoStep::A { slot, act: AdvAct::Connect { clean, will: false, storm: 0 } });
                }
                steps.extend(tail);
                steps
            }),
    )
        .prop_map(|(mut c, chunk, mix, initial, msgs, steps)| {
            // mostly v5 adversaries: only they are told why they are thrown out
            let (seed, ..) = c.0;
            for (i, v) in c.0 .3.iter_mut().enumerate() {
                if (seed >> i) & 3 != 0 {
                    *v = Ver::V5;
                }
            }
            (c, chunk, mix, initial, msgs, steps)
        });
    prop_oneof![3 => general, 1 => stalled, 1 => eviction]
        .prop_map(|(((seed, pub_ver, sub_ver, adv_ver, max_out), (sub_qos, second), qos2, (echo, bystander)), chunk, mix, initial, msgs, steps)| IsoCase {
            seed,
            pub_ver,
            sub_ver,
            adv_ver,
            max_out,
            sub_qos,
            second,
            chunk,
            qos2,
            mix,
            echo,
            bystander,
            initial,
            msgs,
            steps,
        })
        .boxed()
}

pub struct Isolation;

impl Campaign for Isolation {
    type Case = IsoCase;
    fn name(&self) -> &'static str {
        "e5_isolation"
    }
    fn cases(&self, tier: Tier) -> u64 {
        tier.pick(300, 5000)
    }
    fn max_shrink_iters(&self, tier: Tier) -> u32 {
        tier.pick(400, 1500)
    }
    fn strategy(&self, _tier: Tier) -> BoxedStrategy<IsoCase> {
        iso_case()
    }
    fn check(&self, case: &IsoCase, obs: &mut Obs) -> Result<(), Failure> {
        let mut stats = FlowStats::default();
        let mut adv = AdvStats::default();
        let config = RouterConfig {
            max_connections: 64,
            max_outgoing_packet_count: case.max_out as u64,
            max_segment_size: 64 * 1024,
            max_segment_count: 64,
            ..router_config()
        };
        let r = run_case_probed(case.seed, config, true, |stack| iso_body(stack, case, &mut stats, &mut adv));
        obs.class_if(adv.closed_by_broker > 0, "adversary_closed_by_broker");
        obs.class_if(adv.violation_closed > 0, "protocol_violation_closed_by_broker");
        obs.class_if(adv.violation_survived > 0, "misbehaviour_tolerated_by_broker");
        obs.class_if(adv.violation_swallowed > 0, "bytes_taken_as_head_of_an_endless_frame");
        obs.class_if(adv.stalled > 0, "stalled_consumer");
        obs.class_if(adv.stalled > 0 && stats.busy_pauses > 0, "stalled_consumer_reached_unschedule");
        obs.class_if(adv.takeovers > 0, "takeover_of_own_connection");
        obs.class_if(adv.takeover_of_stalled > 0, "takeover_of_stalled_connection");
        obs.class_if(adv.storms > 0, "reconnect_storm");
        obs.class_if(adv.garbage > 0, "garbage_bytes");
        obs.class_if(adv.cut_frames > 0, "abrupt_close_mid_frame");
        obs.class_if(adv.abrupt_closes > 0, "abrupt_close");
        obs.class_if(adv.half_closes > 0, "half_close");
        obs.class_if(adv.persistent_sessions > 0, "adversary_persistent_session");
        obs.class_if(adv.wills > 0, "adversary_will");
        obs.class_if(adv.accepted_on_witness_topics > 0, "adversary_publish_delivered_to_witness");
        obs.class_if(adv.optional_on_witness_topics > 0, "adversary_publish_of_unknown_fate");
        obs.class_if(adv.unreleased_qos2 > 0, "adversary_qos2_never_released");
        obs.class_if(adv.barrier_failed > 0, "adversary_in_good_standing_lost_its_connection");
        obs.class_if(adv.barrier_unanswered > 0, "adversary_in_good_standing_left_unanswered");
        obs.class_if(adv.evictions > 0, "adversary_evicted_by_router_socket_kept_open");
        obs.class_if(adv.evictions_with_reason > 0, "evicted_with_disconnect_and_reason_code");
        obs.class_if(adv.late_bystanders > 0, "late_bystander");
        obs.class_if(adv.late_right_behind > 0 && adv.evictions > 0, "late_bystander_connect_right_behind_the_offending_packet");
        obs.class_if(adv.late_right_behind > 0 && adv.evictions_with_reason > 0, "late_bystander_behind_an_eviction_with_reason_code");
        obs.class_if(adv.late_watching > 0, "late_bystander_subscribed");
        obs.class_if(adv.evict_not_r5_safe > 0, "eviction_left_out_for_r5");
        obs.class_if(case.echo, "publisher_also_subscribed");
        obs.class_if(case.bystander, "bystander_witness");
        obs.class_if(stats.max_window >= WINDOW, "witness_window_reached_100");
        obs.class_if(stats.delivered >= 100, "witness_messages>=100");
        obs.class(match (case.pub_ver, case.sub_ver) {
            (Ver::V4, Ver::V4) => "v4->v4",
            (Ver::V4, Ver::V5) => "v4->v5",
            (Ver::V5, Ver::V4) => "v5->v4",
            (Ver::V5, Ver::V5) => "v5->v5",
        });
        obs.count("witness_messages_delivered", stats.delivered);
        obs.count("witness_echo_delivered", stats.echoed);
        obs.count("adversary_steps", adv.steps);
        obs.count("adversary_steps_skipped", adv.skipped);
        obs.count("adversary_connections", adv.connections);
        obs.count("adversary_connections_closed_by_broker", adv.closed_by_broker);
        obs.count("adversary_publishes_owed_to_witnesses", adv.accepted_on_witness_topics);
        obs.count("late_bystanders", adv.late_bystanders);
        obs.count("evictions_left_out_for_r5", adv.evict_not_r5_safe);
        obs.count("unschedule_pauses_seen", stats.busy_pauses);
        if r.is_ok() && stats.delivered >= 20 && (adv.closed_by_broker > 0 || adv.stalled > 0 || adv.takeovers > 0) {
            obs.nontrivial(format!(
                "closed={} stalled={} unschedule={} takeover={} storm={} cut={} foreign={} window100={}",
                adv.closed_by_broker.min(3),
                adv.stalled.min(2),
                adv.stalled > 0 && stats.busy_pauses > 0,
                adv.takeovers > 0,
                adv.storms > 0,
                adv.cut_frames > 0,
                adv.accepted_on_witness_topics > 0,
                stats.max_window >= WINDOW
            ));
        }
        obs.sample = Some(json!({
            "versions": format!("{}->{} adv {:?}", case.pub_ver.name(), case.sub_ver.name(), case.adv_ver),
            "sub_qos": case.sub_qos,
            "second": case.second,
            "chunk": case.chunk,
            "echo": case.echo,
            "bystander": case.bystander,
            "initial": case.initial,
            "messages": case.msgs.len(),
            "steps": format!("{:?}", case.steps),
            "delivered": stats.delivered,
            "closed_by_broker": adv.closed_by_broker,
            "stalled": adv.stalled,
            "takeovers": adv.takeovers,
            "unschedule_pauses_seen": stats.busy_pauses,
        }));
        conclude(r, obs, || {
            format!(
                "isolation case {}->{} adv={:?} sub_qos={} second={:?} chunk={} echo={} bystander={} initial={} messages={} steps={:?}",
                case.pub_ver.name(),
                case.sub_ver.name(),
                case.adv_ver,
                case.sub_qos,
                case.second,
                case.chunk,
                case.echo,
                case.bystander,
                case.initial,
                case.msgs.len(),
                case.steps
            )
        })
    }
}

#[derive(Default)]
struct AdvStats {
    steps: u64,
    /// steps that found their slot in a state in which they make no sense
    skipped: u64,
    connections: u64,
    closed_by_broker: u64,
    violation_closed: u64,
    violation_survived: u64,
    /// the bytes were taken as the head of a frame that never ends
    violation_swallowed: u64,
    stalled: u64,
    takeovers: u64,
    takeover_of_stalled: u64,
    storms: u64,
    garbage: u64,
    cut_frames: u64,
    abrupt_closes: u64,
    half_closes: u64,
    persistent_sessions: u64,
    wills: u64,
    accepted_on_witness_topics: u64,
    optional_on_witness_topics: u64,
    unreleased_qos2: u64,
    /// adversaries thrown out by the router in an `Evict` step
    evictions: u64,
    /// ... with a DISCONNECT carrying a reason code
    evictions_with_reason: u64,
    late_bystanders: u64,
    /// late bystanders whose CONNECT was written right behind the offending packet
    late_right_behind: u64,
    late_watching: u64,
    /// `Evict` steps left out because a late signal of an earlier connection could not be excluded
    evict_not_r5_safe: u64,
    barrier_failed: u64,
    /// ... of which: the system went quiescent without the PINGRESP
    barrier_unanswered: u64,
}

#[derive(Clone, Copy, PartialEq, Eq, Debug)]
enum Standing {
    /// connected, every request so far confirmed by a barrier, stream drained
    Healthy,
    /// subscribed to the witnesses' topics and not reading any more: never read, never waited on
    Stalled,
}

struct Slot {
    conn: Option<(Conn, Standing)>,
    next_pkid: u16,
}

/// How a wait on an adversary's stream ended
enum Barrier {
    /// the PINGRESP (or CONNACK) arrived; `acked`: so did the PUBACK that was looked for
    Done { acked: bool },
    /// the broker closed the stream first
    Closed { acked: bool },
    /// the system went quiescent first
    Quiet { acked: bool },
}

struct Adversaries<'a> {
    case: &'a IsoCase,
    stack: &'a Stack,
    stats: &'a mut AdvStats,
    listeners: [Listener; 2],
    slots: Vec<Slot>,
    /// streams the script is done with (taken over, closed, given up); they are never written,
    /// read or closed again, their tasks are only looked at for `late_ok` and, at the end, for
    /// panics
    graveyard: Vec<(Conn, Ended)>,
    /// late bystanders, with the index of their watch stream in `Run` if they subscribed
    late: Vec<(Conn, Option<usize>)>,
}

/// What the script knows about a stream it is done with (see `Adversaries::late_ok`)
#[derive(Clone, Copy, PartialEq, Eq, Debug)]
enum Ended {
    /// The client's socket stays open to the end of the case, everything the client ever wrote
    /// had been consumed when the script let go of it (a completed PINGREQ barrier, or nothing
    /// but the CONNECT / the one offending packet was written), and nothing is written again.
    Silent,
    /// anything else (closed or half closed by the client, unread bytes possible, given up)
    Loud,
}

async fn iso_body(stack: Stack, case: &IsoCase, stats: &mut FlowStats, adv: &mut AdvStats) -> R<()> {
    let r = iso_script(&stack, case, stats, adv).await;
    stats.busy_pauses = stack.router.busy_pauses();
    r
}

async fn iso_script(stack: &Stack, case: &IsoCase, stats: &mut FlowStats, adv_stats: &mut AdvStats) -> R<()> {
    // the witnesses connect first (W2, then W1) and never reconnect
    let params = FlowParams {
        sig: "iso",
        ids: WITNESS_IDS,
        pub_ver: case.pub_ver,
        sub_ver: case.sub_ver,
        sub_qos: case.sub_qos,
        second: case.second,
        chunk: case.chunk,
        qos2: case.qos2,
        mix: case.mix,
        msgs: &case.msgs,
        echo: case.echo,
    };
    let mut run = Run::open(stack, params, stats).await?;
    let settings = |ver| Listener::new(ver, ConnectionSettings { max_payload_size: ADV_MAX_PACKET, ..plain_settings(30_000) });
    let mut adv = Adversaries {
        case,
        stack,
        stats: adv_stats,
        listeners: [settings(Ver::V4), settings(Ver::V5)],
        slots: (0..ADV_IDS.len()).map(|_| Slot { conn: None, next_pkid: 1 }).collect(),
        graveyard: Vec::new(),
        late: Vec::new(),
    };
    // plain connects only: no adversary connection has ended when the bystander connects (R5)
    for slot in 0..(case.initial as usize).min(ADV_IDS.len()) {
        adv.connect(slot, true, false, 0).await?;
    }
    let mut bystander = match case.bystander {
        true => Some(stack.connect("bystander", &Listener::plain(case.sub_ver), BYSTANDER_ID).await?),
        false => None,
    };

    let mut markers_sent = false;
    let mut at = 0usize;
    let mut first_pass = true;
    let mut effect_in_cycle = false;
    let mut rounds = 0u32;
    loop {
        if run.all_published() && !markers_sent {
            run.publish_markers().await?;
            markers_sent = true;
        }
        if markers_sent && run.done() && !first_pass {
            break;
        }
        rounds += 1;
        if rounds > 100_000 {
            return Err(Stop::Inconclusive("end of the script (step limit)".into()));
        }
        if at >= case.steps.len() {
            if !effect_in_cycle {
                run.forced_round().await?;
            }
            at = 0;
            first_pass = false;
            effect_in_cycle = false;
            continue;
        }
        let step = case.steps[at];
        at += 1;
        match step {
            IsoStep::W(s) => effect_in_cycle |= run.step(s).await?,
            IsoStep::A { slot, act } if first_pass => {
                adv.step(slot as usize % ADV_IDS.len(), act, &mut run).await?;
                effect_in_cycle = true;
            }
            IsoStep::A { .. } => {}
        }
    }

    // every witness is alive and owes / is owed nothing; no connection task has panicked
    run.alive().await?;
    if let Some(w3) = bystander.as_mut() {
        w3.send_packet(&M::PingReq).await?;
        match stack.next_or_quiescent(w3).await? {
            Waited::Frame(M::PingResp) => {}
            Waited::Frame(m) => return Err(Stop::Fail(Failure::new(format!("iso:bystander:unexpected_frame:{}", m.type_name()), format!("the bystander, without any subscription, read {m:?}")))),
            Waited::Closed => {
                w3.check_not_panicked().await?;
                return Err(Stop::Fail(Failure::new("iso:bystander_closed", "the broker closed the bystander's connection")));
            }
            Waited::Quiescent => return Err(Stop::Fail(Failure::new("iso:stalled:bystander:pingresp_owed", "the system is quiescent and the bystander's PINGREQ is unanswered"))),
        }
        s_ensure!(!w3.task_finished(), "iso:connection_not_alive_at_the_end", "bystander: task finished");
    }
    adv.late_alive(&mut run).await?;
    adv.no_panics().await
}

impl Adversaries<'_> {
    fn ver(&self, slot: usize) -> Ver {
        self.case.adv_ver[slot]
    }

    /// The script is done with this stream (it stays open unless `close`)
    fn bury(&mut self, c: Conn, close: bool) {
        self.bury_as(c, close, Ended::Loud)
    }

    fn bury_as(&mut self, mut c: Conn, close: bool, ended: Ended) {
        if close {
            c.close();
        }
        self.graveyard.push((c, if close { Ended::Loud } else { ended }));
    }

    /// May a late bystander connect now without known finding R5 being able to touch it?
    ///
    /// R5: router ids are recycled slab keys, so `Event::Disconnect(id)` (also `Ready`) of a
    /// connection that has ended acts on whoever holds slot `id` when it is handled. A late
    /// bystander takes a recycled slot on purpose, so no connection that has EVER held a slot
    /// and has ended may still have such an event to send after the bystander's `Connect` is
    /// queued. (Connections that are alive hold other ids than the bystander will get and keep
    /// them until they end; connections made later get ids that are free then.) From the code:
    ///  * `remote()` sends `Event::Disconnect(id)` after `RemoteLink::start()` has returned,
    ///    unless it returned `Err(Error::Link(_))`, and it sends it BEFORE it drops the link
    ///    (= closes the socket) and before the task returns. `start()` returns only through a
    ///    `?`: `network.read()` / `readv` (end of stream, I/O error, undecodable bytes, keep
    ///    alive of 900 s), `link_tx.notify()` / `link_rx.wake()` (router channel closed: never
    ///    within a case), `network.writev()` (peer closed), and `link_rx.exchange()`, whose only
    ///    error is `LinkError::Recv` -> `Error::Link`: the router has dropped its `Outgoing`,
    ///    the only sender of the link's signal channel.
    ///  * So a task that has FINISHED has sent whatever it will ever send: its events are in
    ///    the router's FIFO channel in front of any `Connect` written later, and are handled
    ///    before the bystander exists. This covers every stream the client closed, half closed
    ///    or gave up (`Ended::Loud`): it must have finished (a few yields are granted: the link
    ///    is woken by the close; one that is blocked in a write towards a client that never
    ///    reads does not notice a half close and never finishes - then there are no late
    ///    bystanders in this case any more).
    ///  * A stream that is `Ended::Silent` has its client socket open for the rest of the
    ///    case, no unread client bytes and none to come. If the router has dropped the
    ///    connection (takeover by a later CONNECT of the same id, eviction), `read()` stays
    ///    pending (nothing to read, no end of stream), a write towards an open socket completes
    ///    or blocks but does not fail, so the only way out of `start()` is `exchange()` ->
    ///    `Recv` -> `Error::Link`: no `Disconnect`, ever. (Signals queued before the router
    ///    dropped its `Outgoing` are received first: the link may still write its last batch -
    ///    the DISCONNECT with the reason code among it - and answer an `Unschedule` with a late
    ///    `Ready(id)`; on a later occupant that is a spurious scheduling without effect, and
    ///    the offender of an `Evict` step is drained by a barrier right before, so that it has
    ///    nothing queued.) If the router has not dropped it, it is alive.
    /// With the seeded defect c14d the last step fails for evictions with a reason code:
    /// `start()` returns `Ok(())` after writing the DISCONNECT and `remote()` sends
    /// `Disconnect(id)` for the slot the bystander has just been given.
    async fn late_ok(&mut self) -> bool {
        // R5 was repaired in /repo (a link addresses the router with a token that carries the
        // serial number of its registration; stale tokens are ignored): the gate below is what
        // kept the finding out while it was open. Late bystanders now connect whatever the
        // graveyard holds, so the repair itself is exercised end to end.
        if R5_FIXED {
            return true;
        }
        for _ in 0..8 {
            if self.graveyard.iter().all(|(c, ended)| (*ended == Ended::Silent && c.is_open()) || c.task_finished()) {
                return true;
            }
            tokio::task::yield_now().await;
        }
        false
    }

    /// Reads the adversary's stream (acknowledging forwards like a client would) until `until`
    /// accepts a frame, the stream is closed or the system is quiescent
    async fn wait(&mut self, c: &mut Conn, until: impl Fn(&M) -> bool, puback: Option<u16>) -> R<Barrier> {
        let mut acked = false;
        loop {
            match self.stack.next_or_quiescent(c).await? {
                Waited::Frame(m) => {
                    if matches!((&m, puback), (M::PubAck(a), Some(p)) if a.pkid == p) {
                        acked = true;
                    }
                    if until(&m) {
                        return Ok(Barrier::Done { acked });
                    }
                }
                Waited::Closed => return Ok(Barrier::Closed { acked }),
                Waited::Quiescent => return Ok(Barrier::Quiet { acked }),
            }
        }
    }

    /// `request` + PINGREQ in one write on a healthy slot, read up to the PINGRESP. On failure
    /// the connection is given up (closed by the broker: counted).
    async fn barrier(&mut self, slot: usize, mut request: Vec<u8>, puback: Option<u16>) -> R<(bool, bool)> {
        let Some((mut c, Standing::Healthy)) = self.slots[slot].conn.take() else { unreachable!("barrier on a slot that is not healthy") };
        request.extend(reference::encode(c.ver, &M::PingReq));
        c.send(&request).await?;
        match self.wait(&mut c, |m| matches!(m, M::PingResp), puback).await? {
            Barrier::Done { acked } => {
                self.slots[slot].conn = Some((c, Standing::Healthy));
                Ok((true, acked))
            }
            Barrier::Closed { acked } => {
                self.stats.closed_by_broker += 1;
                self.stats.barrier_failed += 1;
                self.bury(c, true);
                Ok((false, acked))
            }
            Barrier::Quiet { acked } => {
                self.stats.barrier_failed += 1;
                self.stats.barrier_unanswered += 1;
                self.bury(c, true);
                Ok((false, acked))
            }
        }
    }

    /// CONNECT (`storm` + 1 times, each on a new stream; only the last one is waited for). A
    /// slot that is connected keeps its old stream open: takeover of its own connection.
    async fn connect(&mut self, slot: usize, clean: bool, will: bool, storm: usize) -> R<()> {
        let ver = self.ver(slot);
        let connect = M::Connect(md::Connect {
            keep_alive: 600,
            client_id: Txt::lit(ADV_IDS[slot]),
            clean,
            will: will.then(|| md::Will { topic: Txt::lit("x/will"), message: Bin::Lit(b"adversary's will".to_vec()), qos: 0, retain: false, props: Props::default() }),
            login: None,
            props: Props::default(),
        });
        if storm > 0 {
            self.stats.storms += 1;
        }
        self.stats.persistent_sessions += !clean as u64;
        self.stats.wills += will as u64;
        for i in 0..=storm {
            if let Some((old, standing)) = self.slots[slot].conn.take() {
                self.stats.takeovers += 1;
                self.stats.takeover_of_stalled += (standing == Standing::Stalled) as u64;
                // healthy: drained by its last barrier. Stalled: unread bytes are possible
                self.bury_as(old, false, if standing == Standing::Healthy { Ended::Silent } else { Ended::Loud });
            }
            let mut c = self.stack.open("adversary", &self.listeners[(ver == Ver::V5) as usize]);
            self.stats.connections += 1;
            c.send_packet(&connect).await?;
            if i < storm {
                // not waited for: whatever becomes of it, the next connect takes over. Nothing
                // but the CONNECT is ever written to it
                self.bury_as(c, false, Ended::Silent);
                continue;
            }
            match self.wait(&mut c, |m| matches!(m, M::ConnAck(_)), None).await? {
                Barrier::Done { .. } if matches!(c.log.last(), Some(M::ConnAck(a)) if a.code == 0) => {
                    self.slots[slot].conn = Some((c, Standing::Healthy));
                }
                Barrier::Closed { .. } => {
                    self.stats.closed_by_broker += 1;
                    self.bury(c, true);
                }
                _ => self.bury(c, true),
            }
        }
        Ok(())
    }

    async fn step(&mut self, slot: usize, act: AdvAct, run: &mut Run<'_>) -> R<()> {
        self.stats.steps += 1;
        let ver = self.ver(slot);
        let standing = self.slots[slot].conn.as_ref().map(|(_, s)| *s);
        match (act, standing) {
            (AdvAct::Connect { clean, will, storm }, _) => self.connect(slot, clean, will, storm.min(4) as usize).await?,
            (AdvAct::Subscribe { filter, qos }, Some(Standing::Healthy)) => {
                let pkid = self.pkid(slot);
                let subscribe = subscribe(pkid, &[ADV_FILTERS[filter as usize % ADV_FILTERS.len()]], qos.min(2));
                self.barrier(slot, reference::encode(ver, &subscribe), None).await?;
            }
            (AdvAct::Publish { topic, qos, size }, Some(Standing::Healthy)) => {
                let qos = qos.min(2);
                let topic = ADV_TOPICS[topic as usize % ADV_TOPICS.len()];
                // a QoS 2 publish is never released by its sender - but rumqttd releases the
                // oldest recorded publish of a connection on ANY PUBREL, whatever its packet id,
                // e.g. a later "unsolicited" one: such a publish has no defined fate, so it
                // stays away from the witnesses' topics
                let topic = if qos == 2 && !topic.starts_with('x') { "x/y" } else { topic };
                let witnessed = topic.starts_with('f') || topic.starts_with('g');
                let class = if topic == ECHO_TOPIC { 0 } else { size.min(2) };
                let pkid = self.pkid(slot);
                let (serial, body) = run.register(topic, class);
                let publish = M::Publish(md::Publish {
                    dup: false,
                    qos,
                    retain: false,
                    topic: Txt::lit(topic),
                    pkid: if qos == 0 { 0 } else { pkid },
                    payload: Bin::Lit(body),
                    props: Props::default(),
                });
                let (done, acked) = self.barrier(slot, reference::encode(ver, &publish), (qos == 1).then_some(pkid)).await?;
                match qos {
                    2 => self.stats.unreleased_qos2 += 1,
                    _ => {
                        let confirmed = done || acked;
                        run.accept_foreign(serial, confirmed);
                        match confirmed {
                            true => self.stats.accepted_on_witness_topics += witnessed as u64,
                            false => self.stats.optional_on_witness_topics += witnessed as u64,
                        }
                    }
                }
            }
            (AdvAct::Stall { qos, wide }, Some(Standing::Healthy)) => {
                let pkid = self.pkid(slot);
                let filters: &[&str] = if wide { &["f/#", "g/#", "#", "+/#"] } else { &["f/#", "g/#"] };
                let (done, _) = self.barrier(slot, reference::encode(ver, &subscribe(pkid, filters, qos.min(1))), None).await?;
                if done {
                    if let Some((_, standing)) = self.slots[slot].conn.as_mut() {
                        *standing = Standing::Stalled;
                        self.stats.stalled += 1;
                    }
                }
            }
            (AdvAct::Misbehave(bad), Some(standing)) => self.misbehave(slot, bad, standing).await?,
            (AdvAct::Evict { how, order, watch }, Some(Standing::Healthy)) => self.evict(slot, how, order, watch, run).await?,
            (AdvAct::Close { disconnect }, Some(_)) => {
                let (mut c, _) = self.slots[slot].conn.take().unwrap();
                if disconnect {
                    c.send_now(&reference::encode(ver, &M::Disconnect(md::Disconnect { reason: 0, props: Props::default() }))).await;
                } else {
                    self.stats.abrupt_closes += 1;
                }
                self.bury(c, true);
            }
            (AdvAct::CloseHalf, Some(_)) => {
                let (mut c, _) = self.slots[slot].conn.take().unwrap();
                c.shutdown_write().await;
                self.stats.half_closes += 1;
                self.bury(c, false);
            }
            _ => self.stats.skipped += 1,
        }
        Ok(())
    }

    fn pkid(&mut self, slot: usize) -> u16 {
        let s = &mut self.slots[slot];
        s.next_pkid = s.next_pkid % 30_000 + 1;
        s.next_pkid + 1000
    }

    async fn misbehave(&mut self, slot: usize, bad: Bad, standing: Standing) -> R<()> {
        let ver = self.ver(slot);
        let (mut c, _) = self.slots[slot].conn.take().unwrap();
        // (bytes, close the socket afterwards, write byte by byte)
        let (bytes, close, bytewise): (Vec<u8>, bool, bool) = match bad {
            Bad::Ack { kind, pkid } => {
                let a = ack(pkid.max(1));
                let m = match kind % 4 {
                    0 => M::PubAck(a),
                    1 => M::PubRec(a),
                    2 => M::PubRel(a),
                    _ => M::PubComp(a),
                };
                (reference::encode(ver, &m), false, false)
            }
            Bad::SecondConnect => {
                let connect = M::Connect(md::Connect { keep_alive: 600, client_id: Txt::lit(ADV_IDS[slot]), clean: true, will: None, login: None, props: Props::default() });
                (reference::encode(ver, &connect), false, false)
            }
            Bad::Subscribe { which } => (reference::encode(ver, &subscribe(7, &[BAD_FILTERS[which as usize % BAD_FILTERS.len()]], 1)), false, false),
            Bad::PublishTopic { which } => {
                let topic: &[u8] = match which % 4 {
                    0 => b"x/#",
                    1 => b"x/+/y",
                    2 => b"x/\xff\xfe",
                    _ => b"",
                };
                (raw_publish(ver, 0x30, topic, b"bad topic"), false, false)
            }
            Bad::PublishQos3 => (raw_publish(ver, 0x36, b"x/y", b"qos 3"), false, false),
            Bad::Cut { frame, cut, bytewise } => {
                let whole = match frame % 3 {
                    0 => reference::encode(
                        ver,
                        &M::Publish(md::Publish { dup: false, qos: 1, retain: false, topic: Txt::lit("x/y"), pkid: 9, payload: Bin::Lit(vec![0x55; 200]), props: Props::default() }),
                    ),
                    1 => reference::encode(ver, &subscribe(9, &["x/#"], 1)),
                    _ => reference::encode(ver, &M::PubRel(ack(9))),
                };
                let cut = 1 + cut as usize % (whole.len() - 1);
                self.stats.cut_frames += 1;
                (whole[..cut].to_vec(), true, bytewise)
            }
            Bad::Garbage { seed, len } => {
                self.stats.garbage += 1;
                ((0..len.max(1)).map(|i| seed.wrapping_mul(31).wrapping_add(i.wrapping_mul(97)) | 0x0f).collect(), false, false)
            }
            Bad::Oversized => (raw_publish(ver, 0x30, b"x/y", &vec![0xaa; ADV_MAX_PACKET + 100]), false, false),
        };
        if bytewise {
            // the connection task sees every prefix of the frame
            for b in &bytes {
                if c.send_now(&[*b]).await == 0 {
                    break;
                }
                tokio::task::yield_now().await;
            }
        } else {
            c.send_now(&bytes).await;
        }
        if close {
            self.bury(c, true);
            return Ok(());
        }
        if standing == Standing::Stalled {
            // never read again: whatever the broker makes of it
            self.slots[slot].conn = Some((c, Standing::Stalled));
            return Ok(());
        }
        // the broker closes the connection or carries on: both show without waiting for ever
        match self.wait(&mut c, |_| false, None).await? {
            Barrier::Closed { .. } => {
                self.stats.closed_by_broker += 1;
                self.stats.violation_closed += 1;
                self.bury(c, true);
            }
            _ => {
                // the broker carries on. Is the stream still in step (garbage may be the head
                // of a frame whose rest the connection task now waits for)? Only an adversary
                // whose PINGREQ is answered stays in good standing.
                c.send_now(&reference::encode(ver, &M::PingReq)).await;
                match self.wait(&mut c, |m| matches!(m, M::PingResp), None).await? {
                    Barrier::Done { .. } => {
                        self.stats.violation_survived += 1;
                        self.slots[slot].conn = Some((c, Standing::Healthy));
                    }
                    Barrier::Closed { .. } => {
                        self.stats.closed_by_broker += 1;
                        self.stats.violation_closed += 1;
                        self.bury(c, true);
                    }
                    Barrier::Quiet { .. } => {
                        self.stats.violation_swallowed += 1;
                        self.bury(c, true);
                    }
                }
            }
        }
        Ok(())
    }

    /// `AdvAct::Evict`
    async fn evict(&mut self, slot: usize, how: u8, order: u8, watch: Option<u8>, run: &mut Run<'_>) -> R<()> {
        if !self.late_ok().await {
            self.stats.evict_not_r5_safe += 1;
            self.stats.skipped += 1;
            return Ok(());
        }
        // the offender has read everything it was sent and is owed nothing
        if !self.barrier(slot, Vec::new(), None).await?.0 {
            return Ok(());
        }
        let ver = self.ver(slot);
        let how = if ver == Ver::V4 && how % 9 < 4 { how % 9 + 4 } else { how % 9 };
        let publish = |topic: &str, props: Props| M::Publish(md::Publish { dup: false, qos: 0, retain: false, topic: Txt::lit(topic), pkid: 0, payload: Bin::Lit(b"offence".to_vec()), props });
        let offence = match how {
            0 => publish("x/y", Props { topic_alias: Some(0), ..Props::default() }),
            1 => publish("", Props { topic_alias: Some(7), ..Props::default() }),
            2 => publish("x/y", Props { subscription_ids: vec![5], ..Props::default() }),
            3 => {
                let M::Subscribe(mut s) = subscribe(8, &["x/#"], 0) else { unreachable!() };
                s.props.subscription_ids = vec![0];
                M::Subscribe(s)
            }
            4 => M::PubAck(ack(77)),
            5 => M::PubRec(ack(77)),
            6 => M::PubComp(ack(77)),
            7 => M::PubRel(ack(77)),
            _ => subscribe(8, &["$x"], 0),
        };
        let offence = reference::encode(ver, &offence);
        let (mut offender, _) = self.slots[slot].conn.take().unwrap();

        // the writes, with nothing in between that lets a connection task run: the tasks are
        // polled in the order in which they were woken / spawned, so the router finds the events
        // in this order
        let writes: &[bool] = match order % 4 {
            0 => &[false, true],
            1 => &[true, false],
            2 => &[false, true, true],
            _ => &[true, false, true],
        };
        let mut late = Vec::new();
        let mut offended = false;
        for is_bystander in writes {
            if !is_bystander {
                offender.send_now(&offence).await;
                offended = true;
                continue;
            }
            let n = self.late.len() + late.len();
            let b_ver = if (self.case.seed >> (n % 60)) & 1 == 0 { Ver::V4 } else { Ver::V5 };
            let connect = M::Connect(md::Connect { keep_alive: 600, client_id: Txt::lit(&format!("iso-w4-{n}")), clean: true, will: None, login: None, props: Props::default() });
            let mut b = self.stack.open("late bystander", &Listener::plain(b_ver));
            b.auto_ack = false;
            b.send_now(&reference::encode(b_ver, &connect)).await;
            self.stats.late_bystanders += 1;
            self.stats.late_right_behind += offended as u64;
            late.push(b);
        }

        // every bystander is admitted, and subscribes if the step says so
        for mut b in late {
            match self.stack.next_or_quiescent(&mut b).await? {
                Waited::Frame(M::ConnAck(a)) if a.code == 0 => {}
                other => return late_failure(&mut b, other, "connack").await,
            }
            let mut watching = None;
            if let Some(which) = watch {
                let which = which as usize % FILTERS.len();
                let mut request = reference::encode(b.ver, &subscribe(1, &[FILTERS[which]], 0));
                request.extend(reference::encode(b.ver, &M::PingReq));
                b.send(&request).await?;
                loop {
                    match self.stack.next_or_quiescent(&mut b).await? {
                        Waited::Frame(M::SubAck(_)) => {}
                        Waited::Frame(M::PingResp) => break,
                        other => return late_failure(&mut b, other, "suback").await,
                    }
                }
                // nothing was published meanwhile: it is owed what is accepted from here on
                watching = Some(run.watch(FILTERS[which].as_bytes()[0]));
                self.stats.late_watching += 1;
            }
            self.late.push((b, watching));
        }

        // the offender: thrown out (its socket stays open to the end of the case) or tolerated
        match self.wait(&mut offender, |_| false, None).await? {
            Barrier::Closed { .. } => {
                self.stats.closed_by_broker += 1;
                self.stats.violation_closed += 1;
                self.stats.evictions += 1;
                self.stats.evictions_with_reason += offender.log.iter().any(|m| matches!(m, M::Disconnect(_))) as u64;
                self.bury_as(offender, false, Ended::Silent);
            }
            _ => {
                offender.send_now(&reference::encode(ver, &M::PingReq)).await;
                match self.wait(&mut offender, |m| matches!(m, M::PingResp), None).await? {
                    Barrier::Done { .. } => {
                        self.stats.violation_survived += 1;
                        self.slots[slot].conn = Some((offender, Standing::Healthy));
                    }
                    _ => self.bury(offender, true),
                }
            }
        }
        Ok(())
    }

    /// At the end: every late bystander has received what it is owed, answers a PINGREQ and its
    /// task is running
    async fn late_alive(&mut self, run: &mut Run<'_>) -> R<()> {
        for (b, watching) in self.late.iter_mut() {
            let mut pinged = false;
            loop {
                let owed = watching.is_some_and(|w| run.watched_backlog(w));
                if !owed && !pinged {
                    b.send_packet(&M::PingReq).await?;
                    pinged = true;
                }
                match (self.stack.next_or_quiescent(b).await?, *watching) {
                    (Waited::Frame(M::Publish(p)), Some(w)) => run.on_watched(w, &p)?,
                    (Waited::Frame(M::PingResp), _) if pinged => break,
                    (other, _) => return late_failure(b, other, if owed { "backlog" } else { "pingresp" }).await,
                }
            }
            s_ensure!(!b.task_finished(), "iso:connection_not_alive_at_the_end", "late bystander: task finished");
        }
        Ok(())
    }

    /// A connection task may end in any way except a panic
    async fn no_panics(&mut self) -> R<()> {
        let mut all: Vec<Conn> = self.graveyard.drain(..).map(|(c, _)| c).collect();
        all.extend(self.slots.iter_mut().filter_map(|s| s.conn.take().map(|(c, _)| c)));
        all.extend(self.late.drain(..).map(|(c, _)| c));
        for c in all.iter_mut() {
            c.check_not_panicked().await?;
        }
        Ok(())
    }
}

/// A late bystander did not get the frame it was owed (`owed`)
async fn late_failure<T>(b: &mut Conn, got: Waited, owed: &str) -> R<T> {
    match got {
        Waited::Closed => {
            b.check_not_panicked().await?;
            Err(Stop::Fail(Failure::new(
                "iso:late_bystander_closed",
                format!("the broker closed the connection of a well-behaved client that connected right after another client was thrown out (waiting for: {owed}); it had read {:?}", b.log.iter().map(|m| m.type_name()).collect::<Vec<_>>()),
            )))
        }
        Waited::Quiescent => Err(Stop::Fail(Failure::new(format!("iso:stalled:late_bystander:{owed}_owed"), "the system is quiescent and a late bystander is still owed a frame"))),
        Waited::Frame(m) => Err(Stop::Fail(Failure::new(format!("iso:late_bystander:unexpected_frame:{}", m.type_name()), format!("a late bystander read {m:?} while waiting for: {owed}")))),
    }
}

fn subscribe(pkid: u16, filters: &[&str], qos: u8) -> M {
    M::Subscribe(md::Subscribe {
        pkid,
        filters: filters.iter().map(|f| md::Filter { path: Txt::lit(f), qos, nolocal: false, preserve_retain: false, retain_rule: 0 }).collect(),
        props: Props::default(),
    })
}

/// A PUBLISH frame built by hand (QoS bits, topic bytes and length are the caller's business)
fn raw_publish(ver: Ver, byte1: u8, topic: &[u8], payload: &[u8]) -> Vec<u8> {
    let mut body = Vec::new();
    body.extend((topic.len() as u16).to_be_bytes());
    body.extend(topic);
    if byte1 & 0x06 != 0 {
        body.extend(11u16.to_be_bytes());
    }
    if ver == Ver::V5 {
        body.push(0);
    }
    body.extend(payload);
    let mut out = vec![byte1];
    let mut n = body.len();
    loop {
        let mut b = (n % 128) as u8;
        n /= 128;
        if n > 0 {
            b |= 0x80;
        }
        out.push(b);
        if n == 0 {
            break;
        }
    }
    out.extend(body);
    out
}
