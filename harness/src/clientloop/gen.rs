//! Generators of session scripts (user bursts, ack behaviour, crash points, successive connections)
//! shared by the E7 campaigns for C02 / C07 / C10 / C11.

use super::*;
use proptest::prelude::*;

#[derive(Clone, Debug)]
pub struct SessGen {
    /// protocol: None = both
    pub v5: Option<bool>,
    /// acknowledgements always for the oldest outstanding flow (no collisions possible)
    pub in_order: bool,
    /// QoS weights of user publishes [q0, q1, q2]
    pub qos_w: [u32; 3],
    /// weight of Subscribe/Unsubscribe among user requests (only when !in_order)
    pub sub_w: u32,
    pub max_conns: usize,
    /// probability (percent) that a scripted connection carries a byte-level fault
    pub p_fault: u32,
    /// probability (percent) that a scripted CONNACK reports a session
    pub p_session: u32,
    pub max_bursts: usize,
    pub max_burst: usize,
    /// dup / bogus acknowledgements (percent per step)
    pub p_bad_ack: u32,
    /// broker-initiated batches per connection (0 = none) and their max size
    pub max_pushes: usize,
    pub max_batch: usize,
    /// unsolicited packets inside broker batches (percent per packet)
    pub p_bad_push: u32,
    pub avoid_k2: bool,
    pub avoid_ack_mismatch: bool,
    pub tail_never: bool,
    /// v5: CONNACK receive-maximum below the configured limit (percent)
    pub p_receive_max: u32,
    pub inflights: Vec<u16>,
}

impl Default for SessGen {
    fn default() -> Self {
        SessGen {
            v5: None,
            in_order: true,
            qos_w: [1, 5, 3],
            sub_w: 0,
            max_conns: 4,
            p_fault: 75,
            p_session: 70,
            max_bursts: 3,
            max_burst: 8,
            p_bad_ack: 4,
            max_pushes: 0,
            max_batch: 0,
            p_bad_push: 0,
            // K2 (carried channel requests bypassing flow control) was repaired in /repo
            avoid_k2: false,
            avoid_ack_mismatch: true,
            tail_never: true,
            p_receive_max: 20,
            inflights: vec![1, 2, 2, 3, 3, 4, 5, 10],
        }
    }
}

pub const DRAIN_AT_MS: u32 = 3000;

fn pct(p: u32) -> BoxedStrategy<bool> {
    (0u32..100).prop_map(move |x| x < p).boxed()
}

fn ack_step(in_order: bool, p_bad: u32) -> BoxedStrategy<AckStep> {
    let pick = if in_order { Just(0u16).boxed() } else { prop_oneof![2 => Just(0u16), 3 => any::<u16>(), 1 => Just(u16::MAX)].boxed() };
    (prop_oneof![3 => Just(0u8), 4 => Just(1u8), 2 => Just(2u8), 1 => Just(3u8)], pick, pct(p_bad), pct(p_bad))
        .prop_map(|(n, pick, dup, bogus)| AckStep { n, pick, dup: dup && n > 0, bogus })
        .boxed()
}

fn ack_policy(cfg: &SessGen) -> BoxedStrategy<AckPolicy> {
    let tail = if cfg.tail_never { prop_oneof![4 => Just(Tail::InOrder), 1 => Just(Tail::Never)].boxed() } else { Just(Tail::InOrder).boxed() };
    (
        prop_oneof![
            2 => Just(vec![]).boxed(),
            5 => prop::collection::vec(ack_step(cfg.in_order, cfg.p_bad_ack), 1..16).boxed(),
        ],
        tail,
        prop_oneof![4 => Just(0u32), 1 => Just(3u32), 1 => 1u32..60],
    )
        .prop_map(|(steps, tail, delay_ms)| AckPolicy { steps, tail, delay_ms })
        .boxed()
}

fn fault(p: u32) -> BoxedStrategy<Option<Fault>> {
    let f = (
        any::<bool>(),
        // client->broker: inside CONNECT / in the replay phase right behind it / later
        prop_oneof![1 => 0u32..30, 4 => 26u32..70, 3 => 60u32..160, 1 => 100u32..400],
        // broker->client: inside CONNACK / first acks / later
        prop_oneof![2 => 0u32..8, 5 => 4u32..24, 3 => 20u32..70],
        any::<bool>(),
    )
        .prop_map(|(c2b, kc, kb, reset)| {
            Some(if c2b {
                Fault { dir: Dir::ClientToBroker, k: kc, reset }
            } else {
                Fault { dir: Dir::BrokerToClient, k: kb, reset }
            })
        });
    (pct(p), f).prop_map(|(on, f)| if on { f } else { None }).boxed()
}

fn bpkt(p_bad: u32, next_id: u16) -> BoxedStrategy<BPkt> {
    let _ = next_id;
    prop_oneof![
        30 => Just(BPkt::Publish { qos: 0, pkid: 0 }),
        30 => (1u16..40).prop_map(|pkid| BPkt::Publish { qos: 1, pkid }),
        25 => (1u16..40).prop_map(|pkid| BPkt::Publish { qos: 2, pkid }),
        10 => Just(BPkt::PingResp),
        p_bad => prop_oneof![
            (1u16..12).prop_map(BPkt::PubAck),
            (1u16..12).prop_map(BPkt::PubRec),
            (1u16..12).prop_map(BPkt::PubComp),
            (1u16..40).prop_map(BPkt::PubRel),
            (1u16..12).prop_map(BPkt::SubAck),
        ],
    ]
    .boxed()
}

/// batches of 0..=max packets; a QoS 2 publish is followed (later in the same or a later batch)
/// by its PUBREL with probability 1/2, so that known-id releases are common
fn pushes(cfg: &SessGen) -> BoxedStrategy<Vec<Push>> {
    if cfg.max_pushes == 0 {
        return Just(vec![]).boxed();
    }
    let max_batch = cfg.max_batch;
    let p_bad = cfg.p_bad_push;
    prop::collection::vec(
        (
            0u32..1500,
            prop_oneof![1 => Just(0usize), 3 => 1usize..4, 3 => 8usize..=max_batch.max(9), 2 => 0usize..=max_batch],
            prop::collection::vec((bpkt(p_bad, 0), any::<bool>()), max_batch),
        ),
        0..=cfg.max_pushes,
    )
    .prop_map(move |v| {
        let mut out: Vec<Push> = Vec::new();
        let mut owed_rel: Vec<u16> = Vec::new();
        let mut used: Vec<u16> = Vec::new();
        let mut v = v;
        v.sort_by_key(|x| x.0);
        for (at_ms, n, pk) in v {
            let mut pkts = Vec::new();
            for (b, rel_now) in pk.into_iter().take(n.min(max_batch)) {
                // release something owed first, sometimes
                if rel_now && !owed_rel.is_empty() && pkts.len() < max_batch {
                    pkts.push(BPkt::PubRel(owed_rel.remove(0)));
                    if pkts.len() >= n {
                        break;
                    }
                }
                match b {
                    BPkt::Publish { qos: 2, pkid } => {
                        // ids of open inbound QoS 2 flows are not reused by this broker
                        let mut id = pkid;
                        while used.contains(&id) {
                            id += 1;
                        }
                        used.push(id);
                        owed_rel.push(id);
                        pkts.push(BPkt::Publish { qos: 2, pkid: id });
                    }
                    other => pkts.push(other),
                }
            }
            out.push(Push { at_ms, pkts });
        }
        out
    })
    .boxed()
}

fn conn_script(cfg: &SessGen, receive_max: Option<u16>) -> BoxedStrategy<ConnScript> {
    let rm = Just(receive_max);
    (
        pct(cfg.p_session),
        rm,
        ack_policy(cfg),
        fault(cfg.p_fault),
        pushes(cfg),
        prop_oneof![8 => Just(None), 1 => (0u32..1500).prop_map(Some)],
        prop_oneof![12 => Just(0u8), 1 => Just(1u8), 1 => Just(2u8)],
    )
        .prop_map(|(session_present, receive_max, acks, fault, pushes, close_at_ms, connect_kind)| ConnScript {
            connect: match connect_kind {
                0 => ConnectB::Accept { session_present, delay_ms: 0, receive_max, server_keep_alive: None },
                1 => ConnectB::Refuse,
                _ => ConnectB::IoError,
            },
            acks,
            ping: PingPolicy::prompt(),
            pushes,
            fault,
            close_at_ms,
            auto_pubrel: false,
        })
        .boxed()
}

fn user_ops(cfg: &SessGen) -> BoxedStrategy<Vec<UserOp>> {
    let [w0, w1, w2] = cfg.qos_w;
    let sub_w = if cfg.in_order { 0 } else { cfg.sub_w };
    let kind = prop_oneof![
        w0 => Just(UserKind::Publish { qos: 0 }),
        w1 => Just(UserKind::Publish { qos: 1 }),
        w2 => Just(UserKind::Publish { qos: 2 }),
        sub_w => prop_oneof![Just(UserKind::Subscribe), Just(UserKind::Unsubscribe)],
    ];
    let burst = (0u32..1800, prop::collection::vec((kind, prop_oneof![3 => Just(0u32), 1 => 0u32..4]), 1..=cfg.max_burst));
    prop::collection::vec(burst, 1..=cfg.max_bursts)
        .prop_map(|bursts| {
            let mut ops = Vec::new();
            for (t0, reqs) in bursts {
                let mut t = t0;
                for (kind, gap) in reqs {
                    t += gap;
                    ops.push(UserOp { at_ms: t, kind });
                }
            }
            ops.sort_by_key(|o| o.at_ms);
            ops
        })
        .boxed()
}

pub fn session_case(cfg: SessGen) -> BoxedStrategy<Case> {
    let v5 = match cfg.v5 {
        Some(b) => Just(b).boxed(),
        None => any::<bool>().boxed(),
    };
    (v5, prop::sample::select(cfg.inflights.clone()), any::<u64>())
        .prop_flat_map(move |(v5, inflight, seed)| {
            let c = cfg.clone();
            // v5: one receive-maximum per case (a broker does not shrink its window below what the
            // session already has outstanding), announced on every scripted connection
            let p_rm = if v5 { c.p_receive_max } else { 0 };
            (pct(p_rm), 1u16..=inflight).prop_flat_map(move |(on, r)| {
            let receive_max = if on { Some(r) } else { None };
            let c = c.clone();
            (
                prop::collection::vec(conn_script(&c, receive_max), 1..=c.max_conns),
                user_ops(&c),
                any::<bool>(),
                prop_oneof![3 => Just(0u16), 1 => Just(7u16)],
                any::<bool>(),
                prop_oneof![3 => Just(5u16), 1 => Just(30u16), 1 => Just(0u16)],
                prop_oneof![5 => Just(0u16), 1 => Just(2u16)],
            )
                .prop_map(move |(conns, user, tail_session, repoll_delay_ms, yield_between, ka, throttle_ms)| {
                    let keep_alive_s = if v5 && ka == 0 { 5 } else { ka };
                    let conn_timeout_s = 2u16;
                    Case {
                        seed,
                        v5,
                        keep_alive_s,
                        inflight,
                        cap: 32,
                        conn_timeout_s,
                        throttle_ms,
                        repoll_delay_ms,
                        yield_between,
                        conns,
                        tail_session,
                        user,
                        drain_at_ms: DRAIN_AT_MS,
                        horizon_ms: DRAIN_AT_MS + (2 * keep_alive_s as u32 + 2 * conn_timeout_s as u32 + 3) * 1000 + 777,
                        snapshots: true,
                        avoid_k2: c.avoid_k2,
                        avoid_ack_mismatch: c.avoid_ack_mismatch,
                    }
                })
            })
        })
        .boxed()
}
