//! E7 campaigns contributed to C02, C07, C10, C11 (constructor functions + evidence rule fragments).
//! The owners of props/c02.rs, c07.rs, c10.rs, c11.rs add them to their plans:
//!
//! ```ignore
//! campaigns.extend(crate::clientloop::props::c02_campaigns());
//! enumerators.extend(crate::clientloop::props::c02_enumerators());
//! rule.push_str(crate::clientloop::props::C02_RULE);
//! ```

use super::gen::{session_case, SessGen};
use super::oracle::{analyze, Clauses, Facts};
use super::run::run_case;
use super::*;
use crate::engine::*;
use proptest::prelude::*;
use serde_json::json;

pub struct SessionCampaign {
    pub name: &'static str,
    pub gen: SessGen,
    pub clauses: Clauses,
    pub quick: u64,
    pub thorough: u64,
    pub nontrivial: fn(&Facts, &Case) -> Option<String>,
    pub probes: Vec<&'static str>,
    /// post-processing of the generated case (construction of a sub-domain)
    pub shape: Option<fn(Case) -> Case>,
}

pub fn check_session(case: &Case, cl: Clauses) -> Result<Facts, Failure> {
    let out = run_case(case)?;
    if std::env::var_os("VERIF_DUMP").is_some() {
        // debugging aid only
        eprintln!("{}", super::run::render(&out.log, 100_000));
    }
    match analyze(case, &out, cl) {
        Err(mut f) if std::env::var_os("VERIF_TRACE_LINES").is_some() => {
            // debugging aid only: append the log to the detail
            f.detail.push_str(&super::run::render(&out.log, 60));
            Err(f)
        }
        r => r,
    }
}

fn classify(case: &Case, f: &Facts, obs: &mut Obs) {
    obs.class(if case.v5 { "v5" } else { "v4" });
    obs.class_if(f.failures > 0, "failure");
    obs.class_if(f.failures >= 2, "failures>=2");
    obs.class_if(f.collisions > 0, "collision");
    obs.class_if(f.collisions_resolved > 0, "collision_resolved");
    obs.class_if(f.resumed_with_unacked > 0, "resumed_with_unacked");
    obs.class_if(f.nosession_with_carried > 0, "no_session_with_carried");
    obs.class_if(f.max_queued_at_failure > 0, "queued_in_channel_at_failure");
    obs.class_if(f.max_queued_at_failure >= 4, "queued_in_channel_at_failure>=4");
    obs.class_if(f.carried_wrapped, "carried_ids_wrapped");
    obs.class_if(f.replay_interrupted, "failure_during_replay");
    obs.class_if(f.gate_blocked > 0, "request_waited_behind_closed_gate");
    obs.class_if(f.taken_after_unblock > 0, "request_taken_right_after_ack");
    obs.class_if(f.window_full_seen, "window_full");
    obs.class_if(f.max_batch_in >= 10, "broker_batch>=10");
    obs.class_if(f.qos2_in_completed > 0, "inbound_qos2_completed");
    obs.class_if(f.rejected_acks > 0, "unsolicited_ack_rejected");
    obs.class_if(f.v4_connack_overtook_queue > 0, "v4_connack_handed_out_before_queued_notifications");
    obs.class_if(f.k2_region_entered, "k2_region_entered");
    obs.class_if(f.retransmissions > 0, "retransmission_on_wire");
    obs.count("excluded_k2_session_downgraded", f.session_downgraded as u64);
    if case.avoid_ack_mismatch && case.mixes_qos() {
        let n: usize = case.conns.iter().map(|c| c.acks.steps.iter().filter(|s| s.dup).count()).sum();
        obs.count("excluded_duplicate_acks_in_mixed_qos_cases", n as u64);
    }
    obs.count("user_requests_accepted", f.users_accepted as u64);
    obs.count("publishes_finally_acknowledged", f.users_done as u64);
    obs.count("publishes_dropped_without_session", f.users_dropped as u64);
    obs.count("connections", f.connections as u64);
}

fn sample_of(case: &Case, f: &Facts) -> serde_json::Value {
    json!({
        "v5": case.v5, "inflight": case.inflight, "user_requests": case.user.len(),
        "scripted_connections": case.conns.len(),
        "faults": case.conns.iter().map(|c| c.fault.map(|f| format!("{:?}@{}", f.dir, f.k))).collect::<Vec<_>>(),
        "observed": {"connections": f.connections, "failures": f.failures, "collisions": f.collisions,
            "resumed_with_unacked": f.resumed_with_unacked, "queued_at_failure": f.max_queued_at_failure,
            "retransmissions": f.retransmissions, "max_broker_batch": f.max_batch_in},
    })
}

impl Campaign for SessionCampaign {
    type Case = Case;
    fn name(&self) -> &'static str {
        self.name
    }
    fn cases(&self, tier: Tier) -> u64 {
        tier.pick(self.quick, self.thorough)
    }
    fn strategy(&self, _tier: Tier) -> BoxedStrategy<Case> {
        let s = session_case(self.gen.clone());
        match self.shape {
            Some(f) => s.prop_map(f).boxed(),
            None => s,
        }
    }
    fn check(&self, case: &Case, obs: &mut Obs) -> Result<(), Failure> {
        let f = check_session(case, self.clauses)?;
        classify(case, &f, obs);
        if let Some(k) = (self.nontrivial)(&f, case) {
            obs.nontrivial(k);
            obs.sample = Some(sample_of(case, &f));
        }
        Ok(())
    }
    fn probes_known(&self) -> Vec<&'static str> {
        self.probes.clone()
    }
    fn max_shrink_iters(&self, _tier: Tier) -> u32 {
        3000
    }
}

fn ver(c: &Case) -> &'static str {
    if c.v5 {
        "v5"
    } else {
        "v4"
    }
}

// ------------------------------------------------------------------------------------------ C02

fn nt_c02(f: &Facts, c: &Case) -> Option<String> {
    if f.collisions > 0 || f.resumed_with_unacked > 0 {
        Some(format!(
            "{} collision={} resumed_unacked={} queued={} failures={}",
            ver(c),
            f.collisions > 0,
            f.resumed_with_unacked.min(3),
            f.max_queued_at_failure.min(4),
            f.failures.min(4)
        ))
    } else {
        None
    }
}

const C02_CLAUSES: Clauses = Clauses { hold: true, quiesce: true, wire: true, before: false, order: false, gate: false, inout: false };

pub fn c02_inorder() -> SessionCampaign {
    SessionCampaign {
        name: "e7_crash_inorder",
        gen: SessGen { in_order: true, ..SessGen::default() },
        clauses: C02_CLAUSES,
        quick: 20_000,
        thorough: 600_000,
        nontrivial: nt_c02,
        probes: vec![],
        shape: None,
    }
}

pub fn c02_outoforder() -> SessionCampaign {
    SessionCampaign {
        name: "e7_crash_outoforder",
        gen: SessGen { in_order: false, sub_w: 1, inflights: vec![1, 2, 2, 3, 3, 4, 5], ..SessGen::default() },
        clauses: C02_CLAUSES,
        quick: 20_000,
        thorough: 600_000,
        nontrivial: nt_c02,
        probes: vec![],
        shape: None,
    }
}

/// inside the K2 region: resumed reconnects with channel requests carried into pending behind
/// out-of-order histories (the broker never downgrades the session)
pub fn c02_k2_probe() -> SessionCampaign {
    SessionCampaign {
        name: "e7_k2_probe",
        gen: SessGen {
            in_order: false,
            avoid_k2: false,
            p_session: 100,
            p_fault: 90,
            max_burst: 8,
            qos_w: [0, 5, 1],
            inflights: vec![2, 3, 3, 4, 5],
            ..SessGen::default()
        },
        clauses: C02_CLAUSES,
        quick: 3_000,
        thorough: 60_000,
        nontrivial: |f, c| if f.k2_region_entered { Some(format!("{} k2_region", ver(c))) } else { None },
        probes: vec![
            "lost_publish:v4:blocked_publish_overwritten_by_second_collision",
            "lost_publish:v5:blocked_publish_overwritten_by_second_collision",
        ],
        shape: None,
    }
}

/// QoS 1 publish (id 1), a SUBSCRIBE (consumes id 2), then a QoS 2 publish that collides on id 1
/// while the window has room; every ack of the first connection is written twice, 3 ms late:
/// the duplicate PUBACK(1) meets the QoS 2 publish that the first PUBACK(1) released into slot 1
fn shape_ack_mismatch(mut c: Case) -> Case {
    c.inflight = 2;
    if let Some(ConnectB::Accept { receive_max, .. }) = c.conns.first_mut().map(|s| &mut s.connect) {
        *receive_max = None;
    }
    let mut user = vec![
        UserOp { at_ms: 0, kind: UserKind::Publish { qos: 1 } },
        UserOp { at_ms: 0, kind: UserKind::Subscribe },
        UserOp { at_ms: 0, kind: UserKind::Publish { qos: 2 } },
        UserOp { at_ms: 0, kind: UserKind::Publish { qos: 1 } },
        UserOp { at_ms: 0, kind: UserKind::Publish { qos: 1 } },
    ];
    user.extend(c.user.iter().filter(|u| matches!(u.kind, UserKind::Publish { .. })).take(4).map(|u| UserOp { at_ms: u.at_ms.max(1), ..*u }));
    user.sort_by_key(|u| u.at_ms);
    c.user = user;
    for s in c.conns.iter_mut() {
        s.connect = match s.connect.clone() {
            ConnectB::Accept { session_present, .. } => ConnectB::Accept { session_present, delay_ms: 0, receive_max: None, server_keep_alive: None },
            _ => ConnectB::Accept { session_present: true, delay_ms: 0, receive_max: None, server_keep_alive: None },
        };
    }
    if let Some(first) = c.conns.first_mut() {
        first.fault = None;
        first.close_at_ms = None;
        first.acks.delay_ms = 3;
        first.acks.tail = Tail::InOrder;
        if first.acks.steps.len() < 4 {
            first.acks.steps = vec![AckStep { n: 1, pick: 0, dup: true, bogus: false }; 6];
        }
        for st in first.acks.steps.iter_mut() {
            st.dup = true;
            st.bogus = false;
            st.n = st.n.max(1);
        }
    }
    c
}

/// inside the region of the known finding "the kind of an acknowledgement is not checked against
/// the QoS of the publish that holds the id": QoS 1 and QoS 2 publishes mixed, duplicated acks
pub fn c02_ack_mismatch_probe() -> SessionCampaign {
    SessionCampaign {
        name: "e7_ack_mismatch_probe",
        gen: SessGen {
            in_order: false,
            avoid_ack_mismatch: false,
            p_bad_ack: 35,
            p_fault: 30,
            qos_w: [0, 3, 3],
            max_conns: 2,
            inflights: vec![1, 2, 2, 3],
            ..SessGen::default()
        },
        clauses: C02_CLAUSES,
        quick: 4_000,
        thorough: 80_000,
        nontrivial: |f, c| if c.mixes_qos() && f.collisions_resolved > 0 && f.rejected_acks > 0 { Some(format!("{} mixed_qos_dup_acks", ver(c))) } else { None },
        probes: vec![
            "lost_publish:v4:qos1_publish_taken_by_pubrec",
            "lost_publish:v5:qos1_publish_taken_by_pubrec",
            "lost_publish:v4:qos2_publish_finished_by_puback",
            "lost_publish:v5:qos2_publish_finished_by_puback",
        ],
        shape: Some(shape_ack_mismatch),
    }
}

pub fn c02_campaigns() -> Vec<Box<dyn DynCampaign>> {
    vec![Box::new(c02_inorder()), Box::new(c02_outoforder()), Box::new(c02_k2_probe()), Box::new(c02_ack_mismatch_probe())]
}

/// Base scripts of <= 6 client packets for the exhaustive crash-point enumeration
fn short_scripts() -> Vec<Case> {
    let mut v = Vec::new();
    for v5 in [false, true] {
        for inflight in [1u16, 2, 3] {
            for qos in [[1u8, 1, 1], [2, 1, 1], [1, 2, 2], [2, 2, 1]] {
                for session in [true, false] {
                    let user: Vec<UserOp> =
                        qos.iter().enumerate().map(|(i, q)| UserOp { at_ms: 10 + i as u32, kind: UserKind::Publish { qos: *q } }).collect();
                    let mut first = ConnScript::well_behaved(false);
                    first.auto_pubrel = false;
                    let mut second = ConnScript::well_behaved(session);
                    second.auto_pubrel = false;
                    v.push(Case {
                        seed: 7,
                        v5,
                        keep_alive_s: 5,
                        inflight,
                        cap: 8,
                        conn_timeout_s: 2,
                        throttle_ms: 0,
                        repoll_delay_ms: 0,
                        yield_between: false,
                        conns: vec![first, second],
                        tail_session: true,
                        user,
                        drain_at_ms: 1000,
                        horizon_ms: 1000 + 17_777,
                        snapshots: true,
                        avoid_k2: false,
                        avoid_ack_mismatch: true,
                    });
                }
            }
        }
    }
    v
}

fn enumerate_crash_points(rep: &mut Report, clauses: Clauses, campaign: &'static str) {
    let bases = short_scripts();
    let n_bases = bases.len();
    let mut evals = 0u64;
    let mut max_k = 0u64;
    for base in bases {
        // fault-free run: how many bytes flow in each direction on the first connection
        let Ok(out) = run_case(&base) else { continue };
        let (mut c2b, mut b2c, mut pk) = (0u64, 0u64, 0usize);
        for e in &out.log {
            match &e.rec {
                Rec::Rx { conn: 0, end, .. } => {
                    c2b = c2b.max(*end);
                    pk += 1;
                }
                Rec::Tx { conn: 0, end, .. } => b2c = b2c.max(*end),
                _ => {}
            }
        }
        let _ = pk;
        for (dir, total) in [(Dir::ClientToBroker, c2b), (Dir::BrokerToClient, b2c)] {
            max_k = max_k.max(total);
            for k in 0..=total {
                for reset in [false, true] {
                    if reset && dir == Dir::ClientToBroker {
                        continue;
                    }
                    let mut case = base.clone();
                    case.conns[0].fault = Some(Fault { dir, k: k as u32, reset });
                    let r = match guard("harness", || check_session(&case, clauses)) {
                        Ok(r) => r,
                        Err(f) => Err(f),
                    };
                    evals += 1;
                    rep.evaluations += 1;
                    match r {
                        Ok(f) => {
                            if f.resumed_with_unacked > 0 || f.nosession_with_carried > 0 {
                                rep.enumerated_nontrivial += 1;
                            }
                            *rep.classes.entry(format!("enum_crash:{}", if f.resumed_with_unacked > 0 { "resumed_with_unacked" } else if f.nosession_with_carried > 0 { "no_session_with_carried" } else { "nothing_carried" })).or_insert(0) += 1;
                        }
                        Err(fl) => {
                            if !rep.violations.iter().any(|v| v.failure.signature == fl.signature) {
                                rep.violations.push(FoundViolation {
                                    campaign: campaign.into(),
                                    failure: fl,
                                    case: serde_json::to_value(&case).unwrap(),
                                    shrunk: false,
                                });
                            }
                        }
                    }
                    tick();
                }
            }
        }
    }
    rep.exhaustive_subdomains.push(format!(
        "{evals} scripts: {n_bases} base scripts (v4/v5 x inflight 1..3 x 4 QoS patterns of 3 publishes x session_present true/false; <= 6 client packets on the first connection) x every crash point k = 0..={max_k} bytes client->broker and broker->client (end-of-stream and reset)"
    ));
}

pub fn c02_enumerators() -> Vec<Box<dyn Fn(&mut Report) + Sync>> {
    vec![Box::new(|rep| enumerate_crash_points(rep, C02_CLAUSES, "e7_crash_inorder"))]
}

pub const C02_RULE: &str = " E7 (event loop): scripts for rumqttc's EventLoop (v4 and v5) polled over an in-memory transport under the paused clock: 1-3 bursts of 1-8 user requests (QoS 0/1/2, unique payloads) at generated instants, inflight limit in 1..5 or 10 (v5: receive-maximum below it), 1-4 scripted connections each with generated CONNACK session_present, ack behaviour (per ack opportunity 0-3 acks, oldest first or a generated choice among the outstanding ones, delayed, never, duplicated, unsolicited) and a crash point (transport dies after k bytes client->broker or broker->client, or the broker closes at a generated instant, or refuses/fails the connect); after 3 virtual seconds the broker is well behaved and the loop is polled to quiescence. Exhaustive: every crash point k of 96 short scripts. Oracle at every poll boundary from the public fields: every accepted QoS>0 publish is in the request channel (exact model), `pending`, `state.clone().clean()` or `state.collision` until its final ack was received; exact at failures; nothing resurrected; on the wire retransmissions keep their id and QoS, nothing is sent again on a later connection after its final ack was received, nothing carried over is sent after a session-less CONNACK (the order on the wire is C11's); at quiescence everything owed was acknowledged. Non-trivial (E7): >=1 id collision, or a failure with >=1 unacknowledged QoS>0 publish followed by a resumed session.";

// ------------------------------------------------------------------------------------------ C07

fn nt_c07(f: &Facts, c: &Case) -> Option<String> {
    if f.gate_blocked > 0 && (f.taken_after_unblock > 0 || f.collisions_resolved > 0) {
        Some(format!(
            "{} blocked_by={} resolved={} failures={}",
            ver(c),
            if f.collisions > 0 { "collision" } else { "window" },
            f.collisions_resolved > 0,
            f.failures.min(3)
        ))
    } else {
        None
    }
}

const C07_CLAUSES: Clauses = Clauses { hold: true, quiesce: true, wire: false, before: false, order: false, gate: true, inout: false };

pub fn c07_gate() -> SessionCampaign {
    SessionCampaign {
        name: "e7_gate",
        gen: SessGen {
            in_order: false,
            sub_w: 1,
            qos_w: [1, 5, 2],
            p_fault: 35,
            max_conns: 3,
            max_burst: 8,
            p_bad_ack: 2,
            inflights: vec![1, 2, 2, 3, 3, 4, 5],
            ..SessGen::default()
        },
        clauses: C07_CLAUSES,
        quick: 30_000,
        thorough: 900_000,
        nontrivial: nt_c07,
        probes: vec![],
        shape: None,
    }
}

/// K2 seen from C07: requests carried from the channel into `pending` are taken although the
/// window is full / a collision is unresolved
pub fn c07_k2_probe() -> SessionCampaign {
    SessionCampaign {
        name: "e7_gate_k2_probe",
        gen: SessGen {
            in_order: true,
            avoid_k2: false,
            p_session: 100,
            p_fault: 90,
            qos_w: [0, 5, 1],
            inflights: vec![1, 2, 2, 3],
            ..SessGen::default()
        },
        clauses: C07_CLAUSES,
        quick: 3_000,
        thorough: 60_000,
        nontrivial: |f, c| if f.k2_region_entered { Some(format!("{} k2_region", ver(c))) } else { None },
        probes: vec![
            "gate_closed_but_request_taken:v4:carried:*",
            "gate_closed_but_request_taken:v5:carried:*",
            "window_exceeded:v4",
            "window_exceeded:v5",
            "lost_publish:v4:blocked_publish_overwritten_by_second_collision",
            "lost_publish:v5:blocked_publish_overwritten_by_second_collision",
        ],
        shape: None,
    }
}

pub fn c07_campaigns() -> Vec<Box<dyn DynCampaign>> {
    vec![Box::new(c07_gate()), Box::new(c07_k2_probe())]
}

pub fn c07_enumerators() -> Vec<Box<dyn Fn(&mut Report) + Sync>> {
    vec![]
}

pub const C07_RULE: &str = " E7 (event loop, the gate): the same scripted-broker cases as C02-E7 biased to bursts larger than the window and out-of-order acks. From the public fields at each poll boundary and the notifications generated by the next poll(): whenever the loop announces a request that is new (taken from the channel, or a channel request carried into `pending`), at the previous boundary fewer than min(limit, receive-maximum) publishes/releases were unacknowledged and no collision was pending; `state.inflight()` equals the number actually held and never exceeds the limit; a pending collision always has a holder of its id among the unacknowledged publishes/releases; with room in the window, no collision and a request waiting, the next poll() returns without virtual time passing; at quiescence everything was taken and acknowledged. Non-trivial (E7): a request waited behind a full window or a collision and was taken at the instant the ack arrived / the collision was resolved.";

// ------------------------------------------------------------------------------------------ C10

fn nt_c10(f: &Facts, c: &Case) -> Option<String> {
    if f.max_batch_in >= 10 || (f.qos2_in_completed > 0 && f.rejected_acks > 0) {
        Some(format!(
            "{} batch>=10:{} qos2_in:{} rejected:{} failures:{}",
            ver(c),
            f.max_batch_in >= 10,
            f.qos2_in_completed > 0,
            f.rejected_acks > 0,
            f.failures.min(3)
        ))
    } else {
        None
    }
}

const C10_CLAUSES: Clauses = Clauses { hold: false, quiesce: false, wire: false, before: false, order: false, gate: false, inout: true };

pub fn c10_batches() -> SessionCampaign {
    SessionCampaign {
        name: "e7_batches",
        gen: SessGen {
            in_order: false,
            inflights: vec![1, 2, 2, 3, 3, 4, 5],
            qos_w: [2, 4, 2],
            p_fault: 30,
            max_conns: 3,
            max_bursts: 2,
            max_burst: 4,
            p_bad_ack: 3,
            max_pushes: 5,
            max_batch: 12,
            p_bad_push: 4,
            ..SessGen::default()
        },
        clauses: C10_CLAUSES,
        quick: 25_000,
        thorough: 750_000,
        nontrivial: nt_c10,
        probes: vec![],
        shape: None,
    }
}

pub fn c10_campaigns() -> Vec<Box<dyn DynCampaign>> {
    vec![Box::new(c10_batches())]
}

pub fn c10_enumerators() -> Vec<Box<dyn Fn(&mut Report) + Sync>> {
    vec![]
}

pub const C10_RULE: &str = " E7 (event loop): the scripted broker writes batches of 0..12 packets with one write call (QoS 0/1/2 publishes, PUBREL of open inbound flows, PINGRESP, a few unsolicited PUBACK/PUBREC/PUBCOMP/PUBREL/SUBACK), crossing the 10-packet read batch, interleaved with user publishes, read-side and write-side crash points. Per connection: the notifications `Incoming(..)` generated by poll() are a prefix of what the broker wrote, in wire order, each once, complete when the connection did not fail; the packets the broker decodes are exactly the `Outgoing(..)` announcements, in order (complete for connections that did not fail); whenever poll() returns, the transport has already accepted the bytes of every packet announced so far; QoS 1/2 publishes and known-id PUBRELs have their PUBACK/PUBREC/PUBCOMP announced; nothing stays queued at the end. Non-trivial (E7): a batch of >= 10 packets was delivered, or an inbound QoS 2 flow completed and an unsolicited ack was rejected.";

// ------------------------------------------------------------------------------------------ C11

fn nt_c11(f: &Facts, c: &Case) -> Option<String> {
    if f.carried_wrapped || (f.replay_interrupted && f.resumed_with_unacked > 0) {
        Some(format!(
            "{} wrapped={} replay_interrupted={} queued={} nosession={}",
            ver(c),
            f.carried_wrapped,
            f.replay_interrupted,
            f.max_queued_at_failure.min(4),
            f.nosession_with_carried > 0
        ))
    } else {
        None
    }
}

const C11_CLAUSES: Clauses = Clauses { hold: true, quiesce: true, wire: true, before: true, order: true, gate: false, inout: false };

/// v4, QoS 1, in-order acks: original order across id wrap-around
pub fn c11_order() -> SessionCampaign {
    SessionCampaign {
        name: "e7_resume_order",
        gen: SessGen {
            v5: Some(false),
            in_order: true,
            qos_w: [1, 8, 0],
            p_session: 85,
            p_fault: 85,
            max_bursts: 4,
            max_burst: 8,
            p_bad_ack: 2,
            inflights: vec![2, 3, 3, 4, 5, 10],
            ..SessGen::default()
        },
        clauses: C11_CLAUSES,
        quick: 25_000,
        thorough: 750_000,
        nontrivial: nt_c11,
        probes: vec![],
        shape: None,
    }
}

/// both versions, QoS 1/2, any ack order: retransmissions before new requests, nothing after a
/// session-less CONNACK
pub fn c11_before() -> SessionCampaign {
    SessionCampaign {
        name: "e7_resume_before",
        gen: SessGen { in_order: false, qos_w: [1, 5, 3], p_fault: 85, max_bursts: 4, inflights: vec![2, 3, 3, 4, 5], ..SessGen::default() },
        clauses: Clauses { order: false, ..C11_CLAUSES },
        quick: 25_000,
        thorough: 750_000,
        nontrivial: nt_c11,
        probes: vec![],
        shape: None,
    }
}

pub fn c11_campaigns() -> Vec<Box<dyn DynCampaign>> {
    vec![Box::new(c11_order()), Box::new(c11_before())]
}

pub fn c11_enumerators() -> Vec<Box<dyn Fn(&mut Report) + Sync>> {
    vec![]
}

pub const C11_RULE: &str = " E7 (event loop): the C02-E7 scripts with 1-4 bursts (so that requests are issued before, at and after each failure, 0..8 still in the channel when it happens) and 1-4 successive connections. On every resumed connection the broker-side wire shows each publish that had been in flight (same id and payload) and each pending PUBREL before any publish that had never been sent; for v4 / QoS 1 / acks oldest-first the retransmissions appear in the order in which the requests were originally taken, also after ids wrapped and after a failure during the replay; after a CONNACK without session none of the carried-over requests is ever sent and the client state is empty. Non-trivial (E7): a resumed connection carrying >= 2 in-flight publishes whose ids had wrapped, or a failure during the replay of carried requests.";

