//! One abstraction over the two event loops (v4 / v5): construction from a `Case`, `poll()` with a
//! normalised result, snapshot of the public fields, user requests, broker-side codec.

use super::*;
use bytes::BytesMut;
use std::future::Future;
use std::time::Duration;

pub trait Proto: 'static {
    type Loop;
    type Client: Send + Sync + 'static;
    fn make(case: &Case) -> (Self::Client, Self::Loop);
    fn poll(el: &mut Self::Loop) -> impl Future<Output = Result<Ev, ErrK>>;
    fn snap(el: &Self::Loop) -> Snap;
    /// submits user request `u`; true = accepted by the channel
    fn submit(c: &Self::Client, u: usize, kind: UserKind) -> bool;
    /// Ok(None) = need more bytes
    fn decode(buf: &mut BytesMut) -> Result<Option<Pkt>, String>;
    fn encode(p: &Pkt, buf: &mut BytesMut);
}

pub struct V4;
pub struct V5;

const TOPIC: &str = "t/x";

// ------------------------------------------------------------------------------------------ v4

mod c4 {
    pub use rumqttc::mqttbytes::v4::*;
    pub use rumqttc::mqttbytes::{Error, QoS};
    pub use rumqttc::{AsyncClient, ConnectionError, Event, EventLoop, MqttOptions, NetworkOptions, Outgoing, Request, StateError};
}

fn qos4(q: u8) -> c4::QoS {
    match q {
        0 => c4::QoS::AtMostOnce,
        1 => c4::QoS::AtLeastOnce,
        _ => c4::QoS::ExactlyOnce,
    }
}

fn pkt_from4(p: &c4::Packet) -> Pkt {
    use c4::Packet as P;
    match p {
        P::Connect(c) => Pkt::Connect { keep_alive: c.keep_alive, clean: c.clean_session },
        P::ConnAck(c) => Pkt::ConnAck {
            session_present: c.session_present,
            code: c.code as u8,
            receive_max: None,
            server_keep_alive: None,
        },
        P::Publish(p) => Pkt::Publish {
            pkid: p.pkid,
            qos: p.qos as u8,
            dup: p.dup,
            payload: String::from_utf8_lossy(&p.payload).into_owned(),
        },
        P::PubAck(a) => Pkt::PubAck(a.pkid),
        P::PubRec(a) => Pkt::PubRec(a.pkid),
        P::PubRel(a) => Pkt::PubRel(a.pkid),
        P::PubComp(a) => Pkt::PubComp(a.pkid),
        P::Subscribe(s) => Pkt::Subscribe { pkid: s.pkid, n: s.filters.len() },
        P::SubAck(s) => Pkt::SubAck { pkid: s.pkid, n: s.return_codes.len() },
        P::Unsubscribe(u) => Pkt::Unsubscribe { pkid: u.pkid },
        P::UnsubAck(u) => Pkt::UnsubAck(u.pkid),
        P::PingReq => Pkt::PingReq,
        P::PingResp => Pkt::PingResp,
        P::Disconnect => Pkt::Disconnect,
    }
}

fn pkt_to4(p: &Pkt) -> c4::Packet {
    use c4::Packet as P;
    match p {
        Pkt::ConnAck { session_present, code, .. } => P::ConnAck(c4::ConnAck {
            session_present: *session_present,
            code: if *code == 0 { c4::ConnectReturnCode::Success } else { c4::ConnectReturnCode::NotAuthorized },
        }),
        Pkt::Publish { pkid, qos, dup, payload } => {
            let mut publ = c4::Publish::new(TOPIC, qos4(*qos), payload.clone().into_bytes());
            publ.pkid = *pkid;
            publ.dup = *dup;
            P::Publish(publ)
        }
        Pkt::PubAck(id) => P::PubAck(c4::PubAck::new(*id)),
        Pkt::PubRec(id) => P::PubRec(c4::PubRec::new(*id)),
        Pkt::PubRel(id) => P::PubRel(c4::PubRel::new(*id)),
        Pkt::PubComp(id) => P::PubComp(c4::PubComp::new(*id)),
        Pkt::SubAck { pkid, n } => P::SubAck(c4::SubAck::new(
            *pkid,
            vec![c4::SubscribeReasonCode::Success(c4::QoS::AtLeastOnce); (*n).max(1)],
        )),
        Pkt::UnsubAck(id) => P::UnsubAck(c4::UnsubAck::new(*id)),
        Pkt::PingResp => P::PingResp,
        Pkt::PingReq => P::PingReq,
        Pkt::Disconnect => P::Disconnect,
        other => panic!("scripted broker cannot encode {other:?}"),
    }
}

fn out_from4(o: &c4::Outgoing) -> Out {
    use c4::Outgoing as O;
    match o {
        O::Publish(i) => Out::Publish(*i),
        O::Subscribe(i) => Out::Subscribe(*i),
        O::Unsubscribe(i) => Out::Unsubscribe(*i),
        O::PubAck(i) => Out::PubAck(*i),
        O::PubRec(i) => Out::PubRec(*i),
        O::PubRel(i) => Out::PubRel(*i),
        O::PubComp(i) => Out::PubComp(*i),
        O::PingReq => Out::PingReq,
        O::PingResp => Out::PingResp,
        O::Disconnect => Out::Disconnect,
        O::AwaitAck(i) => Out::AwaitAck(*i),
    }
}

fn ev_from4(e: &c4::Event) -> Ev {
    match e {
        c4::Event::Incoming(p) => Ev::In(pkt_from4(p)),
        c4::Event::Outgoing(o) => Ev::Out(out_from4(o)),
    }
}

fn req_from4(r: &c4::Request) -> Req {
    match r {
        c4::Request::Publish(p) => Req::Publish {
            pkid: p.pkid,
            qos: p.qos as u8,
            payload: String::from_utf8_lossy(&p.payload).into_owned(),
        },
        c4::Request::PubRel(p) => Req::PubRel(p.pkid),
        c4::Request::Subscribe(_) => Req::Subscribe,
        c4::Request::Unsubscribe(_) => Req::Unsubscribe,
        other => Req::Other(format!("{other:?}").chars().take(24).collect()),
    }
}

/// `MqttState::clean()` hands the publish parked in `collision` back together with the in-flight
/// ones; the snapshot keeps the two apart (`held` = in flight, `collision` = parked)
fn remove_collision(held: &mut Vec<Req>, collision: Option<(u16, String)>) {
    if let Some((id, pl)) = collision {
        if let Some(i) = held.iter().rposition(|r| matches!(r, Req::Publish { pkid, payload, .. } if *pkid == id && *payload == pl)) {
            held.remove(i);
        }
    }
}

fn io_kind(e: &std::io::Error) -> String {
    format!("{:?}", e.kind())
}

fn err_from4(e: &c4::ConnectionError) -> ErrK {
    use c4::ConnectionError as C;
    use c4::StateError as S;
    match e {
        C::MqttState(s) => match s {
            S::AwaitPingResp => ErrK::AwaitPingResp,
            S::CollisionTimeout => ErrK::CollisionTimeout,
            S::Unsolicited(i) => ErrK::Unsolicited(*i),
            S::ConnectionAborted => ErrK::ConnectionAborted,
            S::WrongPacket => ErrK::WrongPacket,
            S::Io(e) => ErrK::StateIo(io_kind(e)),
            S::Deserialization(c4::Error::Io(e)) => ErrK::StateIo(io_kind(e)),
            S::Deserialization(e) => ErrK::Deserialization(format!("{e:?}").chars().take(40).collect()),
            other => ErrK::StateOther(format!("{other:?}").chars().take(40).collect()),
        },
        C::NetworkTimeout => ErrK::ConnectTimeout,
        C::FlushTimeout => ErrK::FlushTimeout,
        C::Io(e) => ErrK::Io(io_kind(e)),
        C::ConnectionRefused(_) => ErrK::ConnectionRefused,
        C::NotConnAck(_) => ErrK::NotConnAck,
        C::RequestsDone => ErrK::RequestsDone,
    }
}

impl Proto for V4 {
    type Loop = c4::EventLoop;
    type Client = c4::AsyncClient;

    fn make(case: &Case) -> (c4::AsyncClient, c4::EventLoop) {
        let mut o = c4::MqttOptions::new("verif-client", "in-memory", 1883);
        o.set_keep_alive(Duration::from_secs(case.keep_alive_s as u64));
        o.set_inflight(case.inflight);
        o.set_clean_session(false);
        o.set_pending_throttle(Duration::from_millis(case.throttle_ms as u64));
        let (c, mut el) = c4::AsyncClient::new(o, case.cap as usize);
        let mut n = c4::NetworkOptions::new();
        n.set_connection_timeout(case.conn_timeout_s as u64);
        el.set_network_options(n);
        (c, el)
    }

    async fn poll(el: &mut c4::EventLoop) -> Result<Ev, ErrK> {
        match el.poll().await {
            Ok(e) => Ok(ev_from4(&e)),
            Err(e) => Err(err_from4(&e)),
        }
    }

    fn snap(el: &c4::EventLoop) -> Snap {
        let mut st = el.state.clone();
        let mut held: Vec<Req> = st.clean().iter().map(req_from4).collect();
        remove_collision(&mut held, el.state.collision.as_ref().map(|p| (p.pkid, String::from_utf8_lossy(&p.payload).into_owned())));
        Snap {
            pending: el.pending.iter().map(req_from4).collect(),
            held,
            collision: el.state.collision.as_ref().map(|p| Req::Publish {
                pkid: p.pkid,
                qos: p.qos as u8,
                payload: String::from_utf8_lossy(&p.payload).into_owned(),
            }),
            inflight: el.state.inflight(),
            queued: el.state.events.iter().map(ev_from4).collect(),
            await_pingresp: el.state.await_pingresp,
        }
    }

    fn submit(c: &c4::AsyncClient, u: usize, kind: UserKind) -> bool {
        match kind {
            UserKind::Publish { qos } => c.try_publish(TOPIC, qos4(qos), false, payload_of_user(u).into_bytes()).is_ok(),
            UserKind::Subscribe => c.try_subscribe(format!("s/{u}"), c4::QoS::AtLeastOnce).is_ok(),
            UserKind::Unsubscribe => c.try_unsubscribe(format!("s/{u}")).is_ok(),
        }
    }

    fn decode(buf: &mut BytesMut) -> Result<Option<Pkt>, String> {
        match c4::Packet::read(buf, 1 << 20) {
            Ok(p) => Ok(Some(pkt_from4(&p))),
            Err(c4::Error::InsufficientBytes(_)) => Ok(None),
            Err(e) => Err(format!("{e:?}")),
        }
    }

    fn encode(p: &Pkt, buf: &mut BytesMut) {
        pkt_to4(p).write(buf, 1 << 20).expect("scripted broker encodes a valid packet");
    }
}

// ------------------------------------------------------------------------------------------ v5

mod c5 {
    pub use rumqttc::v5::mqttbytes::v5::*;
    pub use rumqttc::v5::mqttbytes::{Error, QoS};
    pub use rumqttc::v5::{AsyncClient, ConnectionError, Event, EventLoop, MqttOptions, Request, StateError};
    pub use rumqttc::Outgoing;
}

fn qos5(q: u8) -> c5::QoS {
    match q {
        0 => c5::QoS::AtMostOnce,
        1 => c5::QoS::AtLeastOnce,
        _ => c5::QoS::ExactlyOnce,
    }
}

fn pkt_from5(p: &c5::Packet) -> Pkt {
    use c5::Packet as P;
    match p {
        P::Connect(c, _, _) => Pkt::Connect { keep_alive: c.keep_alive, clean: c.clean_start },
        P::ConnAck(c) => Pkt::ConnAck {
            session_present: c.session_present,
            code: if c.code == c5::ConnectReturnCode::Success { 0 } else { 1 },
            receive_max: c.properties.as_ref().and_then(|p| p.receive_max),
            server_keep_alive: c.properties.as_ref().and_then(|p| p.server_keep_alive),
        },
        P::Publish(p) => Pkt::Publish {
            pkid: p.pkid,
            qos: p.qos as u8,
            dup: p.dup,
            payload: String::from_utf8_lossy(&p.payload).into_owned(),
        },
        P::PubAck(a) => Pkt::PubAck(a.pkid),
        P::PubRec(a) => Pkt::PubRec(a.pkid),
        P::PubRel(a) => Pkt::PubRel(a.pkid),
        P::PubComp(a) => Pkt::PubComp(a.pkid),
        P::Subscribe(s) => Pkt::Subscribe { pkid: s.pkid, n: s.filters.len() },
        P::SubAck(s) => Pkt::SubAck { pkid: s.pkid, n: s.return_codes.len() },
        P::Unsubscribe(u) => Pkt::Unsubscribe { pkid: u.pkid },
        P::UnsubAck(u) => Pkt::UnsubAck(u.pkid),
        P::PingReq(_) => Pkt::PingReq,
        P::PingResp(_) => Pkt::PingResp,
        P::Disconnect(_) => Pkt::Disconnect,
        P::Auth(_) => Pkt::Other("Auth".into()),
    }
}

fn pkt_to5(p: &Pkt) -> c5::Packet {
    use c5::Packet as P;
    match p {
        Pkt::ConnAck { session_present, code, receive_max, server_keep_alive } => {
            let properties = if receive_max.is_some() || server_keep_alive.is_some() {
                Some(c5::ConnAckProperties {
                    session_expiry_interval: None,
                    receive_max: *receive_max,
                    max_qos: None,
                    retain_available: None,
                    max_packet_size: None,
                    assigned_client_identifier: None,
                    topic_alias_max: None,
                    reason_string: None,
                    user_properties: vec![],
                    wildcard_subscription_available: None,
                    subscription_identifiers_available: None,
                    shared_subscription_available: None,
                    server_keep_alive: *server_keep_alive,
                    response_information: None,
                    server_reference: None,
                    authentication_method: None,
                    authentication_data: None,
                })
            } else {
                None
            };
            P::ConnAck(c5::ConnAck {
                session_present: *session_present,
                code: if *code == 0 { c5::ConnectReturnCode::Success } else { c5::ConnectReturnCode::NotAuthorized },
                properties,
            })
        }
        Pkt::Publish { pkid, qos, dup, payload } => {
            let mut publ = c5::Publish::new(TOPIC, qos5(*qos), payload.clone().into_bytes(), None);
            publ.pkid = *pkid;
            publ.dup = *dup;
            P::Publish(publ)
        }
        Pkt::PubAck(id) => P::PubAck(c5::PubAck::new(*id, None)),
        Pkt::PubRec(id) => P::PubRec(c5::PubRec::new(*id, None)),
        Pkt::PubRel(id) => P::PubRel(c5::PubRel::new(*id, None)),
        Pkt::PubComp(id) => P::PubComp(c5::PubComp::new(*id, None)),
        Pkt::SubAck { pkid, n } => P::SubAck(c5::SubAck {
            pkid: *pkid,
            return_codes: vec![c5::SubscribeReasonCode::Success(c5::QoS::AtLeastOnce); (*n).max(1)],
            properties: None,
        }),
        Pkt::UnsubAck(id) => P::UnsubAck(c5::UnsubAck { pkid: *id, reasons: vec![c5::UnsubAckReason::Success], properties: None }),
        Pkt::PingResp => P::PingResp(c5::PingResp),
        Pkt::PingReq => P::PingReq(c5::PingReq),
        other => panic!("scripted broker cannot encode {other:?}"),
    }
}

fn out_from5(o: &c5::Outgoing) -> Out {
    use c5::Outgoing as O;
    match o {
        O::Publish(i) => Out::Publish(*i),
        O::Subscribe(i) => Out::Subscribe(*i),
        O::Unsubscribe(i) => Out::Unsubscribe(*i),
        O::PubAck(i) => Out::PubAck(*i),
        O::PubRec(i) => Out::PubRec(*i),
        O::PubRel(i) => Out::PubRel(*i),
        O::PubComp(i) => Out::PubComp(*i),
        O::PingReq => Out::PingReq,
        O::PingResp => Out::PingResp,
        O::Disconnect => Out::Disconnect,
        O::AwaitAck(i) => Out::AwaitAck(*i),
    }
}

fn ev_from5(e: &c5::Event) -> Ev {
    match e {
        c5::Event::Incoming(p) => Ev::In(pkt_from5(p)),
        c5::Event::Outgoing(o) => Ev::Out(out_from5(o)),
    }
}

fn req_from5(r: &c5::Request) -> Req {
    match r {
        c5::Request::Publish(p) => Req::Publish {
            pkid: p.pkid,
            qos: p.qos as u8,
            payload: String::from_utf8_lossy(&p.payload).into_owned(),
        },
        c5::Request::PubRel(p) => Req::PubRel(p.pkid),
        c5::Request::Subscribe(_) => Req::Subscribe,
        c5::Request::Unsubscribe(_) => Req::Unsubscribe,
        other => Req::Other(format!("{other:?}").chars().take(24).collect()),
    }
}

fn err_from5(e: &c5::ConnectionError) -> ErrK {
    use c5::ConnectionError as C;
    use c5::StateError as S;
    match e {
        C::MqttState(s) => match s {
            S::AwaitPingResp => ErrK::AwaitPingResp,
            S::CollisionTimeout => ErrK::CollisionTimeout,
            S::Unsolicited(i) => ErrK::Unsolicited(*i),
            S::ConnectionAborted => ErrK::ConnectionAborted,
            S::WrongPacket => ErrK::WrongPacket,
            S::Io(e) => ErrK::StateIo(io_kind(e)),
            S::Deserialization(c5::Error::Io(e)) => ErrK::StateIo(io_kind(e)),
            S::Deserialization(e) => ErrK::Deserialization(format!("{e:?}").chars().take(40).collect()),
            S::ServerDisconnect { .. } => ErrK::ServerDisconnect,
            other => ErrK::StateOther(format!("{other:?}").chars().take(40).collect()),
        },
        C::Timeout(_) => ErrK::ConnectTimeout,
        C::Io(e) => ErrK::Io(io_kind(e)),
        C::ConnectionRefused(_) => ErrK::ConnectionRefused,
        C::NotConnAck(_) => ErrK::NotConnAck,
        C::RequestsDone => ErrK::RequestsDone,
    }
}

impl Proto for V5 {
    type Loop = c5::EventLoop;
    type Client = c5::AsyncClient;

    fn make(case: &Case) -> (c5::AsyncClient, c5::EventLoop) {
        let mut o = c5::MqttOptions::new("verif-client", "in-memory", 1883);
        // the v5 options accept keep-alive >= 5 s only; smaller values (and 0) can only come
        // from the CONNACK's server-keep-alive, which the script supplies
        o.set_keep_alive(Duration::from_secs(case.keep_alive_s.max(5) as u64));
        o.set_outgoing_inflight_upper_limit(case.inflight);
        o.set_clean_start(false);
        o.set_pending_throttle(Duration::from_millis(case.throttle_ms as u64));
        o.set_connection_timeout(case.conn_timeout_s as u64);
        c5::AsyncClient::new(o, case.cap as usize)
    }

    async fn poll(el: &mut c5::EventLoop) -> Result<Ev, ErrK> {
        match el.poll().await {
            Ok(e) => Ok(ev_from5(&e)),
            Err(e) => Err(err_from5(&e)),
        }
    }

    fn snap(el: &c5::EventLoop) -> Snap {
        let mut st = el.state.clone();
        let mut held: Vec<Req> = st.clean().iter().map(req_from5).collect();
        remove_collision(&mut held, el.state.collision.as_ref().map(|p| (p.pkid, String::from_utf8_lossy(&p.payload).into_owned())));
        Snap {
            pending: el.pending.iter().map(req_from5).collect(),
            held,
            collision: el.state.collision.as_ref().map(|p| Req::Publish {
                pkid: p.pkid,
                qos: p.qos as u8,
                payload: String::from_utf8_lossy(&p.payload).into_owned(),
            }),
            inflight: el.state.inflight(),
            queued: el.state.events.iter().map(ev_from5).collect(),
            await_pingresp: el.state.await_pingresp,
        }
    }

    fn submit(c: &c5::AsyncClient, u: usize, kind: UserKind) -> bool {
        match kind {
            UserKind::Publish { qos } => c.try_publish(TOPIC, qos5(qos), false, payload_of_user(u).into_bytes()).is_ok(),
            UserKind::Subscribe => c.try_subscribe(format!("s/{u}"), c5::QoS::AtLeastOnce).is_ok(),
            UserKind::Unsubscribe => c.try_unsubscribe(format!("s/{u}")).is_ok(),
        }
    }

    fn decode(buf: &mut BytesMut) -> Result<Option<Pkt>, String> {
        match c5::Packet::read(buf, None) {
            Ok(p) => Ok(Some(pkt_from5(&p))),
            Err(c5::Error::InsufficientBytes(_)) => Ok(None),
            Err(e) => Err(format!("{e:?}")),
        }
    }

    fn encode(p: &Pkt, buf: &mut BytesMut) {
        pkt_to5(p).write(buf, None).expect("scripted broker encodes a valid packet");
    }
}
