//! Executes one case: fresh paused runtime, connector installed, environment spawned, `poll()` loop.

use super::env::{env_task, Accepted, FaultStream, Shared};
use super::proto::{Proto, V4, V5};
use super::*;
use crate::engine::{guard, Failure};
use std::sync::atomic::{AtomicUsize, Ordering};
use std::sync::Arc;
use tokio::runtime::{Builder, RngSeed};
use tokio::time::{Duration, Instant};

pub const MAX_POLLS: usize = 20_000;

pub struct Outcome {
    pub log: Log,
    /// number of `poll()` calls that returned
    pub polls: usize,
    /// the poll budget was exhausted before the virtual horizon
    pub poll_budget_exhausted: bool,
}

fn run_generic<P: Proto>(case: &Case) -> Outcome {
    let rt = Builder::new_current_thread()
        .enable_time()
        .start_paused(true)
        .rng_seed(RngSeed::from_bytes(&case.seed.to_le_bytes()))
        .build()
        .expect("runtime");
    let case = Arc::new(case.clone());
    let out = rt.block_on(async {
        let sh = Arc::new(Shared::new());
        let (tx, rx) = tokio::sync::mpsc::unbounded_channel::<Accepted>();
        let (client, mut el) = P::make(&case);
        let attempts = Arc::new(AtomicUsize::new(0));
        {
            let sh = sh.clone();
            let case = case.clone();
            let attempts = attempts.clone();
            rumqttc::verif::set_connector(move || {
                let conn = attempts.fetch_add(1, Ordering::Relaxed);
                sh.push(Rec::ConnAttempt { conn });
                let script = if sh.draining() { ConnScript::well_behaved(case.tail_session) } else { case.script(conn) };
                match script.connect {
                    ConnectB::NeverResolve => Box::pin(std::future::pending()),
                    ConnectB::IoError => Box::pin(std::future::ready(Err(std::io::Error::new(
                        std::io::ErrorKind::ConnectionRefused,
                        "scripted connect error",
                    )))),
                    _ => {
                        let (a, b) = tokio::io::duplex(1 << 16);
                        let fs = FaultStream::new(a, script.fault, conn, sh.clone());
                        let _ = tx.send(Accepted { conn, stream: b, script });
                        let s: rumqttc::verif::Stream = Box::new(fs);
                        Box::pin(std::future::ready(Ok(s)))
                    }
                }
            });
        }
        let env = tokio::spawn(env_task::<P>(sh.clone(), case.clone(), client, rx));
        let deadline = sh.start + Duration::from_millis(case.horizon_ms as u64);
        let mut polls = 0usize;
        let mut exhausted = false;
        loop {
            if Instant::now() >= deadline {
                break;
            }
            if polls >= MAX_POLLS {
                exhausted = true;
                break;
            }
            let res = match tokio::time::timeout_at(deadline, P::poll(&mut el)).await {
                Err(_) => break,
                Ok(r) => r,
            };
            polls += 1;
            let is_err = res.is_err();
            let snap = if case.snapshots { Some(P::snap(&el)) } else { None };
            if case.avoid_k2 && is_err {
                if let Some(sn) = &snap {
                    let region = super::oracle::k2_region(&case, sn);
                    sh.downgrade_session.store(region, Ordering::Relaxed);
                }
            }
            let wbytes = sh.wbytes.load(Ordering::Relaxed);
            sh.push(Rec::Poll { res, snap, wbytes });
            if is_err && case.repoll_delay_ms > 0 {
                tokio::time::sleep(Duration::from_millis(case.repoll_delay_ms as u64)).await;
            } else if case.yield_between {
                tokio::task::yield_now().await;
            }
        }
        // grace phase: whatever is due at the horizon instant itself is still processed (the
        // clock does not advance any more: a zero timeout only polls once), so that the log
        // does not end in the middle of an exchange
        let mut idle_rounds = 0;
        while idle_rounds < 2 && polls < MAX_POLLS {
            tokio::task::yield_now().await;
            match tokio::time::timeout(Duration::ZERO, P::poll(&mut el)).await {
                Ok(res) => {
                    polls += 1;
                    idle_rounds = 0;
                    let snap = if case.snapshots { Some(P::snap(&el)) } else { None };
                    let wbytes = sh.wbytes.load(Ordering::Relaxed);
                    sh.push(Rec::Poll { res, snap, wbytes });
                }
                Err(_) => idle_rounds += 1,
            }
        }
        env.abort();
        rumqttc::verif::clear_connector();
        drop(el);
        let log = std::mem::take(&mut *sh.log.lock().unwrap());
        Outcome { log, polls, poll_budget_exhausted: exhausted }
    });
    rumqttc::verif::clear_connector();
    out
}

/// Runs the case against the event loop of the protocol version it names. A panic anywhere in
/// the client code becomes a Failure (`panic:poll:...`).
pub fn run_case(case: &Case) -> Result<Outcome, Failure> {
    let r = guard("poll", || if case.v5 { run_generic::<V5>(case) } else { run_generic::<V4>(case) });
    if r.is_err() {
        rumqttc::verif::clear_connector();
    }
    r
}

/// Compact rendering of a log for failure details
pub fn render(log: &Log, max: usize) -> String {
    let mut s = String::new();
    // debugging aid only (never influences a verdict): VERIF_TRACE_LINES=n widens the excerpt
    let max = std::env::var("VERIF_TRACE_LINES").ok().and_then(|v| v.parse().ok()).unwrap_or(max);
    let skip = log.len().saturating_sub(max);
    for e in log.iter().skip(skip) {
        let line = match &e.rec {
            Rec::Poll { res, snap, .. } => match snap {
                Some(sn) => format!(
                    "poll -> {res:?} [pending={:?} held={:?} collision={:?} inflight={} queued={}]",
                    sn.pending, sn.held, sn.collision, sn.inflight, sn.queued.len()
                ),
                None => format!("poll -> {res:?}"),
            },
            other => format!("{other:?}"),
        };
        s.push_str(&format!("\n  @{} {}", e.t, line));
    }
    s
}
