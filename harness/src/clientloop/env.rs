//! The environment of the event loop: fault-injecting transport, scripted broker, simulated user.

use super::proto::Proto;
use super::*;
use crate::engine::idx;
use bytes::BytesMut;
use std::collections::BTreeMap;
use std::io;
use std::pin::Pin;
use std::sync::atomic::{AtomicBool, AtomicU64, Ordering};
use std::sync::{Arc, Mutex};
use std::task::{Context, Poll, Waker};
use tokio::io::{AsyncRead, AsyncReadExt, AsyncWrite, AsyncWriteExt, DuplexStream, ReadBuf};
use tokio::sync::mpsc::UnboundedReceiver;
use tokio::time::{Duration, Instant};

pub struct Shared {
    pub start: Instant,
    pub log: Mutex<Log>,
    pub draining: AtomicBool,
    /// bytes the current connection's transport accepted from the client
    pub wbytes: AtomicU64,
    /// set by the test body after a failure that left the client inside the K2 region
    pub downgrade_session: AtomicBool,
}

impl Shared {
    pub fn new() -> Shared {
        Shared { start: Instant::now(), log: Mutex::new(Vec::with_capacity(256)), draining: AtomicBool::new(false), wbytes: AtomicU64::new(0), downgrade_session: AtomicBool::new(false) }
    }
    /// virtual milliseconds since the start of the case
    pub fn now(&self) -> u64 {
        (Instant::now() - self.start).as_millis() as u64
    }
    pub fn push(&self, rec: Rec) {
        let t = self.now();
        self.log.lock().unwrap().push(Entry { t, rec });
    }
    pub fn draining(&self) -> bool {
        self.draining.load(Ordering::Relaxed)
    }
}

// ------------------------------------------------------------------------------------------
// transport handed to the event loop

/// Client end of the in-memory connection. Passes bytes through to a `tokio::io::duplex` and
/// kills the connection after exactly `k` bytes in one direction (what a dying TCP link does:
/// a prefix of the byte stream reaches the peer, then reads end / writes fail).
pub struct FaultStream {
    inner: Option<DuplexStream>,
    wbudget: Option<u64>,
    rbudget: Option<u64>,
    written: u64,
    read: u64,
    reset: bool,
    conn: usize,
    sh: Arc<Shared>,
    read_waker: Option<Waker>,
}

impl FaultStream {
    pub fn new(inner: DuplexStream, fault: Option<Fault>, conn: usize, sh: Arc<Shared>) -> FaultStream {
        let (wbudget, rbudget, reset) = match fault {
            Some(Fault { dir: Dir::ClientToBroker, k, reset }) => (Some(k as u64), None, reset),
            Some(Fault { dir: Dir::BrokerToClient, k, reset }) => (None, Some(k as u64), reset),
            None => (None, None, false),
        };
        sh.wbytes.store(0, Ordering::Relaxed);
        FaultStream { inner: Some(inner), wbudget, rbudget, written: 0, read: 0, reset, conn, sh, read_waker: None }
    }

    fn armed(&self) -> bool {
        !self.sh.draining()
    }

    fn kill(&mut self, dir: Dir) {
        if self.inner.take().is_some() {
            let bytes = if dir == Dir::ClientToBroker { self.written } else { self.read };
            self.sh.push(Rec::Cut { conn: self.conn, dir, bytes });
            if let Some(w) = self.read_waker.take() {
                w.wake();
            }
        }
    }

    fn dead_read(&self) -> Poll<io::Result<()>> {
        if self.reset {
            Poll::Ready(Err(io::Error::new(io::ErrorKind::ConnectionReset, "injected fault")))
        } else {
            Poll::Ready(Ok(()))
        }
    }
}

impl AsyncRead for FaultStream {
    fn poll_read(mut self: Pin<&mut Self>, cx: &mut Context<'_>, buf: &mut ReadBuf<'_>) -> Poll<io::Result<()>> {
        let this = &mut *self;
        if this.inner.is_none() {
            return this.dead_read();
        }
        let limit = match this.rbudget {
            Some(b) if this.armed() => {
                let left = b.saturating_sub(this.read);
                if left == 0 {
                    this.kill(Dir::BrokerToClient);
                    return this.dead_read();
                }
                left.min(buf.remaining() as u64) as usize
            }
            _ => buf.remaining(),
        };
        let mut sub = buf.take(limit);
        let inner = this.inner.as_mut().unwrap();
        match Pin::new(inner).poll_read(cx, &mut sub) {
            Poll::Pending => {
                this.read_waker = Some(cx.waker().clone());
                Poll::Pending
            }
            Poll::Ready(Err(e)) => Poll::Ready(Err(e)),
            Poll::Ready(Ok(())) => {
                let n = sub.filled().len();
                // the bytes were written into the unfilled part of `buf` by the inner stream
                unsafe { buf.assume_init(n) };
                buf.advance(n);
                this.read += n as u64;
                if let Some(b) = this.rbudget {
                    if this.armed() && this.read >= b {
                        this.kill(Dir::BrokerToClient);
                    }
                }
                Poll::Ready(Ok(()))
            }
        }
    }
}

impl AsyncWrite for FaultStream {
    fn poll_write(mut self: Pin<&mut Self>, cx: &mut Context<'_>, data: &[u8]) -> Poll<io::Result<usize>> {
        let this = &mut *self;
        if this.inner.is_none() {
            return Poll::Ready(Err(io::Error::new(io::ErrorKind::BrokenPipe, "injected fault")));
        }
        let limit = match this.wbudget {
            Some(b) if this.armed() => {
                let left = b.saturating_sub(this.written);
                if left == 0 {
                    this.kill(Dir::ClientToBroker);
                    return Poll::Ready(Err(io::Error::new(io::ErrorKind::BrokenPipe, "injected fault")));
                }
                left.min(data.len() as u64) as usize
            }
            _ => data.len(),
        };
        let inner = this.inner.as_mut().unwrap();
        match Pin::new(inner).poll_write(cx, &data[..limit]) {
            Poll::Ready(Ok(n)) => {
                this.written += n as u64;
                this.sh.wbytes.store(this.written, Ordering::Relaxed);
                if let Some(b) = this.wbudget {
                    if this.armed() && this.written >= b {
                        this.kill(Dir::ClientToBroker);
                    }
                }
                Poll::Ready(Ok(n))
            }
            other => other,
        }
    }
    fn poll_flush(mut self: Pin<&mut Self>, cx: &mut Context<'_>) -> Poll<io::Result<()>> {
        match self.inner.as_mut() {
            Some(i) => Pin::new(i).poll_flush(cx),
            None => Poll::Ready(Ok(())),
        }
    }
    fn poll_shutdown(mut self: Pin<&mut Self>, cx: &mut Context<'_>) -> Poll<io::Result<()>> {
        match self.inner.as_mut() {
            Some(i) => Pin::new(i).poll_shutdown(cx),
            None => Poll::Ready(Ok(())),
        }
    }
}

// ------------------------------------------------------------------------------------------
// scripted broker + simulated user

/// What travels from the connector (called inside `poll()`) to the environment task
pub struct Accepted {
    pub conn: usize,
    pub stream: DuplexStream,
    pub script: ConnScript,
}

#[derive(Clone, Copy, Debug, PartialEq, Eq)]
enum FlowKind {
    Ack,
    Rec,
    Comp,
}

#[derive(Clone, Copy, Debug)]
struct Flow {
    kind: FlowKind,
    pkid: u16,
}

struct Conn {
    idx: usize,
    stream: DuplexStream,
    script: ConnScript,
    flows: Vec<Flow>,
    step_i: usize,
    pings: u32,
    idle_gen: u64,
    dead: bool,
    rx_off: u64,
    tx_off: u64,
}

enum Action {
    User(usize),
    ConnAck { conn: usize },
    Write { conn: usize, pkts: Vec<Pkt> },
    Push { conn: usize, i: usize },
    Idle { conn: usize, gen: u64 },
    Close { conn: usize },
    Drain,
}

/// quiet period after which an ack opportunity is created for outstanding flows
const IDLE_MS: u64 = 15;

struct Env<P: Proto> {
    sh: Arc<Shared>,
    case: Arc<Case>,
    client: P::Client,
    conn: Option<Conn>,
    timers: BTreeMap<(u64, u64), Action>,
    seq: u64,
    batch: u64,
    bserial: u64,
}

enum Wake {
    Accepted(Accepted),
    Read(io::Result<usize>),
    Timer,
    Done,
}

pub async fn env_task<P: Proto>(sh: Arc<Shared>, case: Arc<Case>, client: P::Client, mut rx: UnboundedReceiver<Accepted>) {
    let mut env: Env<P> =
        Env { sh: sh.clone(), case: case.clone(), client, conn: None, timers: BTreeMap::new(), seq: 0, batch: 0, bserial: 0 };
    for (u, op) in case.user.iter().enumerate() {
        env.at(op.at_ms as u64, Action::User(u));
    }
    env.at(case.drain_at_ms as u64, Action::Drain);
    let mut rbuf = BytesMut::with_capacity(4096);
    let mut rx_open = true;
    loop {
        let next = env.timers.keys().next().map(|k| k.0);
        let wake = {
            let reading = env.conn.as_mut().filter(|c| !c.dead);
            let have_conn = reading.is_some();
            tokio::select! {
                biased;
                a = rx.recv(), if rx_open => match a { Some(a) => Wake::Accepted(a), None => { rx_open = false; continue } },
                r = async { reading.unwrap().stream.read_buf(&mut rbuf).await }, if have_conn => Wake::Read(r),
                _ = tokio::time::sleep_until(sh.start + Duration::from_millis(next.unwrap_or(0))), if next.is_some() => Wake::Timer,
                else => Wake::Done,
            }
        };
        match wake {
            Wake::Done => break,
            Wake::Accepted(a) => {
                if let Some(old) = env.conn.take() {
                    if !old.dead {
                        sh.push(Rec::Eof { conn: old.idx });
                    }
                }
                rbuf.clear();
                env.conn = Some(Conn {
                    idx: a.conn,
                    stream: a.stream,
                    script: a.script,
                    flows: Vec::new(),
                    step_i: 0,
                    pings: 0,
                    idle_gen: 0,
                    dead: false,
                    rx_off: 0,
                    tx_off: 0,
                });
            }
            Wake::Read(Ok(0)) | Wake::Read(Err(_)) => {
                let c = env.conn.as_mut().unwrap();
                c.dead = true;
                sh.push(Rec::Eof { conn: c.idx });
            }
            Wake::Read(Ok(_)) => loop {
                let before = rbuf.len();
                match P::decode(&mut rbuf) {
                    Ok(Some(p)) => {
                        let c = env.conn.as_mut().unwrap();
                        c.rx_off += (before - rbuf.len()) as u64;
                        env.on_packet(p).await
                    }
                    Ok(None) => break,
                    Err(e) => {
                        let c = env.conn.as_mut().unwrap();
                        sh.push(Rec::Rx { conn: c.idx, pkt: Pkt::Other(format!("undecodable: {e}")), end: c.rx_off });
                        c.dead = true;
                        break;
                    }
                }
                if env.conn.as_ref().map_or(true, |c| c.dead) {
                    break;
                }
            },
            Wake::Timer => {
                let key = *env.timers.keys().next().unwrap();
                let a = env.timers.remove(&key).unwrap();
                env.run(a).await;
            }
        }
    }
}

impl<P: Proto> Env<P> {
    fn at(&mut self, t: u64, a: Action) {
        self.seq += 1;
        self.timers.insert((t, self.seq), a);
    }

    fn live(&mut self, conn: usize) -> Option<&mut Conn> {
        self.conn.as_mut().filter(|c| c.idx == conn && !c.dead)
    }

    async fn write_bytes(&mut self, bytes: &[u8]) {
        if let Some(c) = self.conn.as_mut() {
            if !c.dead && c.stream.write_all(bytes).await.is_err() {
                c.dead = true;
                self.sh.push(Rec::Eof { conn: c.idx });
            }
        }
    }

    /// one write call carrying all `pkts`
    async fn write_pkts(&mut self, pkts: &[Pkt]) {
        let Some(c) = self.conn.as_mut() else { return };
        if c.dead {
            return;
        }
        let conn = c.idx;
        self.batch += 1;
        let mut buf = BytesMut::new();
        for p in pkts {
            P::encode(p, &mut buf);
            self.sh.push(Rec::Tx { conn, pkt: p.clone(), batch: self.batch, end: c.tx_off + buf.len() as u64 });
        }
        c.tx_off += buf.len() as u64;
        self.write_bytes(&buf).await;
    }

    async fn emit(&mut self, pkts: Vec<Pkt>, delay: u64) {
        if pkts.is_empty() {
            return;
        }
        if delay == 0 {
            self.write_pkts(&pkts).await;
        } else {
            let conn = self.conn.as_ref().unwrap().idx;
            let t = self.sh.now() + delay;
            self.at(t, Action::Write { conn, pkts });
        }
    }

    fn arm_idle(&mut self) {
        let now = self.sh.now();
        let draining = self.sh.draining();
        let Some(c) = self.conn.as_mut() else { return };
        let policy_live = draining || c.step_i < c.script.acks.steps.len() || c.script.acks.tail == Tail::InOrder;
        if c.flows.is_empty() || !policy_live || c.dead {
            return;
        }
        c.idle_gen += 1;
        let (conn, gen) = (c.idx, c.idle_gen);
        self.at(now + IDLE_MS, Action::Idle { conn, gen });
    }

    async fn ack_opportunity(&mut self, idle: bool) {
        let draining = self.sh.draining();
        let inflight = self.case.inflight;
        let no_dup = self.case.avoid_ack_mismatch && self.case.mixes_qos();
        let Some(c) = self.conn.as_mut() else { return };
        let mut out = Vec::new();
        let ack_of = |f: Flow| match f.kind {
            FlowKind::Ack => Pkt::PubAck(f.pkid),
            FlowKind::Rec => Pkt::PubRec(f.pkid),
            FlowKind::Comp => Pkt::PubComp(f.pkid),
        };
        let delay;
        if draining || c.step_i >= c.script.acks.steps.len() {
            delay = if draining { 0 } else { c.script.acks.delay_ms as u64 };
            if draining || c.script.acks.tail == Tail::InOrder {
                for f in c.flows.drain(..) {
                    out.push(ack_of(f));
                }
            }
        } else {
            delay = c.script.acks.delay_ms as u64;
            let step = c.script.acks.steps[c.step_i];
            c.step_i += 1;
            let n = if idle { step.n.max(1) } else { step.n };
            for _ in 0..n {
                if c.flows.is_empty() {
                    break;
                }
                let i = idx(step.pick, c.flows.len());
                let f = c.flows.remove(i);
                out.push(ack_of(f));
                if step.dup && !no_dup {
                    out.push(ack_of(f));
                }
            }
            if step.bogus {
                // an id above the limit: unsolicited whatever the timing (an id inside the window
                // could be in use by a publish the broker has not decoded yet)
                let id = inflight + 1;
                out.push(Pkt::PubAck(id));
            }
        }
        self.emit(out, delay).await;
        self.arm_idle();
    }

    async fn on_packet(&mut self, p: Pkt) {
        let draining = self.sh.draining();
        let Some(c) = self.conn.as_mut() else { return };
        let conn = c.idx;
        self.sh.push(Rec::Rx { conn, pkt: p.clone(), end: c.rx_off });
        match p {
            Pkt::Connect { .. } => match c.script.connect.clone() {
                ConnectB::Accept { delay_ms, .. } => {
                    if delay_ms == 0 {
                        self.run(Action::ConnAck { conn }).await;
                    } else {
                        let t = self.sh.now() + delay_ms as u64;
                        self.at(t, Action::ConnAck { conn });
                    }
                }
                ConnectB::Refuse => {
                    let pk = Pkt::ConnAck { session_present: false, code: 5, receive_max: None, server_keep_alive: None };
                    self.write_pkts(&[pk]).await;
                }
                ConnectB::NoAnswer { partial } => {
                    let mut buf = BytesMut::new();
                    P::encode(&Pkt::ConnAck { session_present: false, code: 0, receive_max: None, server_keep_alive: None }, &mut buf);
                    let n = (partial as usize).min(buf.len().saturating_sub(1));
                    let part = buf[..n].to_vec();
                    self.conn.as_mut().unwrap().tx_off += n as u64;
                    self.write_bytes(&part).await;
                }
                ConnectB::NeverResolve | ConnectB::IoError => {}
            },
            Pkt::Publish { qos: 1, pkid, .. } => {
                c.flows.push(Flow { kind: FlowKind::Ack, pkid });
                self.ack_opportunity(false).await;
            }
            Pkt::Publish { qos: 2, pkid, .. } => {
                c.flows.push(Flow { kind: FlowKind::Rec, pkid });
                self.ack_opportunity(false).await;
            }
            Pkt::PubRel(pkid) => {
                c.flows.push(Flow { kind: FlowKind::Comp, pkid });
                self.ack_opportunity(false).await;
            }
            Pkt::PubRec(pkid) => {
                if c.script.auto_pubrel || draining {
                    self.write_pkts(&[Pkt::PubRel(pkid)]).await;
                }
            }
            Pkt::PingReq => {
                let i = c.pings;
                c.pings += 1;
                if draining {
                    self.write_pkts(&[Pkt::PingResp]).await;
                } else if c.script.ping.silent_from.map_or(true, |j| i < j) {
                    let d = &c.script.ping.delays_ms;
                    let delay = d.get(i as usize).or(d.last()).copied().unwrap_or(0) as u64;
                    self.emit(vec![Pkt::PingResp], delay).await;
                }
            }
            Pkt::Subscribe { pkid, n } => self.write_pkts(&[Pkt::SubAck { pkid, n }]).await,
            Pkt::Unsubscribe { pkid } => self.write_pkts(&[Pkt::UnsubAck(pkid)]).await,
            _ => {}
        }
    }

    fn bpkt(&mut self, b: BPkt) -> Pkt {
        match b {
            BPkt::Publish { qos, pkid } => {
                self.bserial += 1;
                Pkt::Publish { pkid: if qos == 0 { 0 } else { pkid.max(1) }, qos, dup: false, payload: format!("b{}", self.bserial) }
            }
            BPkt::PubRel(i) => Pkt::PubRel(i),
            BPkt::PubAck(i) => Pkt::PubAck(i),
            BPkt::PubRec(i) => Pkt::PubRec(i),
            BPkt::PubComp(i) => Pkt::PubComp(i),
            BPkt::PingResp => Pkt::PingResp,
            BPkt::SubAck(i) => Pkt::SubAck { pkid: i, n: 1 },
            BPkt::UnsubAck(i) => Pkt::UnsubAck(i),
        }
    }

    async fn run(&mut self, a: Action) {
        match a {
            Action::User(u) => {
                if !self.sh.draining() {
                    let accepted = P::submit(&self.client, u, self.case.user[u].kind);
                    self.sh.push(Rec::User { u, accepted });
                }
            }
            Action::ConnAck { conn } => {
                let draining = self.sh.draining();
                let tail_session = self.case.tail_session;
                let downgrade = self.case.avoid_k2 && self.sh.downgrade_session.load(Ordering::Relaxed);
                let Some(c) = self.live(conn) else { return };
                let pk = match (&c.script.connect, draining) {
                    (ConnectB::Accept { session_present, receive_max, server_keep_alive, .. }, false) => Pkt::ConnAck {
                        session_present: *session_present && !downgrade,
                        code: 0,
                        receive_max: *receive_max,
                        server_keep_alive: *server_keep_alive,
                    },
                    _ => Pkt::ConnAck { session_present: tail_session && !downgrade, code: 0, receive_max: None, server_keep_alive: None },
                };
                let pushes: Vec<u32> = c.script.pushes.iter().map(|p| p.at_ms).collect();
                let close = c.script.close_at_ms;
                self.write_pkts(&[pk]).await;
                let now = self.sh.now();
                for (i, at) in pushes.into_iter().enumerate() {
                    self.at(now + at as u64, Action::Push { conn, i });
                }
                if let Some(cl) = close {
                    self.at(now + cl as u64, Action::Close { conn });
                }
            }
            Action::Write { conn, pkts } => {
                if self.live(conn).is_some() {
                    self.write_pkts(&pkts).await;
                }
            }
            Action::Push { conn, i } => {
                if self.sh.draining() {
                    return;
                }
                let Some(c) = self.live(conn) else { return };
                let pk = c.script.pushes[i].pkts.clone();
                let pkts: Vec<Pkt> = pk.into_iter().map(|b| self.bpkt(b)).collect();
                if pkts.is_empty() {
                    // a zero-length batch: a write call with no bytes
                    self.write_bytes(&[]).await;
                } else {
                    self.write_pkts(&pkts).await;
                }
            }
            Action::Idle { conn, gen } => {
                if self.live(conn).is_some_and(|c| c.idle_gen == gen && !c.flows.is_empty()) {
                    self.ack_opportunity(true).await;
                }
            }
            Action::Close { conn } => {
                if self.sh.draining() {
                    return;
                }
                if let Some(c) = self.live(conn) {
                    c.dead = true;
                    let idx = c.idx;
                    self.sh.push(Rec::BrokerClose { conn: idx });
                    // dropping the broker end closes both directions
                    self.conn = None;
                }
            }
            Action::Drain => {
                self.sh.draining.store(true, Ordering::Relaxed);
                self.sh.push(Rec::Drain);
                if self.conn.as_ref().is_some_and(|c| !c.dead) {
                    self.ack_opportunity(false).await;
                }
            }
        }
    }
}
