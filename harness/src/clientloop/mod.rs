//! E7 "clientloop": `rumqttc::EventLoop` (v4) and `rumqttc::v5::EventLoop` driven through
//! `poll()` over an in-memory transport (hook H6), under tokio's paused clock with a seeded
//! `select!` order, against a *scripted broker* with fault injection.
//!
//! One case = one fresh current-thread runtime. Two tasks live on it:
//!   * the test body, which only ever calls `poll().await` in a loop (what a user does) and
//!     records everything `poll()` returned plus a snapshot of the public fields of the event
//!     loop at every poll boundary;
//!   * the environment task ([`env`]): the scripted broker (decodes what the client wrote,
//!     answers according to the script) and the simulated user (submits requests through
//!     `AsyncClient::try_*` at scripted virtual instants).
//! All wake-ups are in-process, so virtual timestamps are exact; nothing reads the wall clock.

pub mod env;
pub mod gen;
pub mod oracle;
pub mod props;
pub mod proto;
pub mod run;

use serde::{Deserialize, Serialize};

/// Neutral packet model (what the scripted broker decodes / encodes), shared by v4 and v5
#[derive(Clone, Debug, PartialEq, Eq, Hash, Serialize, Deserialize)]
pub enum Pkt {
    Connect { keep_alive: u16, clean: bool },
    ConnAck { session_present: bool, code: u8, receive_max: Option<u16>, server_keep_alive: Option<u16> },
    Publish { pkid: u16, qos: u8, dup: bool, payload: String },
    PubAck(u16),
    PubRec(u16),
    PubRel(u16),
    PubComp(u16),
    Subscribe { pkid: u16, n: usize },
    SubAck { pkid: u16, n: usize },
    Unsubscribe { pkid: u16 },
    UnsubAck(u16),
    PingReq,
    PingResp,
    Disconnect,
    Other(String),
}

/// `Outgoing` notification, normalised
#[derive(Clone, Copy, Debug, PartialEq, Eq, Hash, Serialize, Deserialize)]
pub enum Out {
    Publish(u16),
    Subscribe(u16),
    Unsubscribe(u16),
    PubAck(u16),
    PubRec(u16),
    PubRel(u16),
    PubComp(u16),
    PingReq,
    PingResp,
    Disconnect,
    AwaitAck(u16),
}

#[derive(Clone, Debug, PartialEq, Eq, Hash, Serialize, Deserialize)]
pub enum Ev {
    In(Pkt),
    Out(Out),
}

/// Error returned by `poll()`, normalised (structural kind only)
#[derive(Clone, Debug, PartialEq, Eq, Hash, Serialize, Deserialize)]
pub enum ErrK {
    AwaitPingResp,
    CollisionTimeout,
    Unsolicited(u16),
    ConnectionAborted,
    WrongPacket,
    Deserialization(String),
    StateIo(String),
    ServerDisconnect,
    StateOther(String),
    /// v4 `NetworkTimeout`, v5 `Timeout(Elapsed)`
    ConnectTimeout,
    FlushTimeout,
    Io(String),
    ConnectionRefused,
    NotConnAck,
    RequestsDone,
    Other(String),
}

impl ErrK {
    /// stable name without case data
    pub fn kind(&self) -> &'static str {
        match self {
            ErrK::AwaitPingResp => "AwaitPingResp",
            ErrK::CollisionTimeout => "CollisionTimeout",
            ErrK::Unsolicited(_) => "Unsolicited",
            ErrK::ConnectionAborted => "ConnectionAborted",
            ErrK::WrongPacket => "WrongPacket",
            ErrK::Deserialization(_) => "Deserialization",
            ErrK::StateIo(_) => "StateIo",
            ErrK::ServerDisconnect => "ServerDisconnect",
            ErrK::StateOther(_) => "StateOther",
            ErrK::ConnectTimeout => "ConnectTimeout",
            ErrK::FlushTimeout => "FlushTimeout",
            ErrK::Io(_) => "Io",
            ErrK::ConnectionRefused => "ConnectionRefused",
            ErrK::NotConnAck => "NotConnAck",
            ErrK::RequestsDone => "RequestsDone",
            ErrK::Other(_) => "Other",
        }
    }
}

/// A request held by the event loop (element of `pending`, of `state.clean()`, or `collision`)
#[derive(Clone, Debug, PartialEq, Eq, Hash, Serialize, Deserialize)]
pub enum Req {
    Publish { pkid: u16, qos: u8, payload: String },
    PubRel(u16),
    Subscribe,
    Unsubscribe,
    Other(String),
}

/// Public fields of the event loop at a poll boundary
#[derive(Clone, Debug, Default, PartialEq, Eq)]
pub struct Snap {
    /// `eventloop.pending`
    pub pending: Vec<Req>,
    /// `eventloop.state.clone().clean()`
    pub held: Vec<Req>,
    /// `eventloop.state.collision`
    pub collision: Option<Req>,
    /// `eventloop.state.inflight()`
    pub inflight: u16,
    /// `eventloop.state.events` (notifications generated but not handed out yet)
    pub queued: Vec<Ev>,
    pub await_pingresp: bool,
}

#[derive(Clone, Copy, Debug, PartialEq, Eq, Serialize, Deserialize)]
pub enum Dir {
    ClientToBroker,
    BrokerToClient,
}

/// One record of the observation log
#[derive(Clone, Debug, PartialEq, Eq)]
pub enum Rec {
    /// the event loop asked for a transport (connector called); `conn` = attempt index
    ConnAttempt { conn: usize },
    /// the scripted broker decoded a packet the client wrote
    /// (`end` = offset in the client->broker byte stream of this connection just after the packet)
    Rx { conn: usize, pkt: Pkt, end: u64 },
    /// the scripted broker wrote a packet (`batch` = serial of the write() call it was part of,
    /// `end` = offset in the broker->client byte stream just after the packet)
    Tx { conn: usize, pkt: Pkt, batch: u64, end: u64 },
    /// the broker end saw end-of-stream (client dropped the transport, or the fault cut it)
    Eof { conn: usize },
    /// the scripted broker closed its end
    BrokerClose { conn: usize },
    /// the injected fault fired: transport dead after `bytes` bytes in direction `dir`
    Cut { conn: usize, dir: Dir, bytes: u64 },
    /// the simulated user submitted request number `u` (accepted = try_* returned Ok)
    User { u: usize, accepted: bool },
    /// the broker switched to well-behaved mode (drain phase)
    Drain,
    /// `poll()` returned (`wbytes` = bytes the transport of the current connection had accepted
    /// from the client at that moment)
    Poll { res: Result<Ev, ErrK>, snap: Option<Snap>, wbytes: u64 },
}

#[derive(Clone, Debug, PartialEq, Eq)]
pub struct Entry {
    pub t: u64,
    pub rec: Rec,
}

pub type Log = Vec<Entry>;

// ------------------------------------------------------------------------------------------
// the case (plain data)

/// How the scripted broker treats the CONNECT of one connection attempt
#[derive(Clone, Debug, PartialEq, Eq, Serialize, Deserialize)]
pub enum ConnectB {
    Accept {
        session_present: bool,
        /// CONNACK written this many virtual ms after CONNECT was decoded
        delay_ms: u32,
        /// v5 only
        receive_max: Option<u16>,
        /// v5 only
        server_keep_alive: Option<u16>,
    },
    /// CONNACK with a non-zero return code
    Refuse,
    /// the stream is accepted, CONNECT is read, `partial` bytes (0..=3) of a CONNACK are written, then silence
    NoAnswer { partial: u8 },
    /// the connector future never resolves
    NeverResolve,
    /// the connector returns an I/O error
    IoError,
}

#[derive(Clone, Copy, Debug, PartialEq, Eq, Serialize, Deserialize)]
pub enum Tail {
    /// every ack opportunity acknowledges everything outstanding, oldest first
    InOrder,
    Never,
}

#[derive(Clone, Copy, Debug, PartialEq, Eq, Serialize, Deserialize)]
pub struct AckStep {
    /// how many outstanding flows are acknowledged at this opportunity (0..=3)
    pub n: u8,
    /// which one (monotone index among the outstanding flows, oldest first)
    pub pick: u16,
    /// write the acknowledgement twice
    pub dup: bool,
    /// additionally write a PUBACK for an id that is not outstanding
    pub bogus: bool,
}

#[derive(Clone, Debug, PartialEq, Eq, Serialize, Deserialize)]
pub struct AckPolicy {
    /// one step is consumed per ack opportunity (= per received QoS>0 PUBLISH / PUBREL, and per
    /// idle period while something is outstanding); afterwards `tail` applies
    pub steps: Vec<AckStep>,
    pub tail: Tail,
    /// acknowledgements are written this long after they were decided
    pub delay_ms: u32,
}

impl AckPolicy {
    pub fn in_order() -> AckPolicy {
        AckPolicy { steps: vec![], tail: Tail::InOrder, delay_ms: 0 }
    }
}

#[derive(Clone, Debug, PartialEq, Eq, Serialize, Deserialize)]
pub struct PingPolicy {
    /// delay of the PINGRESP for the i-th PINGREQ of the connection (last value repeats; empty = 0)
    pub delays_ms: Vec<u32>,
    /// PINGREQ number j (0-based) and all later ones are never answered
    pub silent_from: Option<u32>,
}

impl PingPolicy {
    pub fn prompt() -> PingPolicy {
        PingPolicy { delays_ms: vec![], silent_from: None }
    }
}

/// A packet the broker sends on its own initiative
#[derive(Clone, Copy, Debug, PartialEq, Eq, Serialize, Deserialize)]
pub enum BPkt {
    /// PUBLISH with a unique payload; `pkid` ignored for QoS 0
    Publish { qos: u8, pkid: u16 },
    PubRel(u16),
    /// acknowledgements nobody asked for
    PubAck(u16),
    PubRec(u16),
    PubComp(u16),
    PingResp,
    SubAck(u16),
    UnsubAck(u16),
}

#[derive(Clone, Debug, PartialEq, Eq, Serialize, Deserialize)]
pub struct Push {
    /// virtual ms after the CONNACK of this connection was written
    pub at_ms: u32,
    /// written with one write call (0..=12 packets)
    pub pkts: Vec<BPkt>,
}

#[derive(Clone, Copy, Debug, PartialEq, Eq, Serialize, Deserialize)]
pub struct Fault {
    pub dir: Dir,
    /// the transport dies once this many bytes went in direction `dir` (counted from the start
    /// of the connection, CONNECT / CONNACK included)
    pub k: u32,
    /// reads after the cut fail with ConnectionReset instead of end-of-stream
    pub reset: bool,
}

#[derive(Clone, Debug, PartialEq, Eq, Serialize, Deserialize)]
pub struct ConnScript {
    pub connect: ConnectB,
    pub acks: AckPolicy,
    pub ping: PingPolicy,
    pub pushes: Vec<Push>,
    pub fault: Option<Fault>,
    /// the broker closes the stream this long after the CONNACK
    pub close_at_ms: Option<u32>,
    /// answer PUBREC from the client with PUBREL (inbound QoS 2 flows)
    pub auto_pubrel: bool,
}

impl ConnScript {
    pub fn well_behaved(session_present: bool) -> ConnScript {
        ConnScript {
            connect: ConnectB::Accept { session_present, delay_ms: 0, receive_max: None, server_keep_alive: None },
            acks: AckPolicy::in_order(),
            ping: PingPolicy::prompt(),
            pushes: vec![],
            fault: None,
            close_at_ms: None,
            auto_pubrel: true,
        }
    }
}

#[derive(Clone, Copy, Debug, PartialEq, Eq, Serialize, Deserialize)]
pub enum UserKind {
    Publish { qos: u8 },
    Subscribe,
    Unsubscribe,
}

#[derive(Clone, Copy, Debug, PartialEq, Eq, Serialize, Deserialize)]
pub struct UserOp {
    /// absolute virtual time
    pub at_ms: u32,
    pub kind: UserKind,
}

#[derive(Clone, Debug, PartialEq, Eq, Serialize, Deserialize)]
pub struct Case {
    /// seed of the runtime (select! branch order)
    pub seed: u64,
    pub v5: bool,
    pub keep_alive_s: u16,
    pub inflight: u16,
    /// capacity of the request channel
    pub cap: u16,
    pub conn_timeout_s: u16,
    /// `pending_throttle`
    pub throttle_ms: u16,
    /// the test body sleeps this long after an `Err` before polling again
    pub repoll_delay_ms: u16,
    /// let the environment run between two polls (user code doing something else)
    pub yield_between: bool,
    /// scripts of the successive connection attempts; attempts beyond the list are served by a
    /// well-behaved broker reporting `tail_session`
    pub conns: Vec<ConnScript>,
    pub tail_session: bool,
    /// user request number u = index in this list; publishes carry the unique payload "u<u>"
    pub user: Vec<UserOp>,
    /// from this instant on the broker is well behaved on the current and all later connections
    /// (faults disarmed, everything outstanding acknowledged in order, pings answered) and the user is silent
    pub drain_at_ms: u32,
    pub horizon_ms: u32,
    /// record snapshots of the event loop at every poll boundary
    pub snapshots: bool,
    /// the scripted broker answers `session_present = false` instead of `true` when the failure
    /// left the client inside the region of known finding K2 (see oracle::k2_region)
    pub avoid_k2: bool,
    /// the scripted broker does not duplicate acknowledgements when the case mixes QoS 1 and
    /// QoS 2 publishes (region of the known finding "ack type is not checked against the QoS")
    #[serde(default)]
    pub avoid_ack_mismatch: bool,
}

impl Case {
    pub fn mixes_qos(&self) -> bool {
        let has = |q: u8| self.user.iter().any(|u| matches!(u.kind, UserKind::Publish { qos } if qos == q));
        has(1) && has(2)
    }
    pub fn script(&self, conn: usize) -> ConnScript {
        self.conns.get(conn).cloned().unwrap_or_else(|| ConnScript::well_behaved(self.tail_session))
    }
}

pub fn payload_of_user(u: usize) -> String {
    format!("u{u}")
}

pub fn user_of_payload(p: &str) -> Option<usize> {
    p.strip_prefix('u').and_then(|s| s.parse().ok())
}
