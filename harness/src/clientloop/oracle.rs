//! Oracles over the observation log shared by the E7 campaigns for C02 / C07 / C10 / C11.
//!
//! Everything is decided from what an outside observer can see: the packets the scripted broker
//! decoded / wrote (with byte offsets and virtual timestamps), what `poll()` returned, and the
//! public fields of the event loop at every poll boundary (`pending`, `state.clone().clean()`,
//! `state.collision`, `state.events`, `state.inflight()`). The model of the request channel is
//! exact because the log is in execution order: a request enters it when `try_*` returned Ok and
//! leaves it when the loop announces a request it cannot have taken from `pending`, or when an
//! in-session error makes `EventLoop::clean()` drain it.

use super::run::{render, Outcome};
use super::*;
use crate::engine::Failure;
use crate::{ensure, fail};
use std::collections::{HashMap, HashSet, VecDeque};

#[derive(Clone, Copy, Default, Debug)]
pub struct Clauses {
    /// C02: nothing accepted is lost or resurrected (snapshot-diff justification), exact at failures
    pub hold: bool,
    /// C02: everything owed is acknowledged once the broker behaves (needs a drain phase)
    pub quiesce: bool,
    /// C02/C11: retransmissions on the wire (same id, never after the final ack, none without session)
    pub wire: bool,
    /// C11: on a resumed connection retransmissions and pending releases precede new requests
    pub before: bool,
    /// C11: original order (v4, QoS 1, in-order history)
    pub order: bool,
    /// C07: the gate, the counter, the collision holder, no sleeping with an open gate
    pub gate: bool,
    /// C10: incoming exactly once in wire order, wire <=> announced, flushed before handed out
    pub inout: bool,
}

#[derive(Clone, Default, Debug)]
pub struct Facts {
    pub connections: usize,
    pub failures: usize,
    pub collisions: usize,
    pub collisions_resolved: usize,
    /// resumed connections that carried >=1 unacknowledged publish / release that had been in flight
    pub resumed_with_unacked: usize,
    pub nosession_with_carried: usize,
    /// max number of requests moved from the channel into pending by one failure
    pub max_queued_at_failure: usize,
    /// a resumed connection carried >=2 in-flight publishes whose ids had wrapped around
    pub carried_wrapped: bool,
    /// a connection failed while `pending` still held replay work
    pub replay_interrupted: bool,
    /// boundaries at which a request was waiting in the channel behind a closed gate
    pub gate_blocked: usize,
    /// requests taken at an instant at which the gate had just been reopened by an ack
    pub taken_after_unblock: usize,
    pub window_full_seen: bool,
    pub max_batch_in: usize,
    pub qos2_in_completed: usize,
    pub rejected_acks: usize,
    pub v4_connack_overtook_queue: usize,
    /// the client entered the K2 region (channel requests carried into pending at a resumed
    /// reconnect exceed the free window / meet a collision)
    pub k2_region_entered: bool,
    pub session_downgraded: usize,
    pub users_accepted: usize,
    pub users_done: usize,
    pub users_dropped: usize,
    pub wire_publishes: usize,
    pub retransmissions: usize,
}

/// every acknowledgement is for the oldest outstanding flow, every publish is QoS 0/1 (a QoS 2
/// id stays in use for a second round trip) and no Subscribe/Unsubscribe consumes packet ids:
/// the unacknowledged ids are then always the most recently allocated ones
pub fn ids_contiguous(case: &Case) -> bool {
    case.conns.iter().all(|c| c.acks.steps.iter().all(|s| s.pick == 0))
        && case.user.iter().all(|u| matches!(u.kind, UserKind::Publish { qos } if qos <= 1))
}

/// smallest send window the client may ever have in this case
pub fn min_window(case: &Case) -> u16 {
    let mut w = case.inflight;
    if case.v5 {
        for c in &case.conns {
            if let ConnectB::Accept { receive_max: Some(r), .. } = c.connect {
                w = w.min(r.max(1));
            }
        }
    }
    w
}

/// Region of known finding K2, as a predicate on the state the failure left behind: requests
/// that were still in the channel (packet id 0 / subscribe / unsubscribe) now sit in `pending`
/// behind the retransmissions, and replaying them all (which a resumed reconnect does, ignoring
/// flow control) either exceeds the window, or meets an unresolved collision, or can collide with
/// a carried id because the carried ids are not the most recently allocated ones (out-of-order
/// acks, QoS 2 flows, ids consumed by subscribe/unsubscribe).
pub fn k2_region(case: &Case, sn: &Snap) -> bool {
    let fresh = sn
        .pending
        .iter()
        .filter(|r| matches!(r, Req::Publish { pkid: 0, .. }) || matches!(r, Req::Subscribe | Req::Unsubscribe))
        .count();
    let ids: Vec<u16> = sn
        .pending
        .iter()
        .filter_map(|r| match r {
            Req::Publish { pkid, .. } if *pkid != 0 => Some(*pkid),
            Req::PubRel(p) => Some(*p),
            _ => None,
        })
        .collect();
    // a publish that was parked on a collision is carried with the id of its holder: replaying
    // both parks it again, and everything behind it in `pending` is then taken past a closed gate
    let parked = ids.iter().enumerate().any(|(i, a)| ids[..i].contains(a)) || sn.collision.is_some();
    fresh > 0 && (parked || ids.len() + fresh > min_window(case) as usize || (!ids.is_empty() && !ids_contiguous(case)))
}

#[derive(Clone, Copy, PartialEq, Eq, Debug)]
enum Stage {
    NotYet,
    Rejected,
    Queued,
    Pending,
    Held(u16),
    Collision(u16),
    Rel(u16),
    Done,
    Dropped,
}

impl Stage {
    fn name(&self) -> &'static str {
        match self {
            Stage::NotYet => "not_submitted",
            Stage::Rejected => "rejected",
            Stage::Queued => "in_channel",
            Stage::Pending => "in_pending",
            Stage::Held(_) => "in_flight",
            Stage::Collision(_) => "blocked_on_collision",
            Stage::Rel(_) => "release_pending",
            Stage::Done => "acknowledged",
            Stage::Dropped => "dropped_without_session",
        }
    }
}

struct U {
    qos: u8,
    is_publish: bool,
    stage: Stage,
    flight: bool,
    first_pkid: Option<u16>,
    take_serial: Option<usize>,
    first_wire_conn: Option<usize>,
    wire_n: usize,
    done_at: Option<usize>,
    dropped_at: Option<usize>,
    /// connection (attempt index) during which the final ack was received / whose CONNACK dropped it
    done_conn: Option<usize>,
    dropped_conn: Option<usize>,
}

#[derive(Default)]
struct ConnO {
    established: bool,
    session_present: bool,
    tx: Vec<(Pkt, u64, u64)>,
    rx: Vec<(Pkt, u64, usize)>,
    ins: Vec<Pkt>,
    outs: Vec<Out>,
    failed: Option<ErrK>,
    cut: Option<(Dir, u64)>,
    /// (payload, was in flight before) of the publishes in `pending` when the CONNACK came
    carried: Vec<(String, bool)>,
    carried_rel: Vec<u16>,
    /// (announced packets so far, bytes accepted by the transport) at Ok boundaries
    flush_marks: Vec<(usize, u64, u64)>,
}

/// What the notifications generated by one poll() do to a publish the client held in stage `old`
/// (several steps can happen in one poll: a blocked publish is released by the ack of the holder
/// of its id and acknowledged by a further ack in the same read batch)
fn simulate(old: Stage, qos: u8, ev: &[Ev]) -> Stage {
    let mut st = old;
    for (i, e) in ev.iter().enumerate() {
        st = match (st, e) {
            (Stage::Collision(p), Ev::Out(Out::Publish(id)))
                if *id == p && i > 0 && matches!(&ev[i - 1], Ev::In(Pkt::PubAck(a)) | Ev::In(Pkt::PubComp(a)) if *a == p) =>
            {
                Stage::Held(p)
            }
            // the final ack of a QoS 1 publish is its PUBACK; a QoS 2 publish is only moved on by
            // PUBREC and finished by PUBCOMP
            (Stage::Held(p), Ev::In(Pkt::PubAck(a))) if *a == p && qos == 1 => Stage::Done,
            (Stage::Held(p), Ev::In(Pkt::PubRec(a))) if *a == p && qos == 2 => Stage::Rel(p),
            (Stage::Rel(p), Ev::In(Pkt::PubComp(a))) if *a == p => Stage::Done,
            (s, _) => s,
        };
    }
    st
}

fn window_count(sn: &Snap) -> usize {
    sn.held.iter().filter(|r| matches!(r, Req::Publish { .. } | Req::PubRel(_))).count()
}

fn out_matches(o: &Out, p: &Pkt) -> bool {
    match (o, p) {
        (Out::Publish(a), Pkt::Publish { pkid, .. }) => a == pkid,
        (Out::Subscribe(a), Pkt::Subscribe { pkid, .. }) => a == pkid,
        (Out::Unsubscribe(a), Pkt::Unsubscribe { pkid }) => a == pkid,
        (Out::PubAck(a), Pkt::PubAck(b)) => a == b,
        (Out::PubRec(a), Pkt::PubRec(b)) => a == b,
        (Out::PubRel(a), Pkt::PubRel(b)) => a == b,
        (Out::PubComp(a), Pkt::PubComp(b)) => a == b,
        (Out::PingReq, Pkt::PingReq) => true,
        (Out::PingResp, Pkt::PingResp) => true,
        (Out::Disconnect, Pkt::Disconnect) => true,
        _ => false,
    }
}

pub fn analyze(case: &Case, out: &Outcome, cl: Clauses) -> Result<Facts, Failure> {
    let log = &out.log;
    let v = if case.v5 { "v5" } else { "v4" };
    let mut facts = Facts::default();
    let ctx = |li: usize| render(&log[..(li + 1).min(log.len())].to_vec(), 28);

    let mut users: Vec<U> = case
        .user
        .iter()
        .map(|op| {
            let (qos, is_publish) = match op.kind {
                UserKind::Publish { qos } => (qos, true),
                _ => (0, false),
            };
            U {
                qos,
                is_publish,
                stage: Stage::NotYet,
                flight: false,
                first_pkid: None,
                take_serial: None,
                first_wire_conn: None,
                wire_n: 0,
                done_at: None,
                dropped_at: None,
                done_conn: None,
                dropped_conn: None,
            }
        })
        .collect();
    let mut q: VecDeque<usize> = VecDeque::new();
    let mut conns: Vec<ConnO> = Vec::new();
    let conn_mut = |conns: &mut Vec<ConnO>, i: usize| -> usize {
        while conns.len() <= i {
            conns.push(ConnO::default());
        }
        i
    };
    let mut attempt = 0usize;
    let mut sess: Option<usize> = None;
    let mut prev = Snap::default();
    let mut prev_t = 0u64;
    let mut prev_ok = false;
    let mut prev_sess = false;
    let mut q_nonempty_at_prev = false;
    let mut window = case.inflight as usize;
    let mut take_serial = 0usize;
    let mut drained = false;
    let mut unblocked_at: Option<u64> = None;

    for (li, e) in log.iter().enumerate() {
        match &e.rec {
            Rec::ConnAttempt { conn } => {
                attempt = *conn;
                conn_mut(&mut conns, attempt);
            }
            Rec::Tx { conn, pkt, batch, end } => {
                let c = conn_mut(&mut conns, *conn);
                if let Pkt::ConnAck { session_present, .. } = pkt {
                    let scripted = match case.script(*conn).connect {
                        ConnectB::Accept { session_present: s, .. } => s,
                        _ => *session_present,
                    };
                    if scripted && !*session_present && case.avoid_k2 && !drained {
                        facts.session_downgraded += 1;
                    }
                }
                conns[c].tx.push((pkt.clone(), *end, *batch));
            }
            Rec::Rx { conn, pkt, end } => {
                let c = conn_mut(&mut conns, *conn);
                if !matches!(pkt, Pkt::Connect { .. }) {
                    conns[c].rx.push((pkt.clone(), *end, li));
                }
            }
            Rec::Cut { conn, dir, bytes } => {
                let c = conn_mut(&mut conns, *conn);
                conns[c].cut = Some((*dir, *bytes));
            }
            Rec::Eof { .. } | Rec::BrokerClose { .. } => {}
            Rec::Drain => drained = true,
            Rec::User { u, accepted } => {
                if *accepted {
                    users[*u].stage = Stage::Queued;
                    q.push_back(*u);
                    facts.users_accepted += 1;
                } else {
                    users[*u].stage = Stage::Rejected;
                }
            }
            Rec::Poll { res, snap, wbytes } => {
                let Some(sn) = snap else {
                    fail!("harness:snapshots_missing", "the oracle needs snapshots");
                };
                // ---------------------------------------------------------------- new events
                let ret = res.as_ref().ok().cloned();
                let newev: Vec<Ev>;
                let mut seq: Vec<Ev> = Vec::with_capacity(1 + sn.queued.len());
                if let Some(r) = &ret {
                    seq.push(r.clone());
                }
                seq.extend(sn.queued.iter().cloned());
                let n = prev.queued.len();
                if seq.len() >= n && seq[..n] == prev.queued[..] {
                    newev = seq[n..].to_vec();
                } else if matches!(ret, Some(Ev::In(Pkt::ConnAck { .. }))) && sn.queued == prev.queued {
                    // the CONNACK of the new connection was handed out in front of notifications
                    // that were generated earlier and are still queued (v4 returns it directly)
                    facts.v4_connack_overtook_queue += 1;
                    if cl.inout && prev.queued.iter().any(|e| matches!(e, Ev::In(_))) {
                        fail!(
                            format!("connack_overtakes_older_incoming_packets:{v}"),
                            "poll() returned the CONNACK of the new connection while packets received on the previous connection were still waiting to be handed out: {:?}{}",
                            prev.queued,
                            ctx(li)
                        );
                    }
                    newev = vec![ret.clone().unwrap()];
                } else {
                    if cl.inout {
                        fail!(
                            format!("notifications_lost_or_reordered:{v}"),
                            "notifications queued at the previous boundary {:?} are not handed out first: returned {ret:?}, queue now {:?}{}",
                            prev.queued,
                            sn.queued,
                            ctx(li)
                        );
                    }
                    newev = Vec::new();
                }
                let connack_nosession = newev.iter().any(|e| matches!(e, Ev::In(Pkt::ConnAck { session_present: false, .. })));

                // ---------------------------------------------------------------- apply events
                let mut pend_model: VecDeque<Req> = prev.pending.iter().cloned().collect();
                for (i, ev) in newev.iter().enumerate() {
                    match ev {
                        Ev::In(Pkt::ConnAck { session_present, receive_max, .. }) => {
                            sess = Some(attempt);
                            let c = conn_mut(&mut conns, attempt);
                            conns[c].established = true;
                            conns[c].session_present = *session_present;
                            facts.connections += 1;
                            if case.v5 {
                                if let Some(r) = receive_max {
                                    window = (*r as usize).min(case.inflight as usize);
                                }
                            }
                            let mut flight_ids: Vec<(usize, u16)> = Vec::new();
                            for r in prev.pending.iter() {
                                match r {
                                    Req::Publish { payload, pkid, .. } => {
                                        let fl = user_of_payload(payload).and_then(|u| users.get(u)).is_some_and(|u| u.flight);
                                        conns[c].carried.push((payload.clone(), fl));
                                        if fl {
                                            if let Some(u) = user_of_payload(payload) {
                                                flight_ids.push((users[u].take_serial.unwrap_or(usize::MAX), *pkid));
                                            }
                                        }
                                    }
                                    Req::PubRel(p) => conns[c].carried_rel.push(*p),
                                    _ => {}
                                }
                            }
                            let carried_unacked = conns[c].carried.iter().filter(|x| x.1).count() + conns[c].carried_rel.len();
                            if *session_present {
                                if carried_unacked > 0 {
                                    facts.resumed_with_unacked += 1;
                                }
                                flight_ids.sort();
                                if flight_ids.len() >= 2 && flight_ids.windows(2).any(|w| w[1].1 < w[0].1) {
                                    facts.carried_wrapped = true;
                                }
                                if k2_region(case, &prev) {
                                    facts.k2_region_entered = true;
                                }
                            } else if !prev.pending.is_empty() {
                                facts.nosession_with_carried += 1;
                            }
                        }
                        Ev::In(p) => {
                            let c = conn_mut(&mut conns, sess.unwrap_or(attempt));
                            conns[c].ins.push(p.clone());
                        }
                        Ev::Out(o) => {
                            let c = conn_mut(&mut conns, sess.unwrap_or(attempt));
                            if !matches!(o, Out::AwaitAck(_)) {
                                conns[c].outs.push(*o);
                            }
                            let prev_in = if i > 0 { newev.get(i - 1) } else { None };
                            let is_take = match o {
                                Out::Publish(id) => {
                                    let release = matches!(&prev.collision, Some(Req::Publish { pkid, .. }) if pkid == id)
                                        && matches!(prev_in, Some(Ev::In(Pkt::PubAck(a))) | Some(Ev::In(Pkt::PubComp(a))) if a == id);
                                    if release {
                                        facts.collisions_resolved += 1;
                                    }
                                    !release
                                }
                                Out::AwaitAck(_) => {
                                    facts.collisions += 1;
                                    true
                                }
                                Out::Subscribe(_) | Out::Unsubscribe(_) | Out::Disconnect => true,
                                Out::PubRel(id) => !matches!(prev_in, Some(Ev::In(Pkt::PubRec(a))) if a == id),
                                _ => false,
                            };
                            if !is_take {
                                continue;
                            }
                            take_serial += 1;
                            // where did the request come from?
                            let (fresh, src) = match pend_model.pop_front() {
                                Some(Req::Publish { pkid, payload, .. }) => {
                                    if let Some(u) = user_of_payload(&payload) {
                                        if let Some(us) = users.get_mut(u) {
                                            us.take_serial.get_or_insert(take_serial);
                                        }
                                    }
                                    (pkid == 0, "carried")
                                }
                                Some(Req::PubRel(_)) => (false, "carried"),
                                Some(_) => (true, "carried"),
                                None => {
                                    match q.pop_front() {
                                        Some(u) => {
                                            users[u].take_serial.get_or_insert(take_serial);
                                            let kind_ok = match (case.user[u].kind, o) {
                                                (UserKind::Publish { qos: 0 }, Out::Publish(0)) => true,
                                                (UserKind::Publish { qos }, Out::Publish(id)) => qos > 0 && *id != 0,
                                                (UserKind::Publish { qos }, Out::AwaitAck(_)) => qos > 0,
                                                (UserKind::Subscribe, Out::Subscribe(_)) => true,
                                                (UserKind::Unsubscribe, Out::Unsubscribe(_)) => true,
                                                _ => false,
                                            };
                                            if (cl.inout || cl.hold) && !kind_ok {
                                                fail!(
                                                    format!("announcement_does_not_match_request:{v}"),
                                                    "the oldest request in the channel is #{u} {:?}, the loop announced {o:?}{}",
                                                    case.user[u].kind,
                                                    ctx(li)
                                                );
                                            }
                                        }
                                        None => {
                                            if cl.inout || cl.hold {
                                                fail!(
                                                    format!("request_from_nowhere:{v}"),
                                                    "the loop announced {o:?} but pending and the channel were empty{}",
                                                    ctx(li)
                                                );
                                            }
                                        }
                                    }
                                    (true, "channel")
                                }
                            };
                            if fresh {
                                let full = window_count(&prev) >= window;
                                let coll = prev.collision.is_some();
                                if cl.gate && (full || coll) {
                                    fail!(
                                        format!("gate_closed_but_request_taken:{v}:{src}:{}", if coll { "collision" } else { "window_full" }),
                                        "at the previous boundary {} of {window} slots were in use, collision = {:?}; the loop nevertheless took a new request and announced {o:?}{}",
                                        window_count(&prev),
                                        prev.collision,
                                        ctx(li)
                                    );
                                }
                                if unblocked_at == Some(e.t) {
                                    facts.taken_after_unblock += 1;
                                    unblocked_at = None;
                                }
                            }
                        }
                    }
                }

                // ---------------------------------------------------------------- failure
                let in_session_err = res.is_err() && sess.is_some();
                if let Err(k) = res {
                    facts.failures += 1;
                    if let ErrK::Unsolicited(_) = k {
                        facts.rejected_acks += 1;
                    }
                    if let Some(s) = sess {
                        let c = conn_mut(&mut conns, s);
                        conns[c].failed = Some(k.clone());
                        if !prev.pending.is_empty() {
                            facts.replay_interrupted = true;
                        }
                        // EventLoop::clean() drained the channel into pending
                        facts.max_queued_at_failure = facts.max_queued_at_failure.max(q.len());
                        q.clear();
                    } else {
                        let c = conn_mut(&mut conns, attempt);
                        if conns[c].failed.is_none() {
                            conns[c].failed = Some(k.clone());
                        }
                    }
                    sess = None;
                }

                // ---------------------------------------------------------------- what the client holds
                if cl.hold {
                    let mut loc: HashMap<&str, Stage> = HashMap::new();
                    let mut rels: HashSet<u16> = HashSet::new();
                    for (r, st) in sn
                        .held
                        .iter()
                        .map(|r| (r, 0u8))
                        .chain(sn.pending.iter().map(|r| (r, 1u8)))
                        .chain(sn.collision.iter().map(|r| (r, 2u8)))
                    {
                        match r {
                            Req::Publish { pkid, payload, qos } => {
                                let stage = match st {
                                    0 => Stage::Held(*pkid),
                                    1 => Stage::Pending,
                                    _ => Stage::Collision(*pkid),
                                };
                                if *qos == 0 {
                                    continue;
                                }
                                if let Some(old) = loc.insert(payload.as_str(), stage) {
                                    fail!(
                                        format!("publish_held_twice:{v}:{}+{}", old.name(), stage.name()),
                                        "publish {payload:?} is held twice by the client{}",
                                        ctx(li)
                                    );
                                }
                            }
                            Req::PubRel(p) => {
                                rels.insert(*p);
                            }
                            _ => {}
                        }
                    }
                    for (payload, st) in loc.iter() {
                        let known = user_of_payload(payload).and_then(|u| users.get(u)).is_some_and(|u| u.is_publish && u.qos > 0);
                        ensure!(
                            known,
                            format!("invented_request:{v}:{}", st.name()),
                            "the client holds a publish {payload:?} nobody submitted{}",
                            ctx(li)
                        );
                    }
                    for (u, us) in users.iter_mut().enumerate() {
                        if !us.is_publish || us.qos == 0 {
                            continue;
                        }
                        let payload = payload_of_user(u);
                        let old = us.stage;
                        if matches!(old, Stage::NotYet | Stage::Rejected) {
                            continue;
                        }
                        let new = match loc.get(payload.as_str()) {
                            Some(st) => {
                                match old {
                                    Stage::Done => fail!(
                                        format!("resurrected:{v}:acknowledged_publish_{}", st.name()),
                                        "publish {payload:?} was finally acknowledged and is held again ({st:?}){}",
                                        ctx(li)
                                    ),
                                    Stage::Dropped => fail!(
                                        format!("resurrected:{v}:dropped_publish_{}", st.name()),
                                        "publish {payload:?} was dropped by a reconnect without session and is held again ({st:?}){}",
                                        ctx(li)
                                    ),
                                    Stage::Rel(_) => fail!(
                                        format!("resurrected:{v}:released_publish_{}", st.name()),
                                        "publish {payload:?} had been received by the broker (PUBREC seen) and is held again ({st:?}){}",
                                        ctx(li)
                                    ),
                                    _ => {}
                                }
                                if *st == Stage::Pending && matches!(old, Stage::Queued | Stage::Pending) && !us.flight {
                                    // taken (from the channel or from pending) and handed to the state
                                    // machine in the very poll that failed: it got its id and was
                                    // announced as sent, so from the client's side it is a
                                    // retransmission from now on
                                    let pkid = sn.pending.iter().find_map(|r| match r {
                                        Req::Publish { pkid, payload: pl, .. } if *pl == payload => Some(*pkid),
                                        _ => None,
                                    });
                                    if let Some(p) = pkid.filter(|p| *p != 0) {
                                        if newev.iter().any(|e| *e == Ev::Out(Out::Publish(p))) {
                                            us.flight = true;
                                            us.first_pkid.get_or_insert(p);
                                        }
                                    }
                                }
                                if let Stage::Held(p) = st {
                                    us.flight = true;
                                    let first = *us.first_pkid.get_or_insert(*p);
                                    ensure!(
                                        first == *p,
                                        format!("packet_id_changed:{v}"),
                                        "publish {payload:?} first went out with id {first}, is now in flight with id {p}{}",
                                        ctx(li)
                                    );
                                }
                                *st
                            }
                            None if q.contains(&u) => Stage::Queued,
                            None => {
                                let lost = |why: &str| -> Failure {
                                    Failure::new(
                                        format!("lost_publish:{v}:{why}"),
                                        format!(
                                            "publish {payload:?} (QoS {}) was {} at the previous poll boundary and is gone now without a final acknowledgement having been received (new notifications: {newev:?}){}",
                                            us.qos,
                                            old.name(),
                                            ctx(li)
                                        ),
                                    )
                                };
                                match simulate(old, us.qos, &newev) {
                                    Stage::Done => Stage::Done,
                                    Stage::Rel(p) => {
                                        if rels.contains(&p) {
                                            Stage::Rel(p)
                                        } else if connack_nosession {
                                            Stage::Dropped
                                        } else {
                                            return Err(lost("release_vanished"));
                                        }
                                    }
                                    Stage::Held(p) => {
                                        // the acknowledgement that took it away is of the wrong kind
                                        // for its QoS
                                        let by_rec = newev.iter().any(|e| *e == Ev::In(Pkt::PubRec(p)));
                                        let by_ack = newev.iter().any(|e| *e == Ev::In(Pkt::PubAck(p)));
                                        return Err(lost(if us.qos == 1 && by_rec {
                                            "qos1_publish_taken_by_pubrec"
                                        } else if us.qos == 2 && by_ack {
                                            "qos2_publish_finished_by_puback"
                                        } else {
                                            "in_flight_vanished"
                                        }));
                                    }
                                    Stage::Pending => {
                                        if connack_nosession {
                                            Stage::Dropped
                                        } else {
                                            return Err(lost("pending_vanished"));
                                        }
                                    }
                                    Stage::Collision(_) => {
                                        if connack_nosession {
                                            Stage::Dropped
                                        } else if newev.iter().any(|e| matches!(e, Ev::Out(Out::AwaitAck(_)))) {
                                            // the loop took another request although this one was
                                            // parked, and that one collided too: `collision` has one slot
                                            return Err(lost("blocked_publish_overwritten_by_second_collision"));
                                        } else {
                                            return Err(lost("blocked_publish_vanished"));
                                        }
                                    }
                                    Stage::Queued => return Err(lost("taken_from_channel_not_stored")),
                                    Stage::Dropped => Stage::Dropped,
                                    Stage::NotYet | Stage::Rejected => old,
                                }
                            }
                        };
                        if matches!(simulate(old, us.qos, &newev), Stage::Held(_) | Stage::Rel(_) | Stage::Done) {
                            // (also when it was released from a collision and carried away by a
                            // failure within one poll)
                            us.flight = true;
                        }
                        if new == Stage::Done && old != Stage::Done {
                            us.done_conn = Some(attempt);
                            us.done_at = Some(li);
                            facts.users_done += 1;
                        }
                        if new == Stage::Dropped && old != Stage::Dropped {
                            us.dropped_conn = Some(attempt);
                            us.dropped_at = Some(li);
                            facts.users_dropped += 1;
                        }
                        us.stage = new;
                    }
                    // exactness at an in-session failure: the channel was drained, so every
                    // publish that is owed must be visible in pending (or blocked on a collision)
                    if in_session_err {
                        for (u, us) in users.iter().enumerate() {
                            if us.is_publish && us.qos > 0 && us.stage == Stage::Queued {
                                fail!(
                                    format!("lost_publish:{v}:channel_request_not_carried"),
                                    "publish #{u} was in the request channel when the connection failed and is not in pending afterwards{}",
                                    ctx(li)
                                );
                            }
                        }
                    }
                }

                // ---------------------------------------------------------------- C11: starts clean
                if cl.wire && connack_nosession {
                    ensure!(
                        sn.pending.is_empty() && sn.held.is_empty() && sn.collision.is_none() && sn.inflight == 0,
                        format!("state_not_clean_after_sessionless_connack:{v}"),
                        "the broker reported no session; the client still holds pending {:?} in-flight {:?} collision {:?} inflight() {}{}",
                        sn.pending,
                        sn.held,
                        sn.collision,
                        sn.inflight,
                        ctx(li)
                    );
                }

                // ---------------------------------------------------------------- C07 state clauses
                if cl.gate {
                    let cnt = window_count(sn);
                    ensure!(
                        cnt == sn.inflight as usize,
                        format!("inflight_counter_mismatch:{v}"),
                        "state.inflight() = {}, publishes/releases actually held = {cnt}{}",
                        sn.inflight,
                        ctx(li)
                    );
                    ensure!(
                        cnt <= window,
                        format!("window_exceeded:{v}"),
                        "{cnt} unacknowledged publishes/releases, limit {window}{}",
                        ctx(li)
                    );
                    if let Some(Req::Publish { pkid, .. }) = &sn.collision {
                        let holder = sn.held.iter().chain(sn.pending.iter()).any(|r| match r {
                            Req::Publish { pkid: p, .. } => p == pkid,
                            Req::PubRel(p) => p == pkid,
                            _ => false,
                        });
                        ensure!(
                            holder,
                            format!("collision_without_holder:{v}"),
                            "a publish is blocked on packet id {pkid} but nothing unacknowledged carries that id (nothing can ever release it){}",
                            ctx(li)
                        );
                    }
                    // no sleeping while a request could be taken
                    if prev_ok && prev_sess && q_nonempty_at_prev && prev.pending.is_empty() && prev.collision.is_none() && window_count(&prev) < window {
                        ensure!(
                            e.t == prev_t,
                            format!("request_not_taken_while_gate_open:{v}"),
                            "a request was waiting in the channel and the window had room at {prev_t} ms; the next poll() returned only at {} ms{}",
                            e.t,
                            ctx(li)
                        );
                    }
                }
                let gate_closed = sn.collision.is_some() || window_count(sn) >= window;
                let was_closed = prev.collision.is_some() || window_count(&prev) >= window;
                if window_count(sn) >= window {
                    facts.window_full_seen = true;
                }
                if gate_closed && !q.is_empty() && sess.is_some() {
                    facts.gate_blocked += 1;
                }
                if was_closed && !gate_closed && !q.is_empty() && sess.is_some() {
                    unblocked_at = Some(e.t);
                }
                if let Some(s) = sess {
                    if res.is_ok() {
                        let c = conn_mut(&mut conns, s);
                        let g = conns[c].outs.len();
                        conns[c].flush_marks.push((g, *wbytes, e.t));
                    }
                }
                prev = sn.clone();
                prev_t = e.t;
                prev_ok = res.is_ok();
                prev_sess = sess.is_some();
                q_nonempty_at_prev = !q.is_empty();
            }
        }
    }

    // -------------------------------------------------------------------- quiescence
    if cl.quiesce && drained {
        ensure!(
            !out.poll_budget_exhausted,
            format!("client_spins_without_time_passing:{v}"),
            "{} polls returned before the virtual horizon{}",
            out.polls,
            render(log, 30)
        );
        for (u, us) in users.iter().enumerate() {
            if us.is_publish && us.qos > 0 && !matches!(us.stage, Stage::Done | Stage::Dropped | Stage::Rejected | Stage::NotYet) {
                fail!(
                    format!("not_acknowledged_at_quiescence:{v}:{}", us.stage.name()),
                    "the broker has been well behaved since {} ms; at {} ms publish #{u} (QoS {}) is still {:?}{}",
                    case.drain_at_ms,
                    case.horizon_ms,
                    us.qos,
                    us.stage,
                    render(log, 30)
                );
            }
        }
        ensure!(
            prev.pending.is_empty() && prev.held.is_empty() && prev.collision.is_none() && q.is_empty(),
            format!("not_quiescent:{v}"),
            "at the horizon the client still holds work: pending {:?} held {:?} collision {:?} channel {:?}{}",
            prev.pending,
            prev.held,
            prev.collision,
            q,
            render(log, 30)
        );
    }

    // -------------------------------------------------------------------- wire clauses
    for (ci, c) in conns.iter().enumerate() {
        for (p, _, _) in &c.rx {
            if let Pkt::Publish { payload, .. } = p {
                facts.wire_publishes += 1;
                if let Some(u) = user_of_payload(payload).filter(|u| *u < users.len()) {
                    if users[u].wire_n > 0 {
                        facts.retransmissions += 1;
                    }
                    users[u].wire_n += 1;
                    users[u].first_wire_conn.get_or_insert(ci);
                }
            }
        }
    }
    if cl.wire {
        let mut seen_pkid: HashMap<usize, u16> = HashMap::new();
        for (ci, c) in conns.iter().enumerate() {
            for (p, _, rli) in &c.rx {
                if let Pkt::Publish { payload, pkid, qos, .. } = p {
                    let Some(u) = user_of_payload(payload).filter(|u| *u < users.len() && users[*u].is_publish) else {
                        fail!(format!("invented_publish_on_wire:{v}"), "connection {ci}: PUBLISH {payload:?} was never submitted{}", ctx(*rli));
                    };
                    ensure!(
                        *qos == users[u].qos,
                        format!("qos_changed_on_wire:{v}"),
                        "publish #{u} submitted with QoS {} is on the wire with QoS {qos}{}",
                        users[u].qos,
                        ctx(*rli)
                    );
                    if *qos > 0 {
                        let first = *seen_pkid.entry(u).or_insert(*pkid);
                        ensure!(
                            first == *pkid,
                            format!("retransmission_with_other_id:{v}"),
                            "publish #{u} first on the wire with id {first}, now with id {pkid}{}",
                            ctx(*rli)
                        );
                        if let Some(d) = users[u].done_conn {
                            ensure!(
                                ci <= d,
                                format!("acknowledged_publish_sent_again:{v}"),
                                "publish #{u} was finally acknowledged on connection {d} and is transmitted again on connection {ci}{}",
                                ctx(*rli)
                            );
                        }
                        if let Some(d) = users[u].dropped_conn {
                            ensure!(
                                ci < d,
                                format!("dropped_request_sent:{v}"),
                                "publish #{u} was carried over a reconnect without session (connection {d}; must not be sent) and is on the wire of connection {ci}{}",
                                ctx(*rli)
                            );
                        }
                    }
                }
            }
            if !c.established || !c.session_present || !cl.before {
                continue;
            }
            // resumed: retransmissions and pending releases come before anything new
            let carried_flight: Vec<&str> = c.carried.iter().filter(|x| x.1).map(|x| x.0.as_str()).collect();
            let fresh_idx = c.rx.iter().position(|(p, _, _)| match p {
                Pkt::Publish { payload, qos, .. } if *qos > 0 => {
                    !carried_flight.contains(&payload.as_str())
                        && user_of_payload(payload).and_then(|u| users.get(u)).is_some_and(|u| u.first_wire_conn == Some(ci))
                }
                _ => false,
            });
            if let Some(fi) = fresh_idx {
                for pl in &carried_flight {
                    let at = c.rx.iter().position(|(p, _, _)| matches!(p, Pkt::Publish { payload, .. } if payload == pl));
                    ensure!(
                        at.is_some_and(|a| a < fi),
                        format!("new_request_before_retransmission:{v}"),
                        "resumed connection {ci}: {:?} (never sent before) went out at position {fi}, the unacknowledged publish {pl:?} of the previous connection at {at:?}; carried = {:?}; wire = {:?}",
                        c.rx[fi].0,
                        c.carried,
                        c.rx.iter().map(|x| &x.0).collect::<Vec<_>>()
                    );
                }
                for r in &c.carried_rel {
                    let at = c.rx.iter().position(|(p, _, _)| matches!(p, Pkt::PubRel(x) if x == r));
                    ensure!(
                        at.is_some_and(|a| a < fi),
                        format!("new_request_before_pending_release:{v}"),
                        "resumed connection {ci}: {:?} went out at position {fi}, the pending PUBREL {r} at {at:?}",
                        c.rx[fi].0
                    );
                }
            }
            if cl.order && !case.v5 && ids_contiguous(case) && users.iter().all(|u| u.qos <= 1) {
                let mut serials: Vec<(usize, &str)> = Vec::new();
                for (p, _, _) in &c.rx {
                    if let Pkt::Publish { payload, .. } = p {
                        if carried_flight.contains(&payload.as_str()) && !serials.iter().any(|s| s.1 == payload) {
                            let u = user_of_payload(payload).unwrap();
                            serials.push((users[u].take_serial.unwrap_or(usize::MAX), payload.as_str()));
                        }
                    }
                }
                ensure!(
                    serials.windows(2).all(|w| w[0].0 < w[1].0),
                    format!("retransmission_order_changed:{v}"),
                    "resumed connection {ci}: retransmissions went out as {:?} (original send serial, payload); carried = {:?}",
                    serials,
                    c.carried
                );
            }
        }
    }

    // -------------------------------------------------------------------- C10 clauses
    for c in conns.iter() {
        let mut batch_sizes: HashMap<u64, usize> = HashMap::new();
        for (p, _, b) in &c.tx {
            if !matches!(p, Pkt::ConnAck { .. }) {
                *batch_sizes.entry(*b).or_insert(0) += 1;
            }
        }
        if c.established {
            facts.max_batch_in = facts.max_batch_in.max(batch_sizes.values().copied().max().unwrap_or(0));
        }
        // completed inbound QoS 2 flows: PUBLISH q2 (id) ... PUBREL(id) surfaced and PUBCOMP(id) announced
        for p in &c.ins {
            if let Pkt::PubRel(id) = p {
                if c.outs.contains(&Out::PubComp(*id)) {
                    facts.qos2_in_completed += 1;
                }
            }
        }
    }
    if cl.inout {
        for (ci, c) in conns.iter().enumerate() {
            if !c.established {
                continue;
            }
            let tx: Vec<&(Pkt, u64, u64)> = c.tx.iter().filter(|x| !matches!(x.0, Pkt::ConnAck { .. })).collect();
            // (a) incoming: a prefix of what the broker wrote, in order, nothing twice
            for (i, p) in c.ins.iter().enumerate() {
                ensure!(
                    tx.get(i).is_some_and(|t| &t.0 == p),
                    format!("incoming_not_in_wire_order:{v}"),
                    "connection {ci}: notification #{i} is {p:?}, the broker wrote {:?} at that position; written = {:?}; surfaced = {:?}",
                    tx.get(i).map(|t| &t.0),
                    tx.iter().map(|t| &t.0).collect::<Vec<_>>(),
                    c.ins
                );
            }
            let must = match (&c.failed, &c.cut) {
                (None, _) => Some(tx.len()),
                _ => None,
            };
            if let Some(m) = must {
                ensure!(
                    c.ins.len() == m,
                    format!("incoming_packet_not_surfaced:{v}"),
                    "connection {ci}: the client received {m} complete packets, poll() surfaced {}; written = {:?}; surfaced = {:?}; end = {:?} cut = {:?}",
                    c.ins.len(),
                    tx.iter().map(|t| &t.0).collect::<Vec<_>>(),
                    c.ins,
                    c.failed,
                    c.cut
                );
            }
            // (b) wire <=> announced
            for (i, (p, _, _)) in c.rx.iter().enumerate() {
                ensure!(
                    c.outs.get(i).is_some_and(|o| out_matches(o, p)),
                    format!("wire_packet_not_announced:{v}"),
                    "connection {ci}: packet #{i} on the wire is {p:?}, announcement #{i} is {:?}; wire = {:?}; announced = {:?}",
                    c.outs.get(i),
                    c.rx.iter().map(|x| &x.0).collect::<Vec<_>>(),
                    c.outs
                );
            }
            if c.failed.is_none() {
                ensure!(
                    c.rx.len() == c.outs.len(),
                    format!("announced_packet_not_on_wire:{v}"),
                    "connection {ci} (never failed): announced {:?}, on the wire {:?}",
                    c.outs,
                    c.rx.iter().map(|x| &x.0).collect::<Vec<_>>()
                );
            }
            // (c) flushed before handed out
            let write_cut = matches!(c.cut, Some((Dir::ClientToBroker, _)));
            for (g, wbytes, t) in &c.flush_marks {
                if *g == 0 || write_cut {
                    continue;
                }
                if let Some((p, end, _)) = c.rx.get(*g - 1) {
                    ensure!(
                        end <= wbytes,
                        format!("announced_before_flush:{v}"),
                        "connection {ci}: at {t} ms poll() had announced {g} packets; packet #{} {p:?} ends at byte {end} of the stream but the transport had only accepted {wbytes} bytes",
                        g - 1
                    );
                }
            }
            // (d) replies
            let mut cursor = 0usize;
            let mut known_q2: HashSet<u16> = HashSet::new();
            for (i, p) in c.ins.iter().enumerate() {
                let expect = match p {
                    Pkt::Publish { qos: 1, pkid, .. } => Some(Out::PubAck(*pkid)),
                    Pkt::Publish { qos: 2, pkid, .. } => {
                        known_q2.insert(*pkid);
                        Some(Out::PubRec(*pkid))
                    }
                    Pkt::PubRel(id) if known_q2.remove(id) => Some(Out::PubComp(*id)),
                    _ => None,
                };
                if let Some(x) = expect {
                    match c.outs[cursor..].iter().position(|o| *o == x) {
                        Some(k) => cursor += k + 1,
                        None => {
                            let last_and_failed = i + 1 == c.ins.len() && c.failed.is_some();
                            ensure!(
                                last_and_failed,
                                format!("reply_missing:{v}"),
                                "connection {ci}: incoming {p:?} was surfaced, the reply {x:?} was never announced; announced = {:?}",
                                c.outs
                            );
                        }
                    }
                }
            }
        }
        // every notification generated was handed out by the end
        if !out.poll_budget_exhausted {
            ensure!(
                prev.queued.is_empty(),
                format!("notifications_not_handed_out:{v}"),
                "at the horizon notifications are still queued: {:?}",
                prev.queued
            );
        }
    }
    Ok(facts)
}
