//! Library part of the verification harness: engines and per-property plans. The `vcheck`
//! binary (src/main.rs) is the command-line front end; the cargo-fuzz targets under
//! /verif/fuzz link against this library and call the same oracles.
#![allow(clippy::too_many_arguments, clippy::type_complexity)]

pub mod brokersim;
pub mod clientloop;
pub mod clientstate;
pub mod codec;
pub mod commitlog;
pub mod engine;
pub mod fullstack;
pub mod fuzzdec;
pub mod props;
pub mod topic;
