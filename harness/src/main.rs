//! vcheck <property id> [--tier quick|thorough] [--replay <file>]
//!
//! exit 0: property held on everything explored (KNOWN-FINDING lines possible)
//! exit 1: `VIOLATION property=<id> replay=<path>` printed
//! exit 2: inconclusive (generator health, watchdog, usage)

use vcheck::engine;
use vcheck::engine::known::Known;
use vcheck::engine::{FoundViolation, Report, Tier};
use vcheck::props;
use std::path::PathBuf;

fn main() {
    let args: Vec<String> = std::env::args().collect();
    if args.len() < 2 {
        eprintln!("usage: vcheck <id> [--tier quick|thorough] [--replay file]");
        std::process::exit(2);
    }
    let id = args[1].clone();
    let mut tier = match std::env::var("VERIF_TIER").as_deref() {
        Ok("thorough") => Tier::Thorough,
        _ => Tier::Quick,
    };
    let mut replay: Option<PathBuf> = None;
    let mut i = 2;
    while i < args.len() {
        match args[i].as_str() {
            "--tier" => {
                i += 1;
                tier = if args.get(i).map(|s| s.as_str()) == Some("thorough") {
                    Tier::Thorough
                } else {
                    Tier::Quick
                };
            }
            "--replay" => {
                i += 1;
                replay = args.get(i).map(PathBuf::from);
            }
            other => {
                eprintln!("unknown argument {other}");
                std::process::exit(2);
            }
        }
        i += 1;
    }
    let seed: u64 = std::env::var("VERIF_SEED")
        .ok()
        .and_then(|s| s.trim().parse::<i128>().ok())
        .map(|v| v as u64)
        .unwrap_or(1);

    engine::install_panic_hook();
    let id_static: &'static str = match props::ALL.iter().find(|p| **p == id) {
        Some(p) => p,
        None => {
            eprintln!("unknown property {id}");
            std::process::exit(2);
        }
    };
    let plan = match props::plan(id_static, tier) {
        Some(p) => p,
        None => {
            eprintln!("property {id} has no check");
            std::process::exit(2);
        }
    };
    let known = Known::load();

    if let Some(path) = replay {
        std::process::exit(do_replay(id_static, &plan, &known, &path));
    }

    engine::start_watchdog(tier.pick(120, 600));
    let mut rep = Report::new(id_static, tier, seed);
    rep.rule = plan.rule.clone();
    rep.assumptions = plan.assumptions.clone();

    // 1. replay tier: every saved case under /verif/regress/<id>/
    let mut exit = 0;
    let regress_dir = engine::verif_root().join("regress").join(id_static);
    let mut files: Vec<PathBuf> = std::fs::read_dir(&regress_dir)
        .map(|d| d.filter_map(|e| e.ok().map(|e| e.path())).collect())
        .unwrap_or_default();
    files.sort();
    // mutation analysis only (tools/mutant.sh): measure what the generated search alone finds
    if std::env::var_os("VERIF_NO_REGRESS").is_some_and(|v| !v.is_empty()) {
        files.clear();
    }
    let mut regress_run = 0u64;
    for f in files.iter().filter(|f| f.extension().is_some_and(|e| e == "json")) {
        let rf = match engine::load_replay(f) {
            Ok(r) => r,
            Err(e) => {
                rep.inconclusive.push(format!("regress file unreadable: {e}"));
                continue;
            }
        };
        let Some(c) = plan.campaigns.iter().find(|c| c.name() == rf.campaign) else {
            rep.inconclusive
                .push(format!("regress file {} names unknown campaign {}", f.display(), rf.campaign));
            continue;
        };
        regress_run += 1;
        let mut failure = None;
        for _ in 0..rf.repeat.max(1) {
            match c.replay(&rf.case) {
                Ok(Ok(())) => {}
                Ok(Err(fl)) => {
                    failure = Some(fl);
                    break;
                }
                Err(e) => {
                    rep.inconclusive
                        .push(format!("regress file {} does not deserialize: {e}", f.display()));
                    break;
                }
            }
            engine::tick();
        }
        if let Some(fl) = failure {
            // only a case saved as the reproduction of a listed finding may be excused
            let fname = f.file_name().and_then(|n| n.to_str()).unwrap_or("");
            let excused = if rf.expect == "known" { known.find_ctx(id_static, &fl.signature, fname) } else { None };
            if let Some(k) = excused {
                if !rep.known_hits.iter().any(|(kf, _)| *kf == k.kf) {
                    rep.known_hits.push((k.kf.clone(), k.what.clone()));
                }
            } else {
                println!("regress case {} fails: {} :: {}", f.display(), fl.signature, fl.detail);
                println!("VIOLATION property={} replay={}", id_static, f.display());
                rep.violations.push(FoundViolation {
                    campaign: rf.campaign.clone(),
                    failure: fl,
                    case: rf.case.clone(),
                    shrunk: true,
                });
                exit = 1;
            }
        }
    }
    rep.counters.insert("regress_cases_replayed".into(), regress_run);

    // 2. exhaustive enumerators and campaigns
    let already = rep.violations.len();
    for e in &plan.enumerators {
        e(&mut rep);
    }
    for c in &plan.campaigns {
        c.run(&mut rep, &known);
    }

    // 3. classify what was found
    let found: Vec<FoundViolation> = rep.violations[already..].to_vec();
    for (n, v) in found.iter().enumerate() {
        let is_probe_campaign = plan
            .campaigns
            .iter()
            .any(|c| c.name() == v.campaign && !c.probes().is_empty());
        let k = known.find_ctx(id_static, &v.failure.signature, &v.campaign);
        match (is_probe_campaign, k) {
            (true, Some(k)) => {
                if !rep.known_hits.iter().any(|(kf, _)| *kf == k.kf) {
                    rep.known_hits.push((k.kf.clone(), k.what.clone()));
                }
            }
            _ => {
                let path = engine::write_replay(&rep, v, n);
                println!(
                    "violation in campaign {}: {} :: {}",
                    v.campaign, v.failure.signature, v.failure.detail
                );
                println!("VIOLATION property={} replay={}", id_static, path.display());
                exit = 1;
            }
        }
    }
    // known findings hit (and tolerated) inside probe campaigns
    let hit_sigs: Vec<(String, String)> = rep
        .counters
        .keys()
        .filter_map(|k| k.split_once(":known_hit:").map(|(c, s)| (c.to_string(), s.to_string())))
        .collect();
    for (c, s) in hit_sigs {
        if let Some(k) = known.find_ctx(id_static, &s, &c) {
            if !rep.known_hits.iter().any(|(kf, _)| *kf == k.kf) {
                rep.known_hits.push((k.kf.clone(), k.what.clone()));
            }
        }
    }
    for (kf, what) in &rep.known_hits {
        println!("KNOWN-FINDING: property={id_static} kf={kf} {what}");
    }
    for k in known.for_property(id_static) {
        if !rep.known_hits.iter().any(|(kf, _)| *kf == k.kf) {
            rep.note(format!("known finding {} was not reproduced by this run", k.kf));
        }
    }
    // the evidence counts only real violations
    let n_viol = rep
        .violations
        .iter()
        .filter(|v| {
            let is_probe = plan
                .campaigns
                .iter()
                .any(|c| c.name() == v.campaign && !c.probes().is_empty());
            !(is_probe && known.find(id_static, &v.failure.signature).is_some())
        })
        .count();
    rep.violations.truncate(n_viol.min(rep.violations.len()));
    // a few watchdog expiries can happen on an overloaded machine; many mean that something the
    // cases wait for systematically never happens, which the run cannot decide either way
    let watchdogs: u64 = rep.counters.iter().filter(|(k, _)| k.ends_with("watchdog_inconclusive")).map(|(_, v)| *v).sum();
    if watchdogs >= 5 {
        rep.inconclusive.push(format!("{watchdogs} cases ended with a watchdog expiry (neither the awaited event nor quiescence was observed)"));
    }
    let healthy = engine::write_evidence(&rep, plan.min_nontrivial);
    println!(
        "{} tier={} seed={} evaluations={} distinct_nontrivial={} violations={} known={} wall={:.1}s",
        id_static,
        tier.name(),
        seed,
        rep.evaluations,
        rep.distinct_nontrivial(),
        if exit == 1 { n_viol.max(1) } else { 0 },
        rep.known_hits.len(),
        rep.started.elapsed().as_secs_f64()
    );
    if exit == 0 && !rep.inconclusive.is_empty() {
        for i in &rep.inconclusive {
            println!("INCONCLUSIVE {i}");
        }
        exit = 2;
    }
    if exit == 0 && !healthy {
        println!(
            "INCONCLUSIVE generator health: distinct_nontrivial {} < {}",
            rep.distinct_nontrivial(),
            plan.min_nontrivial
        );
        exit = 2;
    }
    std::process::exit(exit);
}

fn do_replay(id: &'static str, plan: &engine::Plan, known: &Known, path: &std::path::Path) -> i32 {
    let rf = match engine::load_replay(path) {
        Ok(r) => r,
        Err(e) => {
            eprintln!("{e}");
            return 2;
        }
    };
    let Some(c) = plan.campaigns.iter().find(|c| c.name() == rf.campaign) else {
        eprintln!("unknown campaign {}", rf.campaign);
        return 2;
    };
    // router-level cases depend on hash-map order: re-execute several times
    let repeat = rf.repeat.max(16);
    for _ in 0..repeat {
        match c.replay(&rf.case) {
            Ok(Ok(())) => {}
            Ok(Err(f)) => {
                println!("replay fails: {} :: {}", f.signature, f.detail);
                if let Some(k) = known.find(id, &f.signature) {
                    println!("KNOWN-FINDING: property={id} kf={} {}", k.kf, k.what);
                    return 0;
                }
                println!("VIOLATION property={} replay={}", id, path.display());
                return 1;
            }
            Err(e) => {
                eprintln!("case does not deserialize: {e}");
                return 2;
            }
        }
    }
    println!("replay passes ({repeat} executions)");
    0
}
