//! Engine E3 — commit log: op interpreter + reference model for `rumqttd::verif::CommitLog`.
//!
//! The model is the append history (global index = number of earlier appends) plus, for every
//! cursor the log issued, the global index that cursor denoted when it was issued. The model
//! does NOT replicate the segment arithmetic of the code under test: which entries are
//! *retained* is observed with a full scan after every append, and the scan itself is checked
//! against the retention rules of the statement / doc comments (contiguous suffix, whole oldest
//! segments only, at most `max_mem_segments` segments, segment size bound).

use crate::engine::*;
use crate::{ensure, fail};
use proptest::prelude::*;
use rumqttd::verif::{CommitLog, Position, Storage};
use serde::{Deserialize, Serialize};

/// Entry type stored in the log: explicit size, unique serial number
#[derive(Clone, Debug, PartialEq, Eq)]
pub struct Item {
    pub serial: u64,
    pub size: usize,
}

impl Storage for Item {
    fn size(&self) -> usize {
        self.size
    }
}

/// read lengths; u64::MAX is what an "unlimited" `max_outgoing_packet_count` setting passes down
pub const LENS: [u64; 8] = [0, 1, 2, 3, 10, 100, 1_000_000, u64::MAX];
/// length used for the full scans (large, but `idx + len` cannot overflow)
const SCAN_LEN: u64 = 1 << 40;

/// One component of a fabricated cursor
#[derive(Clone, Copy, Debug, Serialize, Deserialize)]
pub enum Fab {
    /// literal value
    Abs(u64),
    /// u64::MAX - d
    Max(u8),
    /// same component of the live tail cursor (`next_offset()`) plus d (wrapping)
    Tail(i16),
    /// same component of the oldest retained entry's tag plus d (wrapping)
    Head(i16),
    /// same component of some issued cursor
    Pool(u16),
}

#[derive(Clone, Debug, Serialize, Deserialize)]
pub enum Op {
    /// append an entry of exactly this size
    Append { size: u32 },
    /// append an entry whose size brings the newest segment (as observed through the tags) to
    /// `max_segment_size + delta` bytes (at least 1 byte)
    AppendFill { delta: i8 },
    /// read through an issued cursor. `sel` chooses the sub-pool (see `Model::choose`), `pick`
    /// the element (monotone index), `len` = LENS[len_ix]
    Read { sel: u8, pick: u16, len_ix: u8 },
    /// read through a fabricated cursor: only "does not panic" is asserted
    ReadFab { seg: Fab, off: Fab, len_ix: u8 },
}

#[derive(Clone, Debug, Serialize, Deserialize)]
pub struct Case {
    pub seg_size: usize,
    pub max_segs: usize,
    pub ops: Vec<Op>,
}

#[derive(Clone, Copy, Debug, PartialEq, Eq)]
pub enum Kind {
    /// `next_offset()` at some moment
    Tail,
    /// return value of `append` (the tail right after that append)
    AppendRet,
    /// the tag an entry carried in a read
    Tag,
    /// `Position::{Next,Done}.end` of an earlier read through an issued cursor
    Cont,
}

#[derive(Clone, Copy, Debug)]
struct Issued {
    cur: (u64, u64),
    /// global index of the first entry a read through this cursor may return
    idx: usize,
    kind: Kind,
}

struct Hist {
    serial: u64,
    size: usize,
    /// tag observed in the scan that followed the append
    tag: Option<(u64, u64)>,
}

/// Per-case statistics used for classes / non-triviality
#[derive(Default)]
pub struct Stats {
    pub appends: u64,
    pub reads: u64,
    pub fab_reads: u64,
    pub evictions: u64,
    pub stale_reads: u64,
    pub cross_reads: u64,
    pub boundary_cursor_reads: u64,
    pub len0_reads: u64,
    pub done_reads: u64,
    pub next_reads: u64,
    pub big_entries: u64,
    pub chained_reads: u64,
    /// cursor classes / len classes seen in non-trivial reads (bit sets)
    pub nt_cursor: u8,
    pub nt_len: u8,
    pub max_segments_seen: usize,
    /// reads whose `Position.start` differs from the cursor although no entry was skipped
    pub jumps_without_loss: u64,
    pub huge_len_reads: u64,
}

struct Model {
    seg_size: usize,
    max_segs: usize,
    hist: Vec<Hist>,
    /// global index of the oldest retained entry (== hist.len() while the log is empty)
    oldest: usize,
    pool: Vec<Issued>,
    stats: Stats,
}

fn len_class(len: u64) -> u8 {
    match len {
        0 => 0,
        1 => 1,
        2..=10 => 2,
        _ => 3,
    }
}

impl Model {
    /// tag of a history entry (every entry is scanned right after its append)
    fn tag(&self, i: usize) -> (u64, u64) {
        self.hist[i].tag.unwrap_or((u64::MAX, u64::MAX))
    }

    fn issue(&mut self, cur: (u64, u64), idx: usize, kind: Kind) {
        self.pool.push(Issued { cur, idx, kind });
    }

    /// Full scan from the oldest possible cursor; checks the retention clauses and records
    /// which suffix of the history is retained.
    fn scan(&mut self, log: &CommitLog<Item>) -> Result<(), Failure> {
        let mut out: Vec<(Item, (u64, u64))> = Vec::new();
        let pos = guard("scan_readv", || log.readv((0, 0), SCAN_LEN, &mut out))?;
        let pos = match pos {
            Ok(p) => p,
            Err(e) => fail!("scan:io_error", "full scan returned Err({e})"),
        };
        let n = self.hist.len();
        ensure!(
            matches!(pos, Position::Done { .. }),
            "scan:not_caught_up_after_reading_everything",
            "full scan (len 2^40) of a log with {n} appended entries returned {pos:?}"
        );
        if n == 0 {
            ensure!(out.is_empty(), "scan:invented_entry", "empty log returned {} entries", out.len());
            return Ok(());
        }
        ensure!(
            out.last().map(|(i, _)| i.serial) == Some(self.hist[n - 1].serial),
            "scan:newest_entry_not_last",
            "newest entry (serial {}) is not the last one of the full scan; scan ends with {:?}",
            self.hist[n - 1].serial,
            out.last()
        );
        ensure!(out.len() <= n, "scan:invented_entry", "scan returned {} entries, only {n} were appended", out.len());
        let k = n - out.len();
        for (j, (item, _)) in out.iter().enumerate() {
            let h = &self.hist[k + j];
            ensure!(
                item.serial == h.serial && item.size == h.size,
                "scan:not_a_contiguous_suffix_of_history",
                "scan position {j}: got serial {} expected {} (suffix starting at global index {k} of {n})",
                item.serial,
                h.serial
            );
        }
        ensure!(
            k >= self.oldest,
            "scan:discarded_entry_reappeared",
            "oldest retained index went back from {} to {k}",
            self.oldest
        );
        // tags: stable per entry, segment non-decreasing, absolute offset +1 per entry
        for (j, (_, tag)) in out.iter().enumerate() {
            let gi = k + j;
            if let Some(seen) = self.hist[gi].tag {
                ensure!(
                    seen == *tag,
                    "scan:tag_of_entry_changed",
                    "entry {gi} was tagged {seen:?} earlier and {tag:?} now"
                );
            }
            if let Some(p) = gi.checked_sub(1).and_then(|pi| self.hist[pi].tag) {
                ensure!(
                    tag.0 >= p.0,
                    "scan:segment_number_decreases",
                    "entry {gi} tagged {tag:?} after entry {} tagged {p:?}",
                    gi - 1
                );
                ensure!(
                    p.1.checked_add(1) == Some(tag.1),
                    "scan:absolute_offsets_not_consecutive",
                    "entry {gi} tagged {tag:?} after entry {} tagged {p:?}",
                    gi - 1
                );
            }
            if self.hist[gi].tag.is_none() {
                self.hist[gi].tag = Some(*tag);
                self.issue(*tag, gi, Kind::Tag);
            }
        }
        // segments kept
        let mut groups: Vec<(u64, u64, usize)> = Vec::new(); // (segment, total size, size of last)
        for (item, tag) in &out {
            match groups.last_mut() {
                Some(g) if g.0 == tag.0 => {
                    g.1 += item.size as u64;
                    g.2 = item.size;
                }
                _ => groups.push((tag.0, item.size as u64, item.size)),
            }
        }
        ensure!(
            groups.len() <= self.max_segs,
            "retention:more_segments_than_max_mem_segments",
            "{} distinct segments {:?} retained, max_mem_segments = {}",
            groups.len(),
            groups.iter().map(|g| g.0).collect::<Vec<_>>(),
            self.max_segs
        );
        let count = guard("memory_segments_count", || log.memory_segments_count())?;
        ensure!(
            count <= self.max_segs,
            "retention:memory_segments_count_exceeds_max",
            "memory_segments_count() = {count}, max_mem_segments = {}",
            self.max_segs
        );
        if k > 0 {
            ensure!(
                self.tag(k - 1).0 < out[0].1 .0,
                "retention:partially_discarded_segment",
                "entry {} (tag {:?}) is gone while entry {k} of the same segment (tag {:?}) is retained",
                k - 1,
                self.tag(k - 1),
                out[0].1
            );
        }
        if k > self.oldest {
            ensure!(
                groups.len() == self.max_segs,
                "retention:discarded_before_limit_reached",
                "entries {}..{k} were discarded although only {} of {} segments are in use",
                self.oldest,
                groups.len(),
                self.max_segs
            );
            self.stats.evictions += 1;
        }
        for (gi, g) in groups.iter().enumerate() {
            ensure!(
                g.1 - (g.2 as u64) < self.seg_size as u64,
                "segment:size_exceeds_limit_before_last_entry",
                "segment {} holds {} bytes, {} before its last entry; max_segment_size = {}",
                g.0,
                g.1,
                g.1 - g.2 as u64,
                self.seg_size
            );
            if gi + 1 < groups.len() {
                ensure!(
                    g.1 >= self.seg_size as u64,
                    "segment:closed_before_full",
                    "segment {} was closed with {} bytes; max_segment_size = {}",
                    g.0,
                    g.1,
                    self.seg_size
                );
            }
        }
        self.stats.max_segments_seen = self.stats.max_segments_seen.max(groups.len());
        self.oldest = k;
        Ok(())
    }

    /// bytes in the newest segment as observed through the tags
    fn newest_segment_fill(&self) -> u64 {
        let Some(last) = self.hist.last() else { return 0 };
        self.hist
            .iter()
            .rev()
            .take_while(|h| h.tag.map(|t| t.0) == last.tag.map(|t| t.0))
            .map(|h| h.size as u64)
            .sum()
    }

    fn append(&mut self, log: &mut CommitLog<Item>, size: usize) -> Result<(), Failure> {
        let serial = self.hist.len() as u64 + 1000;
        let item = Item { serial, size };
        let ret = guard("append", || log.append(item))?;
        self.hist.push(Hist { serial, size, tag: None });
        self.stats.appends += 1;
        if size >= self.seg_size {
            self.stats.big_entries += 1;
        }
        let n = self.hist.len();
        self.issue(ret, n, Kind::AppendRet);
        let tail = guard("next_offset", || log.next_offset())?;
        self.issue(tail, n, Kind::Tail);
        self.scan(log)
    }

    /// Chooses an issued cursor. `sel` selects a sub-pool (construction, not rejection: an empty
    /// sub-pool falls back to the whole pool).
    fn choose(&self, sel: u8, pick: u16) -> usize {
        let n = self.hist.len();
        let all = self.pool.len();
        let filtered: Vec<usize> = match sel % 8 {
            0 | 1 => Vec::new(),
            2 => (all.saturating_sub(6)..all).collect(),
            3 => (0..all).filter(|&i| self.pool[i].kind == Kind::Cont).collect(),
            4 => (0..all).filter(|&i| self.pool[i].kind == Kind::Tag).collect(),
            5 => (0..all)
                .filter(|&i| matches!(self.pool[i].kind, Kind::Tail | Kind::AppendRet))
                .collect(),
            6 => (0..all).filter(|&i| self.pool[i].idx >= self.oldest).collect(),
            _ => (0..all)
                .filter(|&i| {
                    let c = &self.pool[i];
                    c.idx >= self.oldest && c.idx < n && self.tag(c.idx).0 != c.cur.0
                })
                .collect(),
        };
        if filtered.is_empty() {
            idx(pick, all)
        } else {
            filtered[idx(pick, filtered.len())]
        }
    }

    fn read(&mut self, log: &CommitLog<Item>, which: usize, len: u64) -> Result<(), Failure> {
        let Issued { cur, idx: ci, kind } = self.pool[which];
        let n = self.hist.len();
        let s = ci.max(self.oldest).min(n);
        let want = (len.min(n as u64) as usize).min(n - s);
        let mut out: Vec<(Item, (u64, u64))> = Vec::new();
        let pos = guard("readv", || log.readv(cur, len, &mut out))?;
        let pos = match pos {
            Ok(p) => p,
            Err(e) => fail!("read:io_error", "readv({cur:?}, {len}) returned Err({e})"),
        };
        let ctx = |m: &Model| {
            format!(
                "readv(cursor {cur:?} [{kind:?}, denotes index {ci}], len {len}); history has {n} entries, retained from index {}; returned {} entries {:?}, {pos:?}",
                m.oldest,
                out.len(),
                out.iter().take(4).map(|(i, t)| (i.serial - 1000, *t)).collect::<Vec<_>>()
            )
        };
        for (j, (item, tag)) in out.iter().enumerate() {
            ensure!(j < want, "read:returned_more_than_expected", "expected {want} entries from index {s}: {}", ctx(self));
            let h = &self.hist[s + j];
            if item.serial != h.serial {
                if item.serial < h.serial {
                    fail!(
                        "read:repeated_or_discarded_or_earlier_entry",
                        "position {j}: got entry {} expected entry {}: {}",
                        item.serial - 1000,
                        s + j,
                        ctx(self)
                    );
                }
                fail!(
                    "read:gap_skipped_retained_entry",
                    "position {j}: got entry {} expected entry {}: {}",
                    item.serial - 1000,
                    s + j,
                    ctx(self)
                );
            }
            ensure!(
                Some(*tag) == h.tag,
                "read:entry_not_tagged_with_its_own_offset",
                "position {j}: entry {} tagged {tag:?}, its offset is {:?}: {}",
                s + j,
                h.tag,
                ctx(self)
            );
        }
        ensure!(
            out.len() == want,
            "read:returned_fewer_than_available",
            "expected {want} entries from index {s}: {}",
            ctx(self)
        );
        let remains = s + out.len() < n;
        let (start, end, done) = match pos {
            Position::Next { start, end } => (start, end, false),
            Position::Done { start, end } => (start, end, true),
        };
        if done {
            ensure!(!remains, "read:caught_up_reported_but_entries_remain", "{} retained entries remain: {}", n - s - out.len(), ctx(self));
        } else {
            ensure!(remains, "read:not_caught_up_reported_but_nothing_remains", "{}", ctx(self));
        }
        // Position.start = the position actually read from (the router raises a cursor-jump
        // alert when it differs from the cursor)
        if ci < self.oldest {
            let t = self.tag(self.oldest);
            ensure!(
                start == t,
                "read:start_is_not_oldest_retained_after_jump",
                "cursor pointed into discarded data, oldest retained entry is tagged {t:?}, start = {start:?}: {}",
                ctx(self)
            );
        } else if ci > self.oldest || n == 0 {
            ensure!(start == cur, "read:start_differs_from_cursor_without_data_loss", "start = {start:?}: {}", ctx(self));
        } else {
            let t = self.tag(self.oldest);
            ensure!(
                start == cur || start == t,
                "read:start_neither_cursor_nor_oldest_retained",
                "start = {start:?}: {}",
                ctx(self)
            );
        }
        // statistics
        let stale = ci < self.oldest;
        let mut segs: Vec<u64> = out.iter().map(|(_, t)| t.0).collect();
        segs.dedup();
        let cross = segs.len() >= 2 || (!out.is_empty() && out[0].1 .0 != cur.0 && !stale);
        let boundary = !stale && ci < n && self.tag(ci).0 != cur.0;
        let st = &mut self.stats;
        st.reads += 1;
        if stale {
            st.stale_reads += 1;
        }
        if cross {
            st.cross_reads += 1;
        }
        if boundary {
            st.boundary_cursor_reads += 1;
        }
        if len == 0 {
            st.len0_reads += 1;
        }
        if len == u64::MAX {
            st.huge_len_reads += 1;
        }
        if !stale && start != cur {
            st.jumps_without_loss += 1;
        }
        if done {
            st.done_reads += 1;
        } else {
            st.next_reads += 1;
        }
        if kind == Kind::Cont {
            st.chained_reads += 1;
        }
        if stale || cross {
            let cc = if stale {
                8
            } else if ci == n {
                1
            } else {
                match kind {
                    Kind::Tag => 2,
                    Kind::Cont => 4,
                    _ => 1,
                }
            };
            st.nt_cursor |= cc;
            st.nt_len |= 1 << len_class(len);
        }
        self.issue(end, s + out.len(), Kind::Cont);
        Ok(())
    }

    fn fab(&self, f: Fab, second: bool, tail: (u64, u64)) -> u64 {
        let comp = |c: (u64, u64)| if second { c.1 } else { c.0 };
        match f {
            Fab::Abs(v) => v,
            Fab::Max(d) => u64::MAX - d as u64,
            Fab::Tail(d) => comp(tail).wrapping_add_signed(d as i64),
            Fab::Head(d) => {
                let h = if self.oldest < self.hist.len() { self.tag(self.oldest) } else { (0, 0) };
                comp(h).wrapping_add_signed(d as i64)
            }
            Fab::Pool(p) => comp(self.pool[idx(p, self.pool.len())].cur),
        }
    }
}

/// Executes one case against the real `CommitLog` and the model.
pub fn run_case(case: &Case, obs: &mut Obs) -> Result<Stats, Failure> {
    // Precondition of `CommitLog::new` (it panics otherwise; a broker with such a config does
    // not start): max_segment_size >= 1024, max_mem_segments >= 1
    if case.seg_size < 1024 || case.max_segs < 1 {
        obs.count("cases_outside_constructor_precondition", 1);
        return Ok(Stats::default());
    }
    let (seg_size, max_segs) = (case.seg_size, case.max_segs);
    let log = guard("new", || CommitLog::<Item>::new(seg_size, max_segs))?;
    let mut log = match log {
        Ok(l) => l,
        Err(e) => fail!("new:io_error", "CommitLog::new({seg_size}, {max_segs}) = Err({e})"),
    };
    let mut m = Model {
        seg_size,
        max_segs,
        hist: Vec::new(),
        oldest: 0,
        pool: Vec::new(),
        stats: Stats::default(),
    };
    let t0 = guard("next_offset", || log.next_offset())?;
    m.issue(t0, 0, Kind::Tail);
    m.scan(&log)?;
    for op in &case.ops {
        match op {
            Op::Append { size } => m.append(&mut log, *size as usize)?,
            Op::AppendFill { delta } => {
                let fill = m.newest_segment_fill();
                let base = if fill >= seg_size as u64 { seg_size as i64 } else { seg_size as i64 - fill as i64 };
                let size = (base + *delta as i64).max(1) as usize;
                m.append(&mut log, size)?
            }
            Op::Read { sel, pick, len_ix } => {
                let which = m.choose(*sel, *pick);
                let len = LENS[idx_u8(*len_ix, LENS.len())];
                m.read(&log, which, len)?
            }
            Op::ReadFab { seg, off, len_ix } => {
                let tail = guard("next_offset", || log.next_offset())?;
                let cur = (m.fab(*seg, false, tail), m.fab(*off, true, tail));
                let len = LENS[idx_u8(*len_ix, LENS.len())];
                let mut out = Vec::new();
                // only "does not panic for any cursor value"
                let _ = guard("readv_fabricated_cursor", || log.readv(cur, len, &mut out))?;
                m.stats.fab_reads += 1;
            }
        }
    }
    Ok(m.stats)
}

fn idx_u8(i: u8, len: usize) -> usize {
    (i as usize).min(len - 1)
}

// ---------------------------------------------------------------------------------------------
// generators

fn fab() -> impl Strategy<Value = Fab> {
    prop_oneof![
        2 => prop_oneof![Just(0u64), Just(1u64), 0u64..64, any::<u64>()].prop_map(Fab::Abs),
        2 => (0u8..4).prop_map(Fab::Max),
        4 => (-3i16..=3).prop_map(Fab::Tail),
        3 => (-3i16..=3).prop_map(Fab::Head),
        2 => any::<u16>().prop_map(Fab::Pool),
        1 => prop_oneof![Just(i16::MIN), Just(i16::MAX), any::<i16>()].prop_map(Fab::Tail),
    ]
}

pub fn op() -> impl Strategy<Value = Op> {
    prop_oneof![
        25 => (1u32..=64).prop_map(|size| Op::Append { size }),
        20 => (400u32..=1100).prop_map(|size| Op::Append { size }),
        3 => (1025u32..=6000).prop_map(|size| Op::Append { size }),
        7 => prop_oneof![Just(0i8), Just(-1i8), Just(1i8), -8i8..=8].prop_map(|delta| Op::AppendFill { delta }),
        35 => (0u8..8, any::<u16>(), 0u8..LENS.len() as u8)
            .prop_map(|(sel, pick, len_ix)| Op::Read { sel, pick, len_ix }),
        10 => (fab(), fab(), 0u8..LENS.len() as u8)
            .prop_map(|(seg, off, len_ix)| Op::ReadFab { seg, off, len_ix }),
    ]
}

pub fn case(max_ops: usize) -> impl Strategy<Value = Case> {
    (
        prop::sample::select(vec![1024usize, 1500, 4096]),
        1usize..=5,
        prop::collection::vec(op(), 0..=max_ops),
    )
        .prop_map(|(seg_size, max_segs, ops)| Case { seg_size, max_segs, ops })
}
