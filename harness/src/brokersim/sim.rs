//! Deterministic single-threaded driver of the real `rumqttd::Router` (hooks H1, H2, H4).
//! One `verif_turn()` is exactly one iteration of the production loop body; it returns false
//! exactly where the production router would block on its channel.

use super::types::*;
use crate::engine::{guard, Failure};
use bytes::{BufMut, Bytes, BytesMut};
use rumqttd::local::{LinkBuilder, LinkRx, LinkTx};
use rumqttd::protocol::{
    ConnAck, ConnectReturnCode, Disconnect, DisconnectReasonCode, Filter, LastWill, Packet,
    PingReq, PingResp, PubAck, PubAckReason, PubComp, PubCompReason, PubRec, PubRecReason, PubRel,
    PubRelProperties, PubRelReason, Publish, PublishProperties, QoS, RetainForwardRule, SubAck,
    Subscribe, SubscribeProperties, UnsubAck, Unsubscribe,
};
use rumqttd::verif::{DeferredLink, Event, ShadowRequest, VerifSnapshot};
use rumqttd::{Notification, Router, RouterConfig, Strategy};
use std::collections::VecDeque;

pub fn qos_of(q: u8) -> QoS {
    match q {
        0 => QoS::AtMostOnce,
        1 => QoS::AtLeastOnce,
        _ => QoS::ExactlyOnce,
    }
}

/// Builds a broker `Publish` (its qos/pkid/dup fields are crate-private) through the public,
/// lossless `Publish::deserialize`
pub fn make_publish(topic: &[u8], payload: &[u8], qos: u8, pkid: u16, retain: bool, dup: bool) -> Publish {
    let mut o = BytesMut::with_capacity(5 + topic.len() + payload.len());
    o.put_u8(0b0011_0000 | (retain as u8) | ((qos & 3) << 1) | ((dup as u8) << 3));
    o.put_u16(pkid);
    o.put_u16(topic.len() as u16);
    o.extend_from_slice(topic);
    o.extend_from_slice(payload);
    Publish::deserialize(o.freeze())
}

/// (qos, pkid, dup) of a broker `Publish`, read back through the public `serialize`
pub fn publish_header(p: &Publish) -> (u8, u16, bool) {
    let b = p.serialize();
    let h = b[0];
    ((h & 0b0110) >> 1, u16::from_be_bytes([b[1], b[2]]), h & 0b1000 != 0)
}

pub fn to_props(p: &Props) -> PublishProperties {
    PublishProperties {
        payload_format_indicator: p.payload_format_indicator,
        message_expiry_interval: None,
        topic_alias: p.topic_alias,
        response_topic: p.response_topic.clone(),
        correlation_data: p.correlation_data.clone().map(Bytes::from),
        user_properties: p.user_properties.clone(),
        subscription_identifiers: p.subscription_identifiers.clone(),
        content_type: p.content_type.clone(),
    }
}

pub fn sub_filter(path: &str, qos: u8) -> Filter {
    Filter {
        path: path.to_string(),
        qos: qos_of(qos),
        nolocal: false,
        preserve_retain: false,
        retain_forward_rule: RetainForwardRule::OnEverySubscribe,
    }
}

pub fn subscribe_packet(pkid: u16, filters: &[(String, u8)], sub_id: Option<usize>) -> Packet {
    let s = Subscribe {
        pkid,
        filters: filters.iter().map(|(f, q)| sub_filter(f, *q)).collect(),
    };
    let props = sub_id.map(|id| SubscribeProperties {
        id: Some(id),
        user_properties: vec![],
    });
    Packet::Subscribe(s, props)
}

pub fn raw_packet(r: &Raw, pkid_for_sub: u16) -> Packet {
    match r {
        Raw::PubAck(id) => Packet::PubAck(
            PubAck {
                pkid: *id,
                reason: PubAckReason::Success,
            },
            None,
        ),
        Raw::PubRec(id) => Packet::PubRec(
            PubRec {
                pkid: *id,
                reason: PubRecReason::Success,
            },
            None,
        ),
        Raw::PubRel(id) => Packet::PubRel(
            PubRel {
                pkid: *id,
                reason: PubRelReason::Success,
            },
            None,
        ),
        Raw::PubRelProps(id) => Packet::PubRel(
            PubRel {
                pkid: *id,
                reason: PubRelReason::Success,
            },
            Some(PubRelProperties {
                reason_string: None,
                user_properties: vec![("k".into(), "v".into())],
            }),
        ),
        Raw::PubComp(id) => Packet::PubComp(
            PubComp {
                pkid: *id,
                reason: PubCompReason::Success,
            },
            None,
        ),
        Raw::ConnAck => Packet::ConnAck(
            ConnAck {
                session_present: false,
                code: ConnectReturnCode::Success,
            },
            None,
        ),
        Raw::SubAck(id) => Packet::SubAck(
            SubAck {
                pkid: *id,
                return_codes: vec![],
            },
            None,
        ),
        Raw::UnsubAck(id) => Packet::UnsubAck(
            UnsubAck {
                pkid: *id,
                reasons: vec![],
            },
            None,
        ),
        Raw::PingResp => Packet::PingResp(PingResp),
        Raw::Connect => Packet::Connect(
            rumqttd::protocol::Connect {
                keep_alive: 10,
                client_id: "x".into(),
                clean_session: true,
            },
            None,
            None,
            None,
            None,
        ),
        Raw::PublishBytes { topic, qos, retain } => Packet::Publish(
            make_publish(topic, b"raw", *qos, if *qos == 0 { 0 } else { pkid_for_sub }, *retain, false),
            None,
        ),
        Raw::Subscribe { filter, qos, sub_id } => {
            subscribe_packet(pkid_for_sub, &[(filter.clone(), *qos)], *sub_id)
        }
        Raw::Unsubscribe { filter } => Packet::Unsubscribe(
            Unsubscribe {
                pkid: pkid_for_sub,
                filters: vec![filter.clone()],
            },
            None,
        ),
    }
}

pub fn disconnect_packet(with_props: bool) -> Packet {
    Packet::Disconnect(
        Disconnect {
            reason_code: DisconnectReasonCode::NormalDisconnection,
        },
        if with_props {
            Some(rumqttd::protocol::DisconnectProperties {
                session_expiry_interval: None,
                reason_string: Some("bye".into()),
                user_properties: vec![("k".into(), "v".into())],
                server_reference: None,
            })
        } else {
            None
        },
    )
}

pub fn pingreq_packet() -> Packet {
    Packet::PingReq(PingReq)
}

#[derive(Clone, Copy, Debug, PartialEq, Eq)]
pub enum ConnState {
    /// Event::Connect sent, router reply not seen yet
    Pending,
    Live,
    /// the router never registered it
    Rejected,
    /// it was live and the router (or the client) ended it
    Ended,
}

pub struct Conn {
    pub serial: usize,
    pub slot: usize,
    pub router_id: Option<usize>,
    pub state: ConnState,
    deferred: Option<DeferredLink>,
    pub tx: Option<LinkTx>,
    pub rx: Option<LinkRx>,
    pub session_present: Option<bool>,
}

pub struct Sim {
    pub router: Router,
    pub link: flume::Sender<(usize, Event)>,
    pub conns: Vec<Conn>,
    pub turns: u64,
    /// receivers of meter/alert links that are kept alive
    meters: Vec<flume::Receiver<Vec<rumqttd::Meter>>>,
    alerts: Vec<flume::Receiver<Vec<rumqttd::Alert>>>,
}

pub struct TurnOutcome {
    /// false = the production router would now block on its channel
    pub ran: bool,
    /// events taken from the channel by this turn
    pub processed: usize,
}

impl Sim {
    pub fn new(cfg: &Cfg) -> Sim {
        let config = RouterConfig {
            max_connections: cfg.max_conn,
            max_outgoing_packet_count: cfg.max_out,
            max_segment_size: cfg.seg_size,
            max_segment_count: cfg.seg_count,
            custom_segment: None,
            initialized_filters: None,
            shared_subscriptions_strategy: match cfg.strategy {
                0 => Strategy::RoundRobin,
                1 => Strategy::Random,
                _ => Strategy::Sticky,
            },
        };
        let router = Router::new(0, config);
        let link = router.verif_link();
        Sim {
            router,
            link,
            conns: Vec::new(),
            turns: 0,
            meters: Vec::new(),
            alerts: Vec::new(),
        }
    }

    pub fn pending_events(&self) -> usize {
        self.router.verif_pending_events()
    }

    /// Sends Event::Connect for a new connection of `spec`; returns its serial
    pub fn connect(
        &mut self,
        slot: usize,
        spec: &ClientSpec,
        clean: bool,
        will: Option<(&Will, Vec<u8>)>,
        alias_max: u16,
    ) -> usize {
        let serial = self.conns.len();
        let last_will = will.map(|(w, payload)| LastWill {
            topic: Bytes::from(w.topic.clone().into_bytes()),
            message: Bytes::from(payload),
            qos: qos_of(w.qos),
            retain: w.retain,
        });
        let deferred = LinkBuilder::new(&spec.id, self.link.clone())
            .clean_session(clean)
            .last_will(last_will)
            .dynamic_filters(spec.dynamic_filters)
            .topic_alias_max(alias_max)
            .build_deferred()
            .ok();
        let state = if deferred.is_some() {
            ConnState::Pending
        } else {
            ConnState::Rejected
        };
        self.conns.push(Conn {
            serial,
            slot,
            router_id: None,
            state,
            deferred,
            tx: None,
            rx: None,
            session_present: None,
        });
        serial
    }

    /// Second half of link creation for every pending connection. Returns the serials whose
    /// state changed.
    pub fn finish_pending(&mut self) -> Vec<usize> {
        let mut changed = Vec::new();
        for c in self.conns.iter_mut() {
            if c.state != ConnState::Pending {
                continue;
            }
            let d = c.deferred.take().unwrap();
            match d.finish() {
                Ok((tx, rx, notification)) => {
                    c.router_id = Some(tx.verif_id());
                    if let Notification::DeviceAck(rumqttd::verif::Ack::ConnAck(_, ack, _)) = &notification {
                        c.session_present = Some(ack.session_present);
                    }
                    c.tx = Some(tx);
                    c.rx = Some(rx);
                    c.state = ConnState::Live;
                    changed.push(c.serial);
                }
                Err((Some(d), _)) => c.deferred = Some(d),
                Err((None, _)) => {
                    c.state = ConnState::Rejected;
                    changed.push(c.serial);
                }
            }
        }
        changed
    }

    pub fn push(&mut self, serial: usize, packet: Packet) -> bool {
        match self.conns[serial].tx.as_mut() {
            Some(tx) => {
                tx.buffer().push_back(packet);
                true
            }
            None => false,
        }
    }

    pub fn notify(&mut self, serial: usize) -> bool {
        match self.conns[serial].tx.as_mut() {
            Some(tx) => tx.verif_notify().is_ok(),
            None => false,
        }
    }

    pub fn send_event(&mut self, id: usize, event: Event) -> bool {
        self.link.try_send((id, event)).is_ok()
    }

    pub fn ready(&mut self, serial: usize) -> bool {
        match self.conns[serial].router_id {
            Some(id) => self.send_event(id, Event::Ready),
            None => false,
        }
    }

    pub fn disconnect_event(&mut self, serial: usize) -> bool {
        match self.conns[serial].router_id {
            Some(id) => self.send_event(id, Event::Disconnect),
            None => false,
        }
    }

    pub fn shadow(&mut self, id: usize, filter: &str) -> bool {
        self.send_event(
            id,
            Event::Shadow(ShadowRequest {
                filter: filter.to_string(),
            }),
        )
    }

    pub fn new_meter(&mut self, keep: bool) -> bool {
        let (tx, rx) = flume::bounded(4);
        if keep {
            self.meters.push(rx);
        }
        self.send_event(0, Event::NewMeter(tx))
    }

    pub fn new_alert(&mut self, keep: bool) -> bool {
        let (tx, rx) = flume::bounded(4);
        if keep {
            self.alerts.push(rx);
        }
        self.send_event(0, Event::NewAlert(tx))
    }

    /// One iteration of the production loop body under catch_unwind
    pub fn turn(&mut self) -> Result<TurnOutcome, Failure> {
        let before = self.pending_events();
        let router = &mut self.router;
        let ran = guard("router_turn", || router.verif_turn())?;
        self.turns += 1;
        let after = self.pending_events();
        Ok(TurnOutcome {
            ran,
            processed: before - after,
        })
    }

    /// What `LinkRx::exchange` does when a signal is pending: take the whole outgoing buffer
    pub fn drain(&mut self, serial: usize) -> Option<VecDeque<Notification>> {
        let rx = self.conns[serial].rx.as_mut()?;
        let mut out = VecDeque::new();
        if rx.verif_try_exchange(&mut out) {
            Some(out)
        } else {
            None
        }
    }

    pub fn has_signal(&self, serial: usize) -> bool {
        self.conns[serial]
            .rx
            .as_ref()
            .is_some_and(|rx| rx.verif_pending_signals() > 0)
    }

    pub fn router_dropped(&self, serial: usize) -> bool {
        self.conns[serial]
            .rx
            .as_ref()
            .is_some_and(|rx| rx.verif_router_dropped())
    }

    pub fn snapshot(&self) -> VerifSnapshot {
        self.router.verif_snapshot()
    }
}
