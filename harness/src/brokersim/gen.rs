//! History generators for the broker simulator. A `GenCfg` selects the op alphabet and its
//! weights; every property uses the same machinery with a different configuration.

use super::types::*;
use proptest::prelude::*;

pub const TOPICS: &[&str] = &["a", "a/b", "a/c", "b", "b/c", "a/b/c", "é/x", "$SYS/x"];
pub const FILTERS: &[&str] = &["a", "a/b", "a/+", "a/#", "#", "+/b", "+", "b/#", "é/+", "a/b/c", "+/+"];
/// one filter per share name and disjoint filters per group (a forward then names its group;
/// a share name with two filters is exercised by C17's focused campaign since R14 was repaired)
pub const GROUP_FILTERS: &[&str] = &["$share/g1/a/#", "$share/g2/b/#"];

#[derive(Clone, Debug)]
pub struct GenCfg {
    pub min_clients: usize,
    pub max_clients: usize,
    pub max_chunks: usize,
    /// weights of the op kinds (0 disables)
    pub w_subscribe: u32,
    pub w_unsubscribe: u32,
    pub w_publish: u32,
    pub w_burst: u32,
    pub w_release: u32,
    pub w_ping: u32,
    pub w_disconnect: u32,
    pub w_droplink: u32,
    pub w_reconnect: u32,
    pub w_turn: u32,
    pub w_drain: u32,
    pub w_ack: u32,
    pub w_settle: u32,
    pub w_will: u32,
    pub w_raw: u32,
    pub w_stale: u32,
    pub w_zombie: u32,
    pub w_tick: u32,
    pub w_shared_sub: u32,
    /// probability (percent) that a client is persistent / v5 / manual-ack / uses sub ids ...
    pub p_persistent: u32,
    pub p_v5: u32,
    pub p_manual_ack: u32,
    pub p_manual_ready: u32,
    pub p_sub_id: u32,
    pub p_alias: u32,
    pub p_will: u32,
    pub p_retain: u32,
    pub p_props: u32,
    pub p_unnotified: u32,
    pub p_empty_payload: u32,
    /// probability (percent) that a publish with properties carries a publisher topic alias
    pub p_pub_alias: u32,
    /// percentage of QoS 1/2 publishes carrying the DUP flag
    pub p_dup: u32,
    pub max_burst: usize,
    pub qos_weights: [u32; 3],
    pub small_limits: bool,
    /// slots [0, n_adversaries) draw from the misbehaviour alphabet only when w_raw > 0
    pub wide_strings: bool,
    pub topics: Vec<String>,
    pub filters: Vec<String>,
    pub big_retention: bool,
    /// logs of one or two segments of 1-2 KiB: every few publishes evict a segment
    pub tiny_retention: bool,
}

impl Default for GenCfg {
    fn default() -> Self {
        GenCfg {
            min_clients: 2,
            max_clients: 4,
            max_chunks: 40,
            w_subscribe: 6,
            w_unsubscribe: 2,
            w_publish: 20,
            w_burst: 3,
            w_release: 5,
            w_ping: 1,
            w_disconnect: 0,
            w_droplink: 0,
            w_reconnect: 0,
            w_turn: 8,
            w_drain: 8,
            w_ack: 3,
            w_settle: 2,
            w_will: 0,
            w_raw: 0,
            w_stale: 0,
            w_zombie: 0,
            w_tick: 0,
            w_shared_sub: 0,
            p_persistent: 0,
            p_v5: 30,
            p_manual_ack: 20,
            p_manual_ready: 10,
            p_sub_id: 30,
            p_alias: 0,
            p_will: 0,
            p_retain: 0,
            p_props: 20,
            p_unnotified: 25,
            p_empty_payload: 0,
            p_pub_alias: 0,
            p_dup: 8,
            max_burst: 260,
            qos_weights: [3, 4, 2],
            small_limits: false,
            wide_strings: false,
            topics: TOPICS.iter().map(|s| s.to_string()).collect(),
            filters: FILTERS.iter().map(|s| s.to_string()).collect(),
            big_retention: false,
            tiny_retention: false,
        }
    }
}

fn pct(p: u32) -> impl Strategy<Value = bool> {
    (0u32..100).prop_map(move |x| x < p)
}

fn qos(w: [u32; 3]) -> impl Strategy<Value = u8> {
    prop_oneof![w[0].max(1) => Just(0u8), w[1].max(1) => Just(1u8), w[2].max(1) => Just(2u8)]
}

pub fn cfg_strategy(g: &GenCfg, nclients: usize) -> BoxedStrategy<Cfg> {
    let seg = if g.tiny_retention {
        prop_oneof![3 => (Just(1024usize), 1usize..=2), 1 => (Just(2048usize), 1usize..=2)].boxed()
    } else if g.big_retention {
        prop_oneof![Just((65536usize, 4usize)), Just((4096, 6))].boxed()
    } else {
        prop_oneof![
            3 => (Just(1024usize), 2usize..=6),
            2 => (Just(2048usize), 1usize..=5),
            2 => (Just(65536usize), 1usize..=3),
        ]
        .boxed()
    };
    let max_conn = if g.small_limits {
        (1usize..=4).boxed()
    } else {
        Just(nclients + 4).boxed()
    };
    (
        seg,
        prop::sample::select(vec![1u64, 2, 5, 50, 200, 1000]),
        max_conn,
        0u8..3,
    )
        .prop_map(|((seg_size, seg_count), max_out, max_conn, strategy)| Cfg {
            seg_size,
            seg_count,
            max_out,
            max_conn,
            strategy,
        })
        .boxed()
}

pub fn client_strategy(g: &GenCfg, i: usize) -> BoxedStrategy<ClientSpec> {
    (pct(g.p_manual_ack), pct(g.p_manual_ready), pct(g.p_v5), pct(10))
        .prop_map(move |(manual_ack, manual_ready, v5, dynamic)| ClientSpec {
            id: format!("c{i}"),
            auto_ack: !manual_ack,
            auto_ready: !manual_ready,
            v5,
            dynamic_filters: dynamic,
        })
        .boxed()
}

fn props_strategy() -> impl Strategy<Value = Props> {
    (
        prop::option::of(0u8..2),
        prop::option::of(prop::sample::select(vec!["r", "resp/topic"]).prop_map(String::from)),
        prop::option::of(prop::collection::vec(any::<u8>(), 0..6)),
        prop::collection::vec(("[a-z]{0,3}", "[a-z]{0,3}"), 0..3),
        prop::option::of(prop::sample::select(vec!["text/plain", ""]).prop_map(String::from)),
    )
        .prop_map(|(pfi, rt, cd, up, ct)| Props {
            payload_format_indicator: pfi,
            topic_alias: None,
            response_topic: rt,
            correlation_data: cd,
            user_properties: up,
            subscription_identifiers: vec![],
            content_type: ct,
        })
}

fn will_strategy(g: &GenCfg) -> impl Strategy<Value = Will> {
    (prop::sample::select(g.topics.clone()), 0u8..3, pct(g.p_retain.max(20)), 4usize..24).prop_map(|(topic, qos, retain, size)| Will {
        topic,
        qos,
        retain,
        size,
    })
}

fn publish_strategy(g: &GenCfg, n: usize) -> BoxedStrategy<Op> {
    let topics = g.topics.clone();
    (
        0..n,
        prop::sample::select(topics),
        qos(g.qos_weights),
        pct(g.p_retain),
        prop_oneof![6 => 4usize..40, 1 => 40usize..120],
        pct(g.p_empty_payload),
        pct(g.p_props),
        props_strategy(),
        pct(g.p_unnotified),
        (pct(g.p_pub_alias), 1u16..4, pct(g.p_dup)),
    )
        .prop_map(|(c, topic, qos, retain, size, empty, with_props, mut props, unnotified, (alias, a, dup))| {
            if alias {
                props.topic_alias = Some(a);
            }
            Op::Publish {
                c,
                topic,
                qos,
                retain,
                size: if empty { 0 } else { size },
                props: if with_props { Some(props) } else { None },
                notify: !unnotified,
                dup: dup && qos > 0,
            }
        })
        .boxed()
}

fn subscribe_strategy(g: &GenCfg, n: usize) -> BoxedStrategy<Op> {
    let filters = g.filters.clone();
    (
        0..n,
        prop::collection::vec((prop::sample::select(filters), qos([2, 3, 2])), 1..=3),
        pct(g.p_sub_id),
        1usize..20,
        pct(g.p_unnotified),
    )
        .prop_map(|(c, mut filters, with_id, id, unnotified)| {
            let mut uniq: Vec<(String, u8)> = Vec::new();
            for f in filters.drain(..) {
                if !uniq.iter().any(|u| u.0 == f.0) {
                    uniq.push(f);
                }
            }
            let filters = uniq;
            Op::Subscribe {
                c,
                filters,
                sub_id: if with_id { Some(id) } else { None },
                notify: !unnotified,
            }
        })
        .boxed()
}

fn raw_strategy(g: &GenCfg, n: usize) -> BoxedStrategy<Op> {
    let ids = prop_oneof![Just(0u16), 1u16..5, Just(100u16), Just(101u16), Just(65535u16)];
    let wide = g.wide_strings;
    let filt = if wide {
        prop_oneof![
            Just("$x".to_string()),
            Just("$share/g/f".to_string()),
            Just("$share/".to_string()),
            Just("$share/g".to_string()),
            Just("".to_string()),
            Just("a/#/b".to_string()),
            Just("é".to_string()),
            Just("😀/+".to_string()),
            Just("$share/g1/a/#".to_string()),
            "\\PC{0,6}",
            "[a+#/$é]{0,6}",
        ]
        .boxed()
    } else {
        prop_oneof![Just("$x".to_string()), Just("a/#".to_string())].boxed()
    };
    let topic_bytes = prop_oneof![
        Just(b"a/b".to_vec()),
        Just(vec![0xff, 0xfe]),
        Just(Vec::new()),
        Just("é".as_bytes().to_vec()),
        Just("😀/x".as_bytes().to_vec()),
        Just(b"a/+".to_vec()),
        Just(b"#".to_vec()),
        Just(b"$SYS/y".to_vec()),
        prop::collection::vec(any::<u8>(), 0..8),
        "\\PC{0,5}".prop_map(|s| s.into_bytes()),
    ];
    let pkt = prop_oneof![
        3 => ids.clone().prop_map(Raw::PubAck),
        3 => ids.clone().prop_map(Raw::PubRec),
        3 => ids.clone().prop_map(Raw::PubRel),
        1 => ids.clone().prop_map(Raw::PubRelProps),
        3 => ids.clone().prop_map(Raw::PubComp),
        1 => Just(Raw::ConnAck),
        1 => ids.clone().prop_map(Raw::SubAck),
        1 => ids.clone().prop_map(Raw::UnsubAck),
        1 => Just(Raw::PingResp),
        1 => Just(Raw::Connect),
        4 => (topic_bytes, 0u8..3, any::<bool>()).prop_map(|(topic, qos, retain)| Raw::PublishBytes { topic, qos, retain }),
        4 => (filt.clone(), 0u8..3, prop::option::of(0usize..3)).prop_map(|(filter, qos, sub_id)| Raw::Subscribe { filter, qos, sub_id }),
        2 => filt.prop_map(|filter| Raw::Unsubscribe { filter }),
    ];
    (0..n, pkt, pct(80)).prop_map(|(c, pkt, notify)| Op::Raw { c, pkt, notify }).boxed()
}

/// One chunk of a history: a single op or a burst of publishes
pub fn chunk_strategy(g: &GenCfg, n: usize) -> BoxedStrategy<Vec<Op>> {
    let mut alts: Vec<(u32, BoxedStrategy<Vec<Op>>)> = Vec::new();
    let one = |s: BoxedStrategy<Op>| s.prop_map(|o| vec![o]).boxed();
    if g.w_subscribe > 0 {
        alts.push((g.w_subscribe, one(subscribe_strategy(g, n))));
    }
    if g.w_shared_sub > 0 {
        let gf: Vec<String> = GROUP_FILTERS.iter().map(|s| s.to_string()).collect();
        alts.push((
            g.w_shared_sub,
            one((0..n, prop::sample::select(gf), qos([2, 3, 2]))
                .prop_map(|(c, f, q)| Op::Subscribe {
                    c,
                    filters: vec![(f, q)],
                    sub_id: None,
                    notify: true,
                })
                .boxed()),
        ));
    }
    if g.w_unsubscribe > 0 {
        let mut filters = g.filters.clone();
        if g.w_shared_sub > 0 {
            filters.extend(GROUP_FILTERS.iter().map(|s| s.to_string()));
        }
        alts.push((
            g.w_unsubscribe,
            one((0..n, prop::collection::vec(prop::sample::select(filters), 1..=2), pct(g.p_unnotified))
                .prop_map(|(c, filters, un)| Op::Unsubscribe { c, filters, notify: !un })
                .boxed()),
        ));
    }
    if g.w_publish > 0 {
        alts.push((g.w_publish, one(publish_strategy(g, n))));
    }
    if g.w_burst > 0 {
        let max = g.max_burst;
        alts.push((
            g.w_burst,
            (publish_strategy(g, n), prop_oneof![3 => 2usize..30, 2 => 95usize..110, 1 => 190usize..=max.max(191)], pct(50))
                .prop_map(|(p, k, notify_each)| {
                    let mut v = Vec::with_capacity(k + 1);
                    for i in 0..k {
                        let mut q = p.clone();
                        if let Op::Publish { notify, size, .. } = &mut q {
                            *notify = notify_each || i + 1 == k;
                            // many indistinguishable empty messages on one topic tell nothing
                            if *size == 0 {
                                *size = 6;
                            }
                        }
                        v.push(q);
                    }
                    v
                })
                .boxed(),
        ));
    }
    if g.w_release > 0 {
        alts.push((g.w_release, one((0..n, pct(85)).prop_map(|(c, notify)| Op::Release { c, notify }).boxed())));
    }
    if g.w_ping > 0 {
        alts.push((g.w_ping, one((0..n).prop_map(|c| Op::Ping { c, notify: true }).boxed())));
    }
    if g.w_disconnect > 0 {
        alts.push((g.w_disconnect, one((0..n, pct(35)).prop_map(|(c, with_props)| Op::Disconnect { c, notify: true, with_props }).boxed())));
    }
    if g.w_droplink > 0 {
        alts.push((g.w_droplink, one((0..n).prop_map(|c| Op::DropLink { c }).boxed())));
    }
    if g.w_reconnect > 0 {
        let g2 = g.clone();
        alts.push((
            g.w_reconnect,
            one((0..n, pct(g.p_persistent), pct(g.p_will), will_strategy(&g2), pct(g.p_alias))
                .prop_map(|(c, persistent, with_will, will, alias)| Op::Connect {
                    c,
                    clean: !persistent,
                    will: if with_will { Some(will) } else { None },
                    alias_max: if alias { 10 } else { 0 },
                })
                .boxed()),
        ));
    }
    if g.w_turn > 0 {
        alts.push((g.w_turn, one((1u8..4).prop_map(|n| Op::Turn { n }).boxed())));
    }
    if g.w_drain > 0 {
        alts.push((g.w_drain, one((0..n).prop_map(|c| Op::Drain { c }).boxed())));
    }
    if g.w_ack > 0 {
        alts.push((
            g.w_ack,
            one((0..n, prop_oneof![Just(1u8), Just(2u8), 3u8..40, Just(200u8)])
                .prop_map(|(c, n)| Op::Ack { c, n })
                .boxed()),
        ));
        alts.push((1, one((0..n).prop_map(|c| Op::Ready { c }).boxed())));
    }
    if g.w_settle > 0 {
        alts.push((g.w_settle, Just(vec![Op::Settle]).boxed()));
    }
    if g.w_will > 0 {
        alts.push((g.w_will, one((0..n).prop_map(|c| Op::PublishWill { c }).boxed())));
    }
    if g.w_raw > 0 {
        alts.push((g.w_raw, one(raw_strategy(g, n))));
    }
    if g.w_stale > 0 {
        alts.push((
            g.w_stale,
            one((prop_oneof![0usize..8, Just(1_000_000usize), Just(usize::MAX)], 0u8..4)
                .prop_map(|(id, kind)| Op::Stale { id, kind })
                .boxed()),
        ));
        alts.push((
            1,
            one(prop_oneof![Just("c0".to_string()), Just("nobody".to_string()), Just("".to_string())]
                .prop_map(|client_id| Op::PublishWillFor { client_id })
                .boxed()),
        ));
    }
    if g.w_zombie > 0 {
        alts.push((g.w_zombie, one((0..n, 0u8..3).prop_map(|(c, kind)| Op::Zombie { c, kind }).boxed())));
    }
    if g.w_tick > 0 {
        alts.push((
            g.w_tick,
            one(prop_oneof![
                any::<bool>().prop_map(|alerts| Op::Tick { alerts }),
                any::<bool>().prop_map(|keep| Op::NewMeter { keep }),
                any::<bool>().prop_map(|keep| Op::NewAlert { keep }),
                (0..n, prop::sample::select(vec!["a/b", "nope", "a/#"])).prop_map(|(c, f)| Op::Shadow { c, filter: f.to_string() }),
            ]
            .boxed()),
        ));
    }
    proptest::strategy::Union::new_weighted(alts).boxed()
}

/// Whole history: router config, clients, a prefix that connects everybody (and subscribes),
/// then generated chunks
pub fn hist_strategy(g: &GenCfg) -> BoxedStrategy<Hist> {
    let g = g.clone();
    (g.min_clients..=g.max_clients)
        .prop_flat_map(move |n| {
            let g2 = g.clone();
            let clients: Vec<BoxedStrategy<ClientSpec>> = (0..n).map(|i| client_strategy(&g, i)).collect();
            let connects: Vec<BoxedStrategy<Op>> = (0..n)
                .map(|c| {
                    (pct(g.p_persistent), pct(g.p_will), will_strategy(&g), pct(g.p_alias))
                        .prop_map(move |(persistent, with_will, will, alias)| Op::Connect {
                            c,
                            clean: !persistent,
                            will: if with_will { Some(will) } else { None },
                            alias_max: if alias { 10 } else { 0 },
                        })
                        .boxed()
                })
                .collect();
            (
                cfg_strategy(&g, n),
                clients,
                connects,
                prop::collection::vec(subscribe_strategy(&g, n), 1..=(n + 1)),
                prop::collection::vec(chunk_strategy(&g2, n), 0..=g.max_chunks),
            )
        })
        .prop_map(|(cfg, clients, connects, subs, chunks)| {
            let mut ops = connects;
            ops.push(Op::Turn { n: 1 });
            ops.extend(subs);
            for c in chunks {
                ops.extend(c);
            }
            Hist { cfg, clients, ops }
        })
        .boxed()
}
