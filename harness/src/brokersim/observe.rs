//! Oracle clauses over what a simulated client drains from its link: attribution of forwards
//! to subscriptions ("shuffle of prefixes" decided exactly over a frontier of attribution
//! states), acknowledgement order, outbound window, retained replay, shared groups.

use super::model::*;
use super::sim::publish_header;
use super::types::*;
use crate::engine::Failure;
use crate::{ensure, fail};
use rumqttd::protocol::SubscribeReasonCode;
use rumqttd::verif::Ack;
use rumqttd::Notification;
use std::collections::{HashMap, HashSet};

/// Which oracle clauses are active (a property enables the clauses it is about)
#[derive(Clone, Debug, Default)]
pub struct Flags {
    pub delivery: bool,
    pub acks: bool,
    pub window: bool,
    pub session: bool,
    pub retained: bool,
    pub will: bool,
    pub shared: bool,
    pub admission: bool,
    pub encode: bool,
    pub slabs: bool,
    pub liveness_probe: bool,
    /// a client never connects while its previous connection is still registered
    pub no_takeover: bool,
    /// a repeated subscription with another QoS must deliver with the newly granted QoS
    /// (probe of known finding R7; otherwise the QoS of such a subscription is not asserted)
    pub strict_resub: bool,
    /// slots whose connections are asserted on; None = all
    pub witnesses: Option<Vec<usize>>,
    /// known-finding regions the interpreter keeps out of (main campaigns)
    pub avoid: Avoid,
}

#[derive(Clone, Debug, Default)]
pub struct Avoid {
    /// R6: broker topic alias together with a wildcard filter
    pub alias_wildcard: bool,
    /// R7: re-subscribe with a different QoS
    pub resub_qos: bool,
    /// R8: UNSUBSCRIBE of several / unknown / resumed filters
    pub unsub_shape: bool,
    /// R9: non-retained publish with an empty payload
    pub empty_nonretained: bool,
    /// R11: UNSUBSCRIBE by a member of a shared group
    pub unsub_in_group: bool,
    /// R10: completeness of a group is not demanded between a member's leaving and the next
    /// matching publish
    pub group_stall: bool,
    /// R5: no Disconnect signal is sent for a connection whose end is already under way
    pub recycled_id: bool,
    /// R17 (not claimed either way): a persistent-session client does not UNSUBSCRIBE. The
    /// router re-delivers unacknowledged forwards by rewinding the request of the same filter;
    /// after unsubscribe + re-subscribe that is the NEW request, so the old messages come
    /// again with the new subscription's QoS. MQTT wants in-flight messages re-sent, the
    /// statements do not say under which subscription: neither outcome is asserted.
    pub persistent_unsub: bool,
}

/// Client-side bookkeeping of one connection
#[derive(Clone, Debug, Default)]
pub struct ClientView {
    /// number of entries of `MConn::fwds` this client has acknowledged (pushed an ack for)
    pub acks_pushed: usize,
    /// PUBRELs received from the broker that still need a PUBCOMP
    pub pubcomp_due: Vec<u16>,
    pub unscheduled: bool,
    pub got_disconnect: bool,
    /// broker topic aliases announced on this connection
    pub aliases: HashMap<u16, Vec<u8>>,
    /// retained replays received: (sub index, topic, serial)
    pub retained_got: Vec<(usize, String, u64)>,
    /// QoS of the replayed forward behind each entry of `retained_got`
    pub retained_got_qos: Vec<u8>,
    /// per group name: last acceptance index received through it
    pub last_shared: HashMap<String, usize>,
    pub forwards_seen: u64,
    pub max_window: usize,
    /// PUBCOMPs received for this client's own QoS 2 publishes
    pub pubcomp_received: u64,
    pub acks_received: u64,
    pub will_forwards: u64,
}

pub fn parse_serial(payload: &[u8]) -> Option<u64> {
    let end = payload.iter().position(|b| *b == b':')?;
    std::str::from_utf8(&payload[..end]).ok()?.parse().ok()
}

pub fn make_payload(serial: u64, size: usize) -> Vec<u8> {
    if size == 0 {
        return Vec::new();
    }
    let mut v = format!("{serial}:").into_bytes();
    while v.len() < size {
        v.push(b'.');
    }
    v
}

fn code_u8(c: &SubscribeReasonCode) -> Option<u8> {
    use rumqttd::protocol::QoS;
    match c {
        SubscribeReasonCode::QoS0 => Some(0),
        SubscribeReasonCode::QoS1 => Some(1),
        SubscribeReasonCode::QoS2 => Some(2),
        SubscribeReasonCode::Success(QoS::AtMostOnce) => Some(0),
        SubscribeReasonCode::Success(QoS::AtLeastOnce) => Some(1),
        SubscribeReasonCode::Success(QoS::ExactlyOnce) => Some(2),
        _ => None,
    }
}

fn ack_to_exp(a: &Ack) -> Option<ExpAck> {
    Some(match a {
        Ack::PubAck(p) | Ack::PubAckWithProperties(p, _) => ExpAck::PubAck(p.pkid),
        Ack::PubRec(p) | Ack::PubRecWithProperties(p, _) => ExpAck::PubRec(p.pkid),
        Ack::PubComp(p) | Ack::PubCompWithProperties(p, _) => ExpAck::PubComp(p.pkid),
        Ack::PubRel(p) | Ack::PubRelWithProperties(p, _) => ExpAck::PubRel(p.pkid),
        Ack::SubAck(s) | Ack::SubAckWithProperties(s, _) => ExpAck::SubAck(
            s.pkid,
            s.return_codes.iter().map(|c| code_u8(c).unwrap_or(0x80)).collect(),
        ),
        Ack::UnsubAck(u) => ExpAck::UnsubAck(u.pkid),
        Ack::PingResp(_) => ExpAck::PingResp,
        Ack::ConnAck(..) => return None,
    })
}

const MAX_STATES: usize = 48;

impl Model {
    fn props_expected(&self, idx: usize) -> Option<&Props> {
        self.log[idx].props.as_ref()
    }

    /// Everything in [from, to) that certainly belongs to the stream may be skipped?
    fn gap_ok(&self, sub: &MSub, from: usize, to: usize) -> bool {
        if sub.relaxed {
            return true;
        }
        for k in from..to {
            if k >= sub.lenient_until && match3(&self.log[k], &sub.path) == M3::Yes {
                return false;
            }
        }
        true
    }

    /// Processes what the client drained. Returns Err on a violated clause.
    pub fn observe(
        &mut self,
        serial: usize,
        view: &mut ClientView,
        notifs: &[Notification],
        flags: &Flags,
    ) -> Result<(), Failure> {
        let tainted = self.conns[serial].tainted;
        let mut retained_subs_touched: HashSet<usize> = HashSet::new();
        let mut live_subs_touched: HashSet<usize> = HashSet::new();
        for (pos, n) in notifs.iter().enumerate() {
            match n {
                Notification::Forward(f) => {
                    view.forwards_seen += 1;
                    let (qos, pkid, _dup) = publish_header(&f.publish);
                    let mut topic: Vec<u8> = f.publish.topic.to_vec();
                    // a v5 client resolves broker topic aliases
                    if let Some(alias) = f.properties.as_ref().and_then(|p| p.topic_alias) {
                        if topic.is_empty() {
                            match view.aliases.get(&alias) {
                                Some(t) => topic = t.clone(),
                                None => {
                                    if !tainted && flags.delivery {
                                        fail!("delivery:unknown_topic_alias", "forward uses alias {alias} never announced");
                                    }
                                }
                            }
                        } else {
                            view.aliases.insert(alias, topic.clone());
                        }
                    }
                    if qos > 0 {
                        // C09: id and window, from the client's own point of view
                        let c = &self.conns[serial];
                        let unacked = &c.fwds[view.acks_pushed.min(c.fwds.len())..];
                        if flags.window && !tainted {
                            ensure!(pkid != 0, "window:zero_packet_id", "QoS {qos} forward with packet id 0");
                            ensure!(
                                !unacked.iter().any(|u| u.pkid == pkid),
                                "window:duplicate_packet_id",
                                "forward reuses packet id {pkid} while an earlier forward with it is unacknowledged"
                            );
                            ensure!(
                                unacked.len() < 100,
                                "window:more_than_100_unacked",
                                "{} QoS>0 forwards unacknowledged when another one arrived",
                                unacked.len()
                            );
                        }
                        view.max_window = view.max_window.max(unacked.len() + 1);
                    }
                    let check_delivery = (flags.delivery || flags.shared || flags.retained || flags.will) && !tainted;
                    // identify the message: payloads carry the publish serial; an empty payload
                    // (retained clear) is identified by its topic among the empty publishes
                    let mut empty_cands: Vec<usize> = Vec::new();
                    let idx: Option<usize> = if f.publish.payload.is_empty() {
                        let cands: Vec<usize> = (0..self.log.len())
                            .filter(|k| self.log[*k].payload.is_empty() && self.log[*k].topic.as_bytes() == &topic[..])
                            .collect();
                        empty_cands = cands.clone();
                        if std::env::var_os("VERIF_TRACE2").is_some() {
                            eprintln!("  empty fwd topic={:?} cands={:?} groups={:?}", String::from_utf8_lossy(&topic), cands, self.groups);
                        }
                        let fwd_ids: Vec<usize> = f
                            .properties
                            .as_ref()
                            .map(|p| p.subscription_identifiers.clone())
                            .unwrap_or_default();
                        cands
                            .iter()
                            .copied()
                            .find(|k| !self.attribute(serial, *k, qos, &fwd_ids).0.is_empty() || self.shared_possible(serial, *k, qos, false))
                            .or(cands.iter().copied().find(|k| self.shared_possible(serial, *k, qos, true)))
                            .or(cands.first().copied())
                    } else {
                        parse_serial(&f.publish.payload).and_then(|s| self.by_serial.get(&s).copied())
                    };
                    let Some(idx) = idx else {
                        if check_delivery {
                            fail!(
                                "delivery:foreign_message",
                                "forward with payload {:?} on {:?} is no message the broker accepted",
                                String::from_utf8_lossy(&f.publish.payload),
                                String::from_utf8_lossy(&topic)
                            );
                        }
                        if qos > 0 {
                            self.push_fwd(serial, pkid, qos, None, 255);
                        }
                        continue;
                    };
                    if self.wills_fired.iter().any(|(_, i)| *i == idx) {
                        view.will_forwards += 1;
                    }
                    if check_delivery {
                        let m = &self.log[idx];
                        ensure!(
                            topic == m.topic.as_bytes(),
                            "delivery:topic_changed",
                            "message {} published on {:?} arrived on {:?}",
                            m.serial,
                            m.topic,
                            String::from_utf8_lossy(&topic)
                        );
                        ensure!(
                            f.publish.payload[..] == m.payload[..],
                            "delivery:payload_changed",
                            "message {} arrived with a different payload",
                            m.serial
                        );
                    }
                    if f.publish.retain {
                        // retained replay
                        let c = &self.conns[serial];
                        let now = self.now();
                        // subscriptions that are still owed a replay of this topic (a subscription
                        // removed before its replay was drained still counts)
                        let owed: Vec<usize> = c
                            .subs
                            .iter()
                            .enumerate()
                            .filter(|(i, s)| {
                                s.retained_due
                                    && match3(&self.log[idx], &s.path) != M3::No
                                    && !view
                                        .retained_got
                                        .iter()
                                        .any(|(gi, t, _)| gi == i && *t == self.log[idx].topic)
                            })
                            .map(|(i, _)| i)
                            .collect();
                        let any_candidate = owed.iter().any(|i| c.subs[*i].qos_ok(qos, idx));
                        // the replay happens when the request is first served, normally right
                        // after the SUBSCRIBE: only subscriptions for which the value was the
                        // topic's retained message at some moment of their window qualify
                        let pool: Vec<usize> = owed
                            .iter()
                            .copied()
                            .filter(|i| {
                                self.retained_uncertain
                                    || self
                                        .retained_in_window(&self.log[idx].topic, c.subs[*i].made_at, now)
                                        .contains(&Some(self.log[idx].serial))
                            })
                            .collect();
                        // replays of the same topic later in this batch must still find a
                        // subscription each (a repeated subscription may be served with its old
                        // or its new QoS, so the choice here is not always forced)
                        let later: Vec<(u8, usize)> = notifs[pos + 1..]
                            .iter()
                            .filter_map(|n| match n {
                                Notification::Forward(g) if g.publish.retain && g.publish.topic == f.publish.topic && !g.publish.topic.is_empty() => {
                                    let at = parse_serial(&g.publish.payload).and_then(|s| self.by_serial.get(&s).copied()).unwrap_or(idx);
                                    Some((publish_header(&g.publish).0, at))
                                }
                                _ => None,
                            })
                            .collect();
                        fn feasible(later: &[(u8, usize)], avail: &[usize], ok: &dyn Fn(usize, u8, usize) -> bool) -> bool {
                            match later.split_first() {
                                None => true,
                                Some(((q, at), rest)) => avail.iter().enumerate().any(|(k, s)| {
                                    ok(*s, *q, *at) && {
                                        let mut a = avail.to_vec();
                                        a.remove(k);
                                        feasible(rest, &a, ok)
                                    }
                                }),
                            }
                        }
                        // (each replay judged against the window of its own value)
                        let ok = |i: usize, q: u8, at: usize| {
                            c.subs[i].qos_ok(q, at)
                                && (self.retained_uncertain
                                    || self.retained_in_window(&self.log[idx].topic, c.subs[i].made_at, now).contains(&Some(self.log[at].serial)))
                        };
                        let mut mine: Vec<usize> = pool.iter().copied().filter(|i| ok(*i, qos, idx)).collect();
                        // preference: current QoS before a QoS held earlier, then the newest
                        mine.sort_by_key(|i| std::cmp::Reverse((c.subs[*i].qos == qos, c.subs[*i].made_at, *i)));
                        let cand = mine
                            .iter()
                            .copied()
                            .find(|i| {
                                let rest: Vec<usize> = owed.iter().copied().filter(|k| k != i).collect();
                                later.len() > 6 || feasible(&later, &rest, &ok)
                            })
                            .or(mine.first().copied());
                        if cand.is_none() && any_candidate && flags.retained && !tainted {
                            fail!(
                                "retained:stale_or_cleared_value",
                                "a new subscription was replayed message {} for {:?}, which was not that topic's retained message at any time since the subscription was made",
                                self.log[idx].serial,
                                self.log[idx].topic
                            );
                        }
                        // no subscription left for this replay: earlier replays of the topic (seen in
                        // earlier drains) may have been credited to the wrong ones among several
                        // subscriptions that could have been their source. Look for any assignment
                        // of all replays of this topic seen so far to distinct subscriptions.
                        let mut cand = cand;
                        if cand.is_none() {
                            let topic_s = self.log[idx].topic.clone();
                            let subs_all: Vec<usize> = c
                                .subs
                                .iter()
                                .enumerate()
                                .filter(|(_, s)| s.retained_due && match3(&self.log[idx], &s.path) != M3::No)
                                .map(|(k, _)| k)
                                .collect();
                            // (replays credited to subscriptions whose replay phase is over stay)
                            let movable = |e: &(usize, String, u64)| e.1 == topic_s && c.subs.get(e.0).is_some_and(|s| s.retained_due);
                            let mut items: Vec<(u8, usize, u64)> = view
                                .retained_got
                                .iter()
                                .zip(view.retained_got_qos.iter())
                                .filter(|(e, _)| movable(e))
                                .map(|((_, _, ser), q)| (*q, self.by_serial.get(ser).copied().unwrap_or(idx), *ser))
                                .collect();
                            items.push((qos, idx, self.log[idx].serial));
                            fn assign(items: &[(u8, usize, u64)], avail: &[usize], ok: &dyn Fn(usize, u8, usize) -> bool, out: &mut Vec<usize>) -> bool {
                                match items.split_first() {
                                    None => true,
                                    Some(((q, at, _), rest)) => {
                                        for (k, s) in avail.iter().enumerate() {
                                            if ok(*s, *q, *at) {
                                                let mut a = avail.to_vec();
                                                a.remove(k);
                                                out.push(*s);
                                                if assign(rest, &a, ok, out) {
                                                    return true;
                                                }
                                                out.pop();
                                            }
                                        }
                                        false
                                    }
                                }
                            }
                            let mut out = Vec::new();
                            if items.len() <= 8 && assign(&items, &subs_all, &ok, &mut out) {
                                let mut keep_got = Vec::new();
                                let mut keep_qos = Vec::new();
                                for (e, q) in view.retained_got.iter().zip(view.retained_got_qos.iter()) {
                                    if !movable(e) {
                                        keep_got.push(e.clone());
                                        keep_qos.push(*q);
                                    }
                                }
                                for ((q, _, ser), k) in items[..items.len() - 1].iter().zip(out.iter()) {
                                    keep_got.push((*k, topic_s.clone(), *ser));
                                    keep_qos.push(*q);
                                    retained_subs_touched.insert(*k);
                                }
                                view.retained_got = keep_got;
                                view.retained_got_qos = keep_qos;
                                cand = out.last().copied();
                            }
                        }
                        match cand {
                            Some(i) => {
                                view.retained_got.push((i, self.log[idx].topic.clone(), self.log[idx].serial));
                                view.retained_got_qos.push(qos);
                                retained_subs_touched.insert(i);
                            }
                            None => {
                                if std::env::var_os("VERIF_TRACE").is_some() {
                                    eprintln!("   retained not owed: idx={idx} qos={qos} pool={pool:?} mine={mine:?} later={later:?} got={:?} window={:?}", view.retained_got, c.subs.iter().map(|s| self.retained_in_window(&self.log[idx].topic, s.made_at, now)).collect::<Vec<_>>());
                                }
                                if flags.retained && !tainted {
                                    fail!(
                                        "retained:flag_on_forward_not_owed",
                                        "forward of message {} on {:?} is flagged retained but no new non-shared subscription of this client is owed a replay of it",
                                        self.log[idx].serial,
                                        self.log[idx].topic
                                    );
                                }
                            }
                        }
                        if qos > 0 {
                            self.push_fwd(serial, pkid, qos, None, 255);
                        }
                        continue;
                    }
                    // live forward: attribute it
                    let fwd_ids: Vec<usize> = f
                        .properties
                        .as_ref()
                        .map(|p| p.subscription_identifiers.clone())
                        .unwrap_or_default();
                    let (mut new_states, saw_consumed, saw_gap, saw_qos, touched) =
                        self.attribute(serial, idx, qos, &fwd_ids);
                    // messages with an empty payload on one topic are indistinguishable: every
                    // candidate identity is explored, not only the first feasible one
                    for k in empty_cands.iter().copied().filter(|k| *k != idx) {
                        for st in self.attribute(serial, k, qos, &fwd_ids).0 {
                            if !new_states.contains(&st) {
                                new_states.push(st);
                            }
                        }
                    }
                    if std::env::var_os("VERIF_TRACE2").is_some() {
                        eprintln!("  fwd idx={idx} qos={qos} -> {} states {:?}", new_states.len(), new_states.iter().map(|s| s.pos.clone()).collect::<Vec<_>>());
                    }
                    let outside_only = touched == vec![usize::MAX];
                    if !outside_only {
                        // a live forward closes the retained window of a subscription only when
                        // it can belong to no other subscription
                        let mut t = touched.clone();
                        t.sort();
                        t.dedup();
                        if t.len() == 1 {
                            live_subs_touched.extend(t);
                        }
                    }
                    if !new_states.is_empty() {
                        if new_states.len() > MAX_STATES {
                            new_states.truncate(MAX_STATES);
                            self.conns[serial].frontier_overflow = true;
                        }
                        if qos > 0 {
                            self.conns[serial].fwds.push(FwdMeta { pkid, qos, idx: Some(idx) });
                        }
                        self.conns[serial].frontier = new_states;
                        if check_delivery && !f.publish.payload.is_empty() {
                            self.check_props(serial, idx, f.properties.as_ref(), &fwd_ids)?;
                        }
                        continue;
                    }
                    // not attributable to a non-shared subscription: shared group?
                    if self.try_shared(serial, view, idx, qos, flags, tainted)? {
                        if qos > 0 {
                            self.push_fwd(serial, pkid, qos, Some(idx), 255);
                        }
                        continue;
                    }
                    if check_delivery && (flags.delivery || flags.shared) && !self.conns[serial].frontier_overflow {
                        let m = &self.log[idx];
                        if outside_only {
                            fail!(
                                "delivery:outside_subscription_lifetime",
                                "message {} on {:?} (qos {qos}) was accepted before the matching subscription took effect or after it was removed",
                                m.serial,
                                m.topic
                            );
                        }
                        if saw_consumed {
                            fail!(
                                "delivery:duplicate_or_out_of_order",
                                "message {} on {:?} (qos {qos}) was already delivered for every subscription it matches, or arrives after a later message of the same subscription",
                                m.serial,
                                m.topic
                            );
                        }
                        if saw_gap {
                            if std::env::var_os("VERIF_TRACE").is_some() {
                                eprintln!("GAP idx={idx} frontier={:?}", self.conns[serial].frontier.iter().map(|s| s.pos.clone()).collect::<Vec<_>>());
                                for k in idx.saturating_sub(6)..(idx + 3).min(self.log.len()) {
                                    eprintln!("   log[{k}] serial={} topic={}", self.log[k].serial, self.log[k].topic);
                                }
                            }
                            fail!(
                                "delivery:skipped_messages",
                                "message {} on {:?} arrived although earlier matching messages of the same subscription were not delivered",
                                m.serial,
                                m.topic
                            );
                        }
                        if saw_qos {
                            fail!(
                                "delivery:wrong_qos",
                                "message {} on {:?} arrived with qos {qos}, which no matching subscription was granted",
                                m.serial,
                                m.topic
                            );
                        }
                        fail!(
                            "delivery:matches_no_subscription",
                            "message {} on {:?} (qos {qos}, subscription ids {:?}) matches no subscription of this client that was in effect when it was accepted",
                            m.serial,
                            m.topic,
                            fwd_ids
                        );
                    }
                    if qos > 0 {
                        self.push_fwd(serial, pkid, qos, Some(idx), 255);
                    }
                }
                Notification::DeviceAck(a) => {
                    if let Some(e) = ack_to_exp(a) {
                        view.acks_received += 1;
                        if matches!(e, ExpAck::PubComp(_)) {
                            view.pubcomp_received += 1;
                        }
                        if matches!(e, ExpAck::PubRel(_)) {
                            if let ExpAck::PubRel(id) = e {
                                view.pubcomp_due.push(id);
                            }
                        }
                        let c = &mut self.conns[serial];
                        let mut front = c.expected_acks.pop_front();
                        // optional entries may be skipped
                        loop {
                            match (&front, &e) {
                                (Some(ExpAck::PubRelResumed(a)), ExpAck::PubRel(b)) if a == b => {
                                    front = Some(ExpAck::PubRel(*b));
                                    break;
                                }
                                (Some(ExpAck::PubRelResumed(_)), _) => front = c.expected_acks.pop_front(),
                                _ => break,
                            }
                        }
                        if flags.acks && !tainted {
                            match front {
                                Some(x) if x == e => {}
                                Some(x) => fail!(
                                    "acks:wrong_or_out_of_order",
                                    "client {} received {:?} where {:?} was owed next",
                                    c.client_id,
                                    e,
                                    x
                                ),
                                None => fail!(
                                    "acks:unsolicited",
                                    "client {} received {:?} but nothing was owed to it",
                                    c.client_id,
                                    e
                                ),
                            }
                        }
                    }
                }
                Notification::Unschedule => view.unscheduled = true,
                Notification::Disconnect(..) => view.got_disconnect = true,
                _ => {}
            }
        }
        // the retained window of a subscription is closed at the next idle point (check_idle):
        // a request that is paused (inflight full) is replayed its retained messages later
        let _ = (&retained_subs_touched, &live_subs_touched);
        Ok(())
    }

    /// All ways of attributing a live forward of message `idx` to a non-shared subscription
    #[allow(clippy::type_complexity)]
    fn attribute(
        &self,
        serial: usize,
        idx: usize,
        qos: u8,
        fwd_ids: &[usize],
    ) -> (Vec<FState>, bool, bool, bool, Vec<usize>) {
        // subscription identifiers are used to disambiguate, never to reject (the statement
        // does not speak about them): strict pass first, then without them
        // (identifiers change when a subscription is repeated, and forwards produced before the
        // change are drained after it, so they cannot be used to narrow the candidates soundly)
        let _ = fwd_ids;
        self.attribute_with(serial, idx, qos, None)
    }

    #[allow(clippy::type_complexity)]
    fn attribute_with(
        &self,
        serial: usize,
        idx: usize,
        qos: u8,
        fwd_ids: Option<&[usize]>,
    ) -> (Vec<FState>, bool, bool, bool, Vec<usize>) {
        let mut new_states: Vec<FState> = Vec::new();
        let mut saw_consumed = false;
        let mut saw_gap = false;
        let mut saw_qos = false;
        let mut saw_outside = false;
        let mut touched = Vec::new();
        let c = &self.conns[serial];
        for st in c.frontier.iter() {
            for (i, sub) in c.subs.iter().enumerate() {
                if sub.group.is_some() {
                    continue;
                }
                if match3(&self.log[idx], &sub.path) == M3::No {
                    continue;
                }
                if idx < sub.start || sub.end.is_some_and(|e| idx >= e) {
                    if sub.qos == qos {
                        saw_outside = true;
                    }
                    continue;
                }
                if !sub.qos_ok(qos, idx) {
                    saw_qos = true;
                    continue;
                }
                if let Some(fwd_ids) = fwd_ids {
                    match sub.sub_id {
                        Some(id) => {
                            if !fwd_ids.contains(&id) {
                                continue;
                            }
                        }
                        None => {
                            if !fwd_ids.is_empty() {
                                continue;
                            }
                        }
                    }
                }
                let pos = st.pos[i];
                if idx < pos {
                    saw_consumed = true;
                    continue;
                }
                if !self.gap_ok(sub, pos, idx) {
                    saw_gap = true;
                    continue;
                }
                let mut s2 = st.clone();
                s2.pos[i] = idx + 1;
                if qos > 0 {
                    s2.attr.push(i as u8);
                }
                if !new_states.contains(&s2) {
                    new_states.push(s2);
                }
                touched.push(i);
            }
        }
        // bit 2 of the "qos" flag slot is not available: fold "outside" into the gap flag position
        if new_states.is_empty() && saw_outside && !saw_consumed && !saw_gap {
            return (new_states, false, false, false, vec![usize::MAX]);
        }
        (new_states, saw_consumed, saw_gap, saw_qos, touched)
    }

    fn push_fwd(&mut self, serial: usize, pkid: u16, qos: u8, idx: Option<usize>, attr: u8) {
        let c = &mut self.conns[serial];
        c.fwds.push(FwdMeta { pkid, qos, idx });
        for st in c.frontier.iter_mut() {
            st.attr.push(attr);
        }
    }

    /// Properties of a forward: the publisher's, minus the topic alias, plus subscription ids
    fn check_props(
        &self,
        serial: usize,
        idx: usize,
        got: Option<&rumqttd::protocol::PublishProperties>,
        _ids: &[usize],
    ) -> Result<(), Failure> {
        let _ = serial;
        let exp = self.props_expected(idx);
        let (e_pfi, e_rt, e_cd, e_up, e_ct) = match exp {
            Some(p) => (
                p.payload_format_indicator,
                p.response_topic.clone(),
                p.correlation_data.clone(),
                p.user_properties.clone(),
                p.content_type.clone(),
            ),
            None => (None, None, None, vec![], None),
        };
        let (g_pfi, g_rt, g_cd, g_up, g_ct) = match got {
            Some(p) => (
                p.payload_format_indicator,
                p.response_topic.clone(),
                p.correlation_data.as_ref().map(|b| b.to_vec()),
                p.user_properties.clone(),
                p.content_type.clone(),
            ),
            None => (None, None, None, vec![], None),
        };
        ensure!(
            e_pfi == g_pfi && e_rt == g_rt && e_cd == g_cd && e_up == g_up && e_ct == g_ct,
            "delivery:properties_changed",
            "message {} was published with properties {:?} and forwarded with {:?}",
            self.log[idx].serial,
            exp,
            got
        );
        Ok(())
    }

    /// Could message `idx` have reached this client through one of its shared groups?
    fn shared_possible(&self, serial: usize, idx: usize, qos: u8, allow_twice: bool) -> bool {
        let slot = self.conns[serial].slot;
        let now = self.now();
        self.conns[serial].subs.iter().filter(|s| s.group.is_some()).any(|s| {
            s.qos_ok(qos, idx)
                && self.groups.iter().any(|g| {
                    Some(&g.name) == s.group.as_ref()
                        && idx >= g.created_at
                        && match3(&self.log[idx], &g.path) != M3::No
                        && (allow_twice || !g.delivered.contains_key(&idx))
                        && g.members.iter().any(|(sl, joined, left)| *sl == slot && *joined <= now && left.map_or(true, |l| idx < l))
                })
        })
    }

    fn try_shared(
        &mut self,
        serial: usize,
        view: &mut ClientView,
        idx: usize,
        qos: u8,
        flags: &Flags,
        tainted: bool,
    ) -> Result<bool, Failure> {
        let slot = self.conns[serial].slot;
        let now = self.now();
        let subs: Vec<(String, u8, bool)> = self.conns[serial]
            .subs
            .iter()
            .filter(|s| s.group.is_some())
            .map(|s| (s.group.clone().unwrap(), s.qos, s.qos_ok(qos, idx)))
            .collect();
        let mut twice: Option<usize> = None;
        if std::env::var_os("VERIF_TRACE2").is_some() && idx >= 98 {
            eprintln!("try_shared serial={serial} idx={idx} qos={qos} subs={subs:?} now={now}");
        }
        for (gname, _sq, qos_ok) in subs {
            if !qos_ok {
                continue;
            }
            for gi in 0..self.groups.len() {
                let g = &self.groups[gi];
                if g.name != gname || idx < g.created_at {
                    continue;
                }
                if match3(&self.log[idx], &g.path) == M3::No {
                    continue;
                }
                // member at some moment between the message's acceptance and now
                let member = g
                    .members
                    .iter()
                    .any(|(s, joined, left)| *s == slot && *joined <= now && left.map_or(true, |l| idx < l));
                if !member {
                    continue;
                }
                if let Some(prev) = g.delivered.get(&idx) {
                    twice = Some(*prev);
                    continue;
                }
                if flags.shared && !tainted {
                    if let Some(last) = view.last_shared.get(&gname) {
                        ensure!(
                            *last < idx,
                            "shared:member_order",
                            "member received message {} of group {gname} after a later one",
                            self.log[idx].serial
                        );
                    }
                }
                view.last_shared.insert(gname.clone(), idx);
                self.groups[gi].delivered.insert(idx, slot);
                return Ok(true);
            }
        }
        if let Some(prev) = twice {
            if flags.shared && !tainted {
                fail!(
                    "shared:delivered_twice",
                    "message {} was forwarded through its shared group to slot {prev} and again to slot {slot}",
                    self.log[idx].serial
                );
            }
            return Ok(true);
        }
        Ok(false)
    }

    /// Decides the retained replay of subscription `i` (C15) and closes its window
    pub fn finish_retained(&mut self, serial: usize, view: &mut ClientView, i: usize) -> Result<(), Failure> {
        let now = self.now();
        let (path, made_at, qos, filter) = {
            let s = &self.conns[serial].subs[i];
            (s.path.clone(), s.made_at, s.qos, s.filter.clone())
        };
        let optional = self.conns[serial].subs[i].retained_optional;
        self.conns[serial].subs[i].retained_due = false;
        if self.retained_uncertain {
            return Ok(());
        }
        let got: Vec<(String, u64)> = view
            .retained_got
            .iter()
            .filter(|(si, _, _)| *si == i)
            .map(|(_, t, s)| (t.clone(), *s))
            .collect();
        let mut required = 0usize;
        let mut competing = 0usize;
        let mut missing: Vec<String> = Vec::new();
        for (topic, _) in self.retained.iter() {
            let probe = Msg {
                serial: 0,
                topic: topic.clone(),
                payload: vec![],
                retain: true,
                props: None,
                wild_topic: crate::topic::ref_has_wildcards(topic),
                maybe: false,
            };
            let m3 = match3(&probe, &path);
            if m3 == M3::No {
                ensure!(
                    !got.iter().any(|(t, _)| t == topic),
                    "retained:topic_does_not_match_filter",
                    "subscription {filter:?} was replayed the retained message of {topic:?}"
                );
                continue;
            }
            let window = self.retained_in_window(topic, made_at, now);
            let always = window.iter().all(|v| v.is_some());
            if window.iter().any(|v| v.is_some()) {
                // everything that may have been in the store competes for the delivery window
                competing += 1;
            }
            let g = got.iter().find(|(t, _)| t == topic);
            match g {
                Some((_, s)) => {
                    ensure!(
                        window.contains(&Some(*s)),
                        "retained:stale_or_cleared_value",
                        "subscription {filter:?} was replayed message {s} for {topic:?}, which was not that topic's retained message at any time since the subscription was made (candidates {window:?})"
                    );
                }
                None => {
                    // a replay attributed to another new subscription of this client that also
                    // matches cannot be told apart from ours
                    let elsewhere = view.retained_got.iter().any(|(si, t, _)| *si != i && t == topic);
                    if always && m3 == M3::Yes && !elsewhere {
                        required += 1;
                        missing.push(topic.clone());
                    }
                }
            }
            if g.is_some() && always {
                required += 1;
            }
        }
        // the replay is bounded by the delivery window: a larger retained set may be cut
        let c = &self.conns[serial];
        let _ = c;
        let by_window = 100usize.saturating_sub(view.max_window + 1);
        let by_batch = self.cfg.max_out as usize;
        let window_free = if !self.conns[serial].subs[i].old_qos.is_empty() {
            // the subscription was repeated with another QoS: the replay may have been served
            // under either
            by_window.min(by_batch)
        } else if qos > 0 {
            // free slots at the (unknown) moment of the replay: bounded below by what the
            // client ever saw unacknowledged on this connection
            by_window
        } else {
            by_batch
        };
        let _ = required;
        // QoS 0: the replay is cut to max_outgoing_packet_count exactly, so a set that fits
        // must arrive completely; QoS > 0: the free window at the moment of the replay is only
        // bounded, hence the margin
        let exact = qos == 0 && self.conns[serial].subs[i].old_qos.is_empty();
        let fits = if exact { competing <= window_free.min(89) } else { competing + 1 < window_free.min(90) };
        if !missing.is_empty() && !optional && fits {
            fail!(
                "retained:missing_on_new_subscription",
                "new subscription {filter:?} (qos {qos}) did not receive the retained message of {missing:?}"
            );
        }
        Ok(())
    }

    /// C01 / C06 / C17 completeness, evaluated when the broker is idle and everybody acknowledged
    pub fn check_idle(&mut self, views: &mut [ClientView], flags: &Flags, strict: &dyn Fn(usize) -> bool) -> Result<(), Failure> {
        let now = self.now();
        for ci in 0..self.conns.len() {
            let c = &self.conns[ci];
            if !c.live || c.tainted || !strict(c.slot) {
                continue;
            }
            if flags.acks {
                ensure!(
                    c.expected_acks.iter().all(|a| matches!(a, ExpAck::PubRelResumed(_))),
                    "acks:missing_at_idle",
                    "client {} is still owed {:?} although the broker is idle",
                    c.client_id,
                    c.expected_acks.iter().take(4).collect::<Vec<_>>()
                );
            }
            if flags.delivery && !c.frontier_overflow {
                let mut ok = false;
                let mut example = String::new();
                for st in c.frontier.iter() {
                    let mut complete = true;
                    for (i, sub) in c.subs.iter().enumerate() {
                        if sub.group.is_some() || sub.end.is_some() || sub.relaxed {
                            continue;
                        }
                        for k in st.pos[i]..now {
                            if k >= sub.lenient_until && match3(&self.log[k], &sub.path) == M3::Yes {
                                complete = false;
                                if example.is_empty() {
                                    example = format!(
                                        "message {} on {:?} for subscription {:?} (qos {})",
                                        self.log[k].serial, self.log[k].topic, sub.filter, sub.qos
                                    );
                                }
                                break;
                            }
                        }
                        if !complete {
                            break;
                        }
                    }
                    if complete {
                        ok = true;
                        break;
                    }
                }
                ensure!(
                    ok,
                    "delivery:undelivered_at_idle",
                    "client {} has not received {} although every client acknowledged and the broker is idle",
                    c.client_id,
                    example
                );
            }
            if flags.retained {
                let due: Vec<usize> = c
                    .subs
                    .iter()
                    .enumerate()
                    .filter(|(_, s)| s.retained_due && s.end.is_none())
                    .map(|(i, _)| i)
                    .collect();
                for i in due {
                    self.finish_retained(ci, &mut views[ci], i)?;
                }
            }
        }
        if flags.shared {
            for g in self.groups.iter().filter(|g| g.alive && !g.relaxed) {
                // members must all be asserted-on clients
                if !g.members.iter().all(|m| strict(m.0)) {
                    continue;
                }
                // known region R10 (flags.avoid.group_stall): after a member left, the others may
                // stay parked until the next matching publish is accepted
                if flags.avoid.group_stall {
                    // ... and with the random / sticky strategies a member that read up to the
                    // end of the log while it was not its turn is parked even though a message
                    // is pending (the turn may then pass to it): completeness is demanded for
                    // round robin only
                    if self.cfg.strategy != 0 && g.members.len() > 1 {
                        continue;
                    }
                    if let Some(from) = g.stall_from {
                        let woken = (from..now).any(|k| match3(&self.log[k], &g.path) != M3::No);
                        if !woken {
                            continue;
                        }
                    }
                }
                for k in g.created_at..now {
                    if match3(&self.log[k], &g.path) == M3::Yes && !g.delivered.contains_key(&k) {
                        if std::env::var_os("VERIF_TRACE2").is_some() {
                            eprintln!("UNDELIVERED k={k} group={:?} members={:?} delivered_keys={:?}", g.name, g.members, g.delivered.keys().collect::<Vec<_>>());
                        }
                        fail!(
                            "shared:undelivered_at_idle",
                            "message {} on {:?} was forwarded to no member of group {} although the group was never empty and the broker is idle",
                            self.log[k].serial,
                            self.log[k].topic,
                            g.name
                        );
                    }
                }
            }
        }
        Ok(())
    }
}
