//! C20 clauses at router level: every notification a connection drains must be encodable by
//! that connection's protocol (no error, no panic) and decode in the matching rumqttc decoder
//! to the same topic / payload; v5 properties preserved towards v5, absent towards v4.

use super::model::Model;
use super::observe::parse_serial;
use super::run::Stats;
use crate::engine::{guard, Failure};
use crate::{ensure, fail};
use bytes::BytesMut;
use rumqttd::protocol::v4::V4;
use rumqttd::protocol::v5::V5;
use rumqttd::protocol::{Packet, Protocol};
use rumqttd::Notification;

fn kind(p: &Packet) -> &'static str {
    match p {
        Packet::Connect(..) => "Connect",
        Packet::ConnAck(..) => "ConnAck",
        Packet::Publish(..) => "Publish",
        Packet::PubAck(..) => "PubAck",
        Packet::PingReq(..) => "PingReq",
        Packet::PingResp(..) => "PingResp",
        Packet::Subscribe(..) => "Subscribe",
        Packet::SubAck(..) => "SubAck",
        Packet::PubRec(..) => "PubRec",
        Packet::PubRel(..) => "PubRel",
        Packet::PubComp(..) => "PubComp",
        Packet::Unsubscribe(..) => "Unsubscribe",
        Packet::UnsubAck(..) => "UnsubAck",
        Packet::Disconnect(..) => "Disconnect",
    }
}

pub fn check_encodable(notifs: &[Notification], v5: bool, stats: &mut Stats, model: &Model) -> Result<(), Failure> {
    for n in notifs {
        let packet: Option<Packet> = n.clone().into();
        let Some(packet) = packet else { continue };
        let k = kind(&packet);
        let ver = if v5 { "v5" } else { "v4" };
        let mut buf = BytesMut::new();
        let expect = if let Packet::Publish(p, props) = &packet {
            Some((p.topic.clone(), p.payload.clone(), props.clone()))
        } else {
            None
        };
        if !v5 {
            if let Packet::Publish(_, Some(p)) = &packet {
                let has = p.payload_format_indicator.is_some()
                    || p.response_topic.is_some()
                    || p.correlation_data.is_some()
                    || !p.user_properties.is_empty()
                    || p.content_type.is_some();
                if has {
                    stats.v5_to_v4_props += 1;
                }
            }
        }
        let res = guard(&format!("encode:{ver}:{k}"), || {
            if v5 {
                V5.write(packet, &mut buf)
            } else {
                V4.write(packet, &mut buf)
            }
        })?;
        if let Err(e) = res {
            fail!(format!("encode:error:{ver}:{k}"), "the {ver} protocol cannot encode a {k} notification: {e:?}");
        }
        stats.encoded += 1;
        // decode with the client library of the same version
        if v5 {
            let r = guard("decode:rumqttc_v5", || rumqttc::v5::mqttbytes::v5::Packet::read(&mut buf, None))?;
            match (r, expect) {
                (Ok(rumqttc::v5::mqttbytes::v5::Packet::Publish(p)), Some((topic, payload, props))) => {
                    ensure!(
                        p.topic == topic && p.payload == payload,
                        "encode:publish_changed:v5",
                        "publish on {:?} decodes as topic {:?}",
                        topic,
                        p.topic
                    );
                    let got_up = p.properties.as_ref().map(|x| x.user_properties.clone()).unwrap_or_default();
                    let exp_up = props.as_ref().map(|x| x.user_properties.clone()).unwrap_or_default();
                    let got_ct = p.properties.as_ref().and_then(|x| x.content_type.clone());
                    let exp_ct = props.as_ref().and_then(|x| x.content_type.clone());
                    let got_rt = p.properties.as_ref().and_then(|x| x.response_topic.clone());
                    let exp_rt = props.as_ref().and_then(|x| x.response_topic.clone());
                    let got_cd = p.properties.as_ref().and_then(|x| x.correlation_data.clone());
                    let exp_cd = props.as_ref().and_then(|x| x.correlation_data.clone());
                    let got_pfi = p.properties.as_ref().and_then(|x| x.payload_format_indicator);
                    let exp_pfi = props.as_ref().and_then(|x| x.payload_format_indicator);
                    ensure!(
                        got_up == exp_up && got_ct == exp_ct && got_rt == exp_rt && got_cd == exp_cd && got_pfi == exp_pfi,
                        "encode:properties_lost:v5",
                        "v5 publish properties {:?} decode as {:?}",
                        props,
                        p.properties
                    );
                    // against the publisher's original properties
                    if let Some(idx) = parse_serial(&payload).and_then(|s| model.by_serial.get(&s).copied()) {
                        let orig = model.log[idx].props.as_ref();
                        let o_up = orig.map(|x| x.user_properties.clone()).unwrap_or_default();
                        ensure!(
                            o_up == got_up,
                            "encode:publisher_properties_not_preserved:v5",
                            "publisher's user properties {:?} arrive as {:?}",
                            o_up,
                            got_up
                        );
                    }
                }
                (Ok(_), Some(_)) => fail!("encode:publish_decodes_as_other_packet:v5", "publish decodes as another packet type"),
                (Ok(_), None) => {}
                (Err(e), _) => fail!(format!("encode:undecodable:v5:{k}"), "bytes written for {k} do not decode in rumqttc v5: {e:?}"),
            }
        } else {
            let r = guard("decode:rumqttc_v4", || rumqttc::mqttbytes::v4::Packet::read(&mut buf, usize::MAX))?;
            match (r, expect) {
                (Ok(rumqttc::mqttbytes::v4::Packet::Publish(p)), Some((topic, payload, _))) => {
                    ensure!(
                        p.topic.as_bytes() == &topic[..] && p.payload == payload,
                        "encode:publish_changed:v4",
                        "publish on {:?} decodes as topic {:?}",
                        topic,
                        p.topic
                    );
                }
                (Ok(_), Some(_)) => fail!("encode:publish_decodes_as_other_packet:v4", "publish decodes as another packet type"),
                (Ok(_), None) => {}
                (Err(e), _) => fail!(format!("encode:undecodable:v4:{k}"), "bytes written for {k} do not decode in rumqttc v4: {e:?}"),
            }
        }
        ensure!(buf.is_empty(), format!("encode:trailing_bytes:{ver}:{k}"), "{} bytes left after decoding one {k}", buf.len());
    }
    Ok(())
}
