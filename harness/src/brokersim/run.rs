//! Interpreter: executes a history against the real router (Sim) and the reference model in
//! lock-step. Ops whose precondition does not hold are skipped (construction, not rejection).

use super::model::*;
use super::observe::*;
use super::sim::*;
use super::types::*;
use crate::engine::{Failure, Obs};
use crate::{ensure, fail};
use rumqttd::protocol::{Packet, PubAck, PubAckReason, PubComp, PubCompReason, PubRec, PubRecReason, PubRel, PubRelReason, Unsubscribe};
use rumqttd::Notification;
use std::collections::VecDeque;

/// Mirror of the router's event queue (the driver is the only producer)
#[derive(Clone, Debug)]
enum Ev {
    Connect(usize),
    /// DeviceData carrying a router connection id
    Data(usize),
    /// Ready / Disconnect sent by the link of connection `serial`
    ReadyOf(usize),
    DisconnectOf(usize),
    /// Ready / Disconnect carrying a raw id that belongs to no link of ours
    ReadyId(usize),
    DisconnectId(usize),
    Will(String),
    Other,
}

#[derive(Default, Clone)]
struct Slot {
    cur: Option<usize>,
    ended: Vec<usize>,
    next_pkid: u16,
    /// packet ids of QoS 2 publishes not yet released, in publish order
    unreleased: VecDeque<u16>,
}

#[derive(Default, Debug, Clone)]
pub struct Stats {
    pub skipped: u64,
    pub excluded_known: u64,
    pub turns: u64,
    pub forwards: u64,
    pub accepted: u64,
    pub settles: u64,
    pub saw_inflight_full: bool,
    pub saw_busy: bool,
    pub saw_park_wake: bool,
    pub rotated: bool,
    pub relaxed: bool,
    pub desync: bool,
    pub resumed_sessions: u64,
    pub resumed_with_unacked: u64,
    pub max_window: usize,
    pub takeovers: u64,
    pub router_closed: u64,
    pub stale_events: u64,
    pub slot_reused_after_abnormal_end: bool,
    pub wills_fired: u64,
    pub retained_replays: u64,
    pub group_membership_changes: u64,
    pub backlog_over_100: bool,
    pub ack_rounds: u64,
    pub paused_requests: u64,
    pub qos2_completed: u64,
    pub overlapping_delivery: bool,
    pub v5_to_v4_props: u64,
    pub encoded: u64,
    pub rejected_connects: u64,
    pub takeover_at_limit: bool,
    pub qos2_in_completed: u64,
    pub acks_received: u64,
    pub will_forwards: u64,
    pub wills_suppressed: u64,
    pub shared_forwards: u64,
    pub witness_forwards: u64,
}

pub struct Interp<'a> {
    pub sim: Sim,
    pub model: Model,
    pub views: Vec<ClientView>,
    mirror: VecDeque<Ev>,
    pushed: Vec<VecDeque<MPacket>>,
    unnotified: Vec<bool>,
    /// per connection: publisher topic aliases this client has established
    pub_aliases: Vec<std::collections::HashMap<u16, String>>,
    slots: Vec<Slot>,
    pub flags: &'a Flags,
    pub specs: Vec<ClientSpec>,
    pub stats: Stats,
    parked_seen: std::collections::HashSet<usize>,
    base_slots: usize,
}

const TURN_CAP: u64 = 20_000;

impl<'a> Interp<'a> {
    pub fn new(h: &Hist, flags: &'a Flags) -> Interp<'a> {
        Interp {
            sim: Sim::new(&h.cfg),
            model: {
                let mut m = Model::new(&h.cfg);
                // R7 was repaired in /repo: a repeated subscription takes the new QoS over, everywhere
                let _ = flags.strict_resub;
                m.strict_resub = true;
                m
            },
            views: Vec::new(),
            mirror: VecDeque::new(),
            pushed: Vec::new(),
            unnotified: Vec::new(),
            pub_aliases: Vec::new(),
            slots: vec![Slot::default(); h.clients.len()],
            flags,
            specs: h.clients.clone(),
            stats: Stats::default(),
            parked_seen: Default::default(),
            base_slots: h.clients.len(),
        }
    }

    pub fn add_slots(&mut self, n: usize) {
        for _ in 0..n {
            self.slots.push(Slot::default());
        }
    }

    /// live connection of a slot, for the probe
    pub fn probe_serial(&self, slot: usize) -> Option<usize> {
        self.live_serial(slot)
    }

    pub fn strict(&self, slot: usize) -> bool {
        if slot >= self.base_slots {
            // probe clients are always asserted on
            return true;
        }
        match &self.flags.witnesses {
            None => true,
            Some(w) => w.contains(&slot),
        }
    }

    fn live_serial(&self, slot: usize) -> Option<usize> {
        let s = self.slots.get(slot)?.cur?;
        if self.sim.conns[s].state == ConnState::Live && self.model.conns[s].live {
            // a well-behaved client does nothing more on a connection whose link already failed
            // (the Disconnect signal is on its way): anything pushed now could be processed
            // before that signal and let it hit a recycled id (known finding R5)
            if self.flags.avoid.recycled_id
                && self.strict(slot)
                && self.mirror.iter().any(|e| matches!(e, Ev::DisconnectOf(x) if *x == s))
            {
                return None;
            }
            Some(s)
        } else {
            None
        }
    }

    /// Filters (with QoS) the connection will hold once everything it pushed has been processed
    fn effective_subs(&self, serial: usize) -> Vec<(String, u8, bool)> {
        // (filter, qos, made on this connection)
        let mc = &self.model.conns[serial];
        let mut v: Vec<(String, u8, bool)> = mc
            .subs
            .iter()
            .filter(|x| x.end.is_none())
            .map(|x| (x.filter.clone(), x.qos, x.made_at >= mc.registered_at && !mc.session_present))
            .collect();
        for p in self.pushed[serial].iter() {
            match p {
                MPacket::Subscribe { filters, .. } => {
                    for (f, q) in filters {
                        if !v.iter().any(|x| x.0 == *f) {
                            v.push((f.clone(), *q, true));
                        }
                    }
                }
                MPacket::Unsubscribe { filters, .. } => v.retain(|x| !filters.contains(&x.0)),
                _ => {}
            }
        }
        v
    }

    /// The end of this connection is already on its way to the router
    fn end_pending(&self, serial: usize) -> bool {
        let id = &self.model.conns[serial].client_id;
        self.pushed[serial].iter().any(|p| matches!(p, MPacket::Disconnect))
            || self.mirror.iter().any(|e| match e {
                Ev::DisconnectOf(s) => *s == serial,
                Ev::Connect(s) => self.model.conns[*s].client_id == *id,
                _ => false,
            })
    }

    fn next_pkid(&mut self, slot: usize) -> u16 {
        let s = &mut self.slots[slot];
        s.next_pkid = if s.next_pkid == u16::MAX { 1 } else { s.next_pkid + 1 };
        s.next_pkid
    }

    fn push_packet(&mut self, serial: usize, packet: Packet, m: MPacket, notify: bool) {
        if self.sim.push(serial, packet) {
            self.pushed[serial].push_back(m);
            self.unnotified[serial] = true;
            if notify {
                self.notify(serial);
            }
        }
    }

    fn notify(&mut self, serial: usize) {
        if let Some(id) = self.sim.conns[serial].router_id {
            if self.sim.notify(serial) {
                self.mirror.push_back(Ev::Data(id));
                self.unnotified[serial] = false;
            }
        }
    }

    // ------------------------------------------------------------------ ops

    pub fn step(&mut self, op: &Op) -> Result<(), Failure> {
        if std::env::var_os("VERIF_TRACE").is_some() {
            eprintln!("op {op:?}");
        }
        if self.stats.desync {
            return Ok(());
        }
        if let Some(c) = op.client() {
            if c >= self.slots.len() {
                self.stats.skipped += 1;
                return Ok(());
            }
        }
        match op {
            Op::Connect { c, clean, will, alias_max } => self.op_connect(*c, *clean, will.as_ref(), *alias_max),
            Op::Subscribe { c, filters, sub_id, notify } => {
                let Some(s) = self.live_serial(*c) else {
                    self.stats.skipped += 1;
                    return Ok(());
                };
                if filters.is_empty() {
                    self.stats.skipped += 1;
                    return Ok(());
                }
                let av = &self.flags.avoid;
                let spec_v5 = self.specs[*c].v5;
                let sub_id = if spec_v5 { *sub_id } else { None };
                if self.strict(*c) {
                    let eff = self.effective_subs(s);
                    // the same filter twice in one SUBSCRIBE is a repeated subscription too
                    let mut seen: Vec<&String> = Vec::new();
                    for (f, _) in filters {
                        if seen.contains(&f) {
                            self.stats.excluded_known += 1;
                            return Ok(());
                        }
                        seen.push(f);
                    }
                    for (f, q) in filters {
                        let existing = eff.iter().find(|x| x.0 == *f);
                        // R7 (repeated subscription with another QoS) was repaired; for persistent
                        // sessions the case stays out together with R17: which QoS a message
                        // re-sent after a resume carries is not stated by any listed property
                        let persistent = av.persistent_unsub && !self.model.conns[s].clean;
                        if (av.resub_qos || persistent) && existing.is_some_and(|x| x.1 != *q) {
                            self.stats.excluded_known += 1;
                            return Ok(());
                        }
                        if av.alias_wildcard
                            && self.model.conns[s].alias_max > 0
                            && crate::topic::ref_has_wildcards(f)
                        {
                            self.stats.excluded_known += 1;
                            return Ok(());
                        }
                    }
                }
                let pkid = self.next_pkid(*c);
                let p = subscribe_packet(pkid, filters, sub_id);
                let m = MPacket::Subscribe {
                    pkid,
                    filters: filters.clone(),
                    sub_id,
                };
                self.push_packet(s, p, m, *notify);
                Ok(())
            }
            Op::Unsubscribe { c, filters, notify } => {
                let Some(s) = self.live_serial(*c) else {
                    self.stats.skipped += 1;
                    return Ok(());
                };
                if self.strict(*c) {
                    let av = &self.flags.avoid;
                    if av.persistent_unsub && !self.model.conns[s].clean {
                        self.stats.excluded_known += 1;
                        return Ok(());
                    }
                    let eff = self.effective_subs(s);
                    if av.unsub_shape {
                        // region R8: exactly one filter, subscribed on this very connection
                        let ok = filters.len() == 1 && eff.iter().any(|x| x.0 == filters[0] && x.2);
                        if !ok {
                            self.stats.excluded_known += 1;
                            return Ok(());
                        }
                    }
                    if av.unsub_in_group && eff.iter().any(|x| x.0.starts_with("$share/") && !filters.contains(&x.0)) {
                        self.stats.excluded_known += 1;
                        return Ok(());
                    }
                }
                let pkid = self.next_pkid(*c);
                let p = Packet::Unsubscribe(
                    Unsubscribe {
                        pkid,
                        filters: filters.clone(),
                    },
                    None,
                );
                let m = MPacket::Unsubscribe {
                    pkid,
                    filters: filters.clone(),
                };
                if filters.iter().any(|f| f.starts_with("$share/")) {
                    self.stats.group_membership_changes += 1;
                }
                self.push_packet(s, p, m, *notify);
                Ok(())
            }
            Op::Publish { c, topic, qos, retain, size, props, notify, dup } => {
                let Some(s) = self.live_serial(*c) else {
                    self.stats.skipped += 1;
                    return Ok(());
                };
                let mut size = *size;
                if size == 0 && !*retain && self.flags.avoid.empty_nonretained {
                    self.stats.excluded_known += 1;
                    size = 8;
                }
                let serial_no = self.model.next_serial();
                if size > 0 {
                    size = size.max(format!("{serial_no}:").len());
                }
                let payload = make_payload(serial_no, size);
                let pkid = if *qos == 0 { 0 } else { self.next_pkid(*c) };
                let props = if self.specs[*c].v5 { props.clone() } else { None };
                // publisher topic alias: the first use establishes it (topic + alias), a later use
                // with the same topic sends the alias alone (empty topic)
                let mut wire_topic: &[u8] = topic.as_bytes();
                if let Some(a) = props.as_ref().and_then(|p| p.topic_alias) {
                    let known = self.pub_aliases[s].get(&a).map(|t| t == topic).unwrap_or(false);
                    if known {
                        wire_topic = b"";
                    } else {
                        self.pub_aliases[s].insert(a, topic.clone());
                    }
                }
                let publish = make_publish(wire_topic, &payload, *qos, pkid, *retain, *dup && *qos > 0);
                let p = Packet::Publish(publish, props.as_ref().map(to_props));
                let m = MPacket::Publish {
                    serial: serial_no,
                    topic: wire_topic.to_vec(),
                    payload,
                    qos: *qos,
                    pkid,
                    retain: *retain,
                    props,
                };
                if *qos == 2 {
                    self.slots[*c].unreleased.push_back(pkid);
                }
                self.push_packet(s, p, m, *notify);
                Ok(())
            }
            Op::Release { c, notify } => {
                let Some(s) = self.live_serial(*c) else {
                    self.stats.skipped += 1;
                    return Ok(());
                };
                let Some(pkid) = self.slots[*c].unreleased.pop_front() else {
                    self.stats.skipped += 1;
                    return Ok(());
                };
                let p = Packet::PubRel(
                    PubRel {
                        pkid,
                        reason: PubRelReason::Success,
                    },
                    None,
                );
                self.push_packet(s, p, MPacket::PubRel { pkid, with_props: false }, *notify);
                Ok(())
            }
            Op::Ping { c, notify } => {
                let Some(s) = self.live_serial(*c) else {
                    self.stats.skipped += 1;
                    return Ok(());
                };
                self.push_packet(s, pingreq_packet(), MPacket::PingReq, *notify);
                Ok(())
            }
            Op::Disconnect { c, notify, with_props } => {
                let Some(s) = self.live_serial(*c) else {
                    self.stats.skipped += 1;
                    return Ok(());
                };
                let with_props = *with_props && self.specs[*c].v5;
                self.push_packet(s, disconnect_packet(with_props), MPacket::Disconnect, *notify);
                Ok(())
            }
            Op::DropLink { c } => {
                let Some(s) = self.live_serial(*c) else {
                    self.stats.skipped += 1;
                    return Ok(());
                };
                // known finding R5: a Disconnect signal that reaches the router after it already
                // removed the connection acts on whoever holds the recycled id by then
                if self.flags.avoid.recycled_id && self.strict(*c) && self.end_pending(s) {
                    self.stats.excluded_known += 1;
                    return Ok(());
                }
                if self.sim.disconnect_event(s) {
                    self.mirror.push_back(Ev::DisconnectOf(s));
                }
                Ok(())
            }
            Op::Notify { c } => {
                match self.live_serial(*c) {
                    Some(s) => self.notify(s),
                    None => self.stats.skipped += 1,
                }
                Ok(())
            }
            Op::Turn { n } => {
                for _ in 0..(*n).max(1) {
                    self.turn()?;
                }
                Ok(())
            }
            Op::Drain { c } => {
                match self.slots[*c].cur {
                    Some(s) if self.sim.conns[s].state == ConnState::Live => self.drain(s, false),
                    _ => {
                        self.stats.skipped += 1;
                        Ok(())
                    }
                }
            }
            Op::Ack { c, n } => {
                match self.live_serial(*c) {
                    Some(s) => self.ack(s, *n as usize),
                    None => self.stats.skipped += 1,
                }
                Ok(())
            }
            Op::Ready { c } => {
                let Some(s) = self.live_serial(*c) else {
                    self.stats.skipped += 1;
                    return Ok(());
                };
                if self.strict(*c) && !self.views[s].unscheduled {
                    self.stats.skipped += 1;
                    return Ok(());
                }
                if self.sim.ready(s) {
                    self.views[s].unscheduled = false;
                    self.mirror.push_back(Ev::ReadyOf(s));
                }
                Ok(())
            }
            Op::Settle => self.settle(),
            Op::PublishWill { c } => {
                // what remote() does once a connection has ended (will delay elapsed)
                let id = self.specs[*c].id.clone();
                let ended = self.slots[*c].cur.is_none() && !self.slots[*c].ended.is_empty();
                if !ended && self.strict(*c) {
                    self.stats.skipped += 1;
                    return Ok(());
                }
                if self.sim.send_event(0, rumqttd::verif::Event::PublishWill((id.clone(), None))) {
                    self.mirror.push_back(Ev::Will(id));
                }
                Ok(())
            }
            Op::PublishWillFor { client_id } => {
                if self
                    .sim
                    .send_event(0, rumqttd::verif::Event::PublishWill((client_id.clone(), None)))
                {
                    self.mirror.push_back(Ev::Will(client_id.clone()));
                }
                Ok(())
            }
            Op::Raw { c, .. } | Op::Zombie { c, .. } if self.strict(*c) && self.flags.witnesses.is_some() => {
                self.stats.skipped += 1;
                Ok(())
            }
            Op::Raw { c, pkt, notify } => {
                let Some(s) = self.live_serial(*c) else {
                    self.stats.skipped += 1;
                    return Ok(());
                };
                // region R8 (see Op::Unsubscribe): an UNSUBSCRIBE for a filter the connection
                // does not hold gets no UNSUBACK
                if self.flags.avoid.unsub_shape && self.strict(*c) {
                    if let Raw::Unsubscribe { filter } = pkt {
                        if !self.effective_subs(s).iter().any(|x| x.0 == *filter && x.2) {
                            self.stats.excluded_known += 1;
                            return Ok(());
                        }
                    }
                }
                let pkid = self.next_pkid(*c);
                let mut p = raw_packet(pkt, pkid);
                let m = match pkt {
                    Raw::PubAck(id) => MPacket::PubAck(*id),
                    Raw::PubRec(id) => MPacket::PubRec(*id),
                    Raw::PubRel(id) => MPacket::PubRel { pkid: *id, with_props: false },
                    Raw::PubRelProps(id) => MPacket::PubRel { pkid: *id, with_props: true },
                    Raw::PubComp(id) => MPacket::PubComp(*id),
                    Raw::PublishBytes { topic, qos, retain } => {
                        let serial_no = self.model.next_serial();
                        let payload = make_payload(serial_no, 8);
                        p = Packet::Publish(
                            make_publish(topic, &payload, *qos, if *qos == 0 { 0 } else { pkid }, *retain, false),
                            None,
                        );
                        MPacket::Publish {
                            serial: serial_no,
                            topic: topic.clone(),
                            payload,
                            qos: *qos,
                            pkid: if *qos == 0 { 0 } else { pkid },
                            retain: *retain,
                            props: None,
                        }
                    }
                    Raw::Subscribe { filter, qos, sub_id } => MPacket::Subscribe {
                        pkid,
                        filters: vec![(filter.clone(), *qos)],
                        sub_id: *sub_id,
                    },
                    Raw::Unsubscribe { filter } => MPacket::Unsubscribe {
                        pkid,
                        filters: vec![filter.clone()],
                    },
                    _ => MPacket::Ignored,
                };
                if let Raw::PublishBytes { qos: 2, .. } = pkt {
                    self.slots[*c].unreleased.push_back(pkid);
                }
                // raw publishes carry the payload "raw": they are not identifiable, so the
                // connection that sends them is never asserted on and receivers treat them as
                // optional — mark the sender tainted for delivery purposes only via its slot
                self.push_packet(s, p, m, *notify);
                Ok(())
            }
            Op::Stale { id, kind } => {
                self.stats.stale_events += 1;
                use rumqttd::verif::Event;
                let (ev, mir) = match kind % 4 {
                    0 => (Event::DeviceData, Ev::Data(*id)),
                    1 => (Event::Ready, Ev::ReadyId(*id)),
                    2 => (Event::Disconnect, Ev::DisconnectId(*id)),
                    _ => {
                        if self.sim.shadow(*id, "a/b") {
                            self.mirror.push_back(Ev::Other);
                        }
                        return Ok(());
                    }
                };
                if self.sim.send_event(*id, ev) {
                    self.mirror.push_back(mir);
                }
                Ok(())
            }
            Op::Zombie { c, kind } => {
                let Some(&old) = self.slots[*c].ended.last() else {
                    self.stats.skipped += 1;
                    return Ok(());
                };
                let Some(id) = self.sim.conns[old].router_id else {
                    self.stats.skipped += 1;
                    return Ok(());
                };
                self.stats.stale_events += 1;
                use rumqttd::verif::Event;
                match kind % 3 {
                    0 => {
                        if self.sim.send_event(id, Event::DeviceData) {
                            self.mirror.push_back(Ev::Data(id));
                        }
                    }
                    1 => {
                        if self.sim.send_event(id, Event::Ready) {
                            self.mirror.push_back(Ev::ReadyOf(old));
                        }
                    }
                    _ => {
                        if self.sim.send_event(id, Event::Disconnect) {
                            self.mirror.push_back(Ev::DisconnectOf(old));
                        }
                    }
                }
                Ok(())
            }
            Op::Tick { alerts } => {
                use rumqttd::verif::Event;
                let ev = if *alerts { Event::SendAlerts } else { Event::SendMeters };
                if self.sim.send_event(0, ev) {
                    self.mirror.push_back(Ev::Other);
                }
                Ok(())
            }
            Op::NewMeter { keep } => {
                if self.sim.new_meter(*keep) {
                    self.mirror.push_back(Ev::Other);
                }
                Ok(())
            }
            Op::NewAlert { keep } => {
                if self.sim.new_alert(*keep) {
                    self.mirror.push_back(Ev::Other);
                }
                Ok(())
            }
            Op::Shadow { c, filter } => {
                if let Some(s) = self.live_serial(*c) {
                    let id = self.sim.conns[s].router_id.unwrap();
                    if self.sim.shadow(id, filter) {
                        self.mirror.push_back(Ev::Other);
                    }
                }
                Ok(())
            }
        }
    }

    fn op_connect(&mut self, c: usize, clean: bool, will: Option<&Will>, alias_max: u16) -> Result<(), Failure> {
        // one connection attempt at a time per client
        if let Some(cur) = self.slots[c].cur {
            if self.sim.conns[cur].state == ConnState::Pending {
                self.stats.skipped += 1;
                return Ok(());
            }
        }
        if self.flags.no_takeover && self.slots[c].cur.is_some_and(|s| self.sim.conns[s].state == ConnState::Live) {
            // the connection of this client id is (or may still be) registered
            self.stats.skipped += 1;
            return Ok(());
        }
        let spec = self.specs[c].clone();
        let mut alias_max = if spec.v5 { alias_max } else { 0 };
        if alias_max > 0 && !clean && self.flags.avoid.alias_wildcard && self.strict(c) {
            // region R6 through the back door: resuming a session that holds a wildcard
            // subscription on a connection that enables broker topic aliases
            let id = &spec.id;
            let wild_saved = self
                .model
                .sessions
                .get(id)
                .is_some_and(|s| s.subs.iter().any(|x| crate::topic::ref_has_wildcards(&x.filter)));
            let wild_live = self.model.conns.iter().any(|mc| {
                mc.client_id == *id
                    && mc.live
                    && !mc.clean
                    && (mc.subs.iter().any(|x| x.end.is_none() && crate::topic::ref_has_wildcards(&x.filter))
                        || self.pushed[mc.serial].iter().any(|p| matches!(p, MPacket::Subscribe { filters, .. } if filters.iter().any(|(f, _)| crate::topic::ref_has_wildcards(f)))))
            });
            if wild_saved || wild_live {
                self.stats.excluded_known += 1;
                alias_max = 0;
            }
        }
        let will_msg = will.map(|w| {
            let serial = self.model.next_serial();
            let payload = make_payload(serial, w.size.max(format!("{serial}:").len()));
            WillMsg {
                topic: w.topic.clone(),
                payload,
                qos: w.qos,
                retain: w.retain,
                serial,
                maybe: false,
            }
        });
        if self.live_serial(c).is_some() {
            self.stats.takeovers += 1;
            if self.model.live_count() >= self.model.cfg.max_conn {
                self.stats.takeover_at_limit = true;
            }
        }
        let serial = self.sim.connect(
            c,
            &spec,
            clean,
            will.zip(will_msg.as_ref()).map(|(w, m)| (w, m.payload.clone())),
            alias_max,
        );
        let mut mc = MConn::new(serial, c, &spec.id, clean, alias_max, will_msg);
        mc.tainted = !self.strict(c);
        self.model.conns.push(mc);
        self.views.push(ClientView::default());
        self.pushed.push(VecDeque::new());
        self.unnotified.push(false);
        self.pub_aliases.push(Default::default());
        if let Some(old) = self.slots[c].cur.take() {
            self.slots[c].ended.push(old);
        }
        self.slots[c].cur = Some(serial);
        self.slots[c].unreleased.clear();
        self.mirror.push_back(Ev::Connect(serial));
        Ok(())
    }

    fn ack(&mut self, serial: usize, n: usize) {
        let mut pushed_any = false;
        for _ in 0..n {
            let k = self.views[serial].acks_pushed;
            let Some(f) = self.model.conns[serial].fwds.get(k).cloned() else {
                break;
            };
            self.views[serial].acks_pushed += 1;
            let (p, m) = if f.qos == 1 {
                (
                    Packet::PubAck(
                        PubAck {
                            pkid: f.pkid,
                            reason: PubAckReason::Success,
                        },
                        None,
                    ),
                    MPacket::PubAck(f.pkid),
                )
            } else {
                (
                    Packet::PubRec(
                        PubRec {
                            pkid: f.pkid,
                            reason: PubRecReason::Success,
                        },
                        None,
                    ),
                    MPacket::PubRec(f.pkid),
                )
            };
            self.push_packet(serial, p, m, false);
            pushed_any = true;
        }
        let due: Vec<u16> = std::mem::take(&mut self.views[serial].pubcomp_due);
        for id in due {
            let p = Packet::PubComp(
                PubComp {
                    pkid: id,
                    reason: PubCompReason::Success,
                },
                None,
            );
            self.push_packet(serial, p, MPacket::PubComp(id), false);
            self.stats.qos2_completed += 1;
            pushed_any = true;
        }
        if pushed_any {
            self.stats.ack_rounds += 1;
            self.notify(serial);
        }
    }

    fn drain(&mut self, serial: usize, force_ack: bool) -> Result<(), Failure> {
        let Some(notifs) = self.sim.drain(serial) else {
            return Ok(());
        };
        let notifs: Vec<Notification> = notifs.into_iter().collect();
        let slot = self.sim.conns[serial].slot;
        if std::env::var_os("VERIF_TRACE").is_some() {
            eprintln!("drain serial={serial} slot={slot}: {notifs:?}");
            eprintln!("   model subs: {:?}", self.model.conns[serial].subs);
            eprintln!("   frontier: {:?}", self.model.conns[serial].frontier);
        }
        let n_fwd = notifs.iter().filter(|n| matches!(n, Notification::Forward(_))).count() as u64;
        self.stats.forwards += n_fwd;
        if n_fwd > 0 {
            if let Some(id) = self.sim.conns[serial].router_id {
                // it had been parked as caught up at the end of an earlier turn and was woken
                if self.parked_seen.remove(&id) {
                    self.stats.saw_park_wake = true;
                }
            }
        }
        if self.flags.encode {
            super::encode::check_encodable(&notifs, self.specs[slot].v5, &mut self.stats, &self.model)?;
        }
        let flags = self.flags;
        let before_retained = self.views[serial].retained_got.len();
        self.model.observe(serial, &mut self.views[serial], &notifs, flags)?;
        self.stats.retained_replays += (self.views[serial].retained_got.len() - before_retained) as u64;
        self.stats.max_window = self.stats.max_window.max(self.views[serial].max_window);
        if self.model.conns[serial].live {
            let spec = self.specs[slot].clone();
            if spec.auto_ack || force_ack {
                self.ack(serial, usize::MAX >> 1);
            }
            if (spec.auto_ready || force_ack) && self.views[serial].unscheduled {
                self.stats.saw_busy = true;
                // the router's event channel is bounded: a real link awaits capacity, here
                // the Ready stays due until it could be sent
                if self.sim.ready(serial) {
                    self.views[serial].unscheduled = false;
                    self.mirror.push_back(Ev::ReadyOf(serial));
                }
            }
        }
        Ok(())
    }

    // ------------------------------------------------------------------ turns

    fn resolve_id(&self, id: usize) -> Option<usize> {
        self.model
            .conns
            .iter()
            .find(|c| c.live && self.sim.conns.get(c.serial).and_then(|s| s.router_id) == Some(id))
            .map(|c| c.serial)
    }

    pub fn turn(&mut self) -> Result<bool, Failure> {
        if self.flags.acks && !self.mirror.is_empty() {
            // classification only: requests about to be processed while their connection is paused
            let snap = self.sim.snapshot();
            for ev in self.mirror.iter().take(501) {
                if let Ev::Data(id) = ev {
                    if let Some(vc) = snap.connections.iter().find(|c| c.id == *id) {
                        if vc.status == "busy" || vc.status == "inflightfull" {
                            self.stats.paused_requests += 1;
                        }
                    }
                }
            }
        }
        let out = self.sim.turn()?;
        self.stats.turns += 1;
        ensure!(
            self.stats.turns < TURN_CAP,
            "liveness:no_quiescence",
            "the router was still busy after {TURN_CAP} turns"
        );
        let changed = self.sim.finish_pending();
        // apply the processed events to the model, in order
        for _ in 0..out.processed {
            let Some(ev) = self.mirror.pop_front() else {
                fail!("harness:mirror_underflow", "router processed more events than the driver sent");
            };
            self.apply(ev);
        }
        // admission / session clauses for connections whose fate is now known
        for serial in changed {
            let sc = &self.sim.conns[serial];
            let mc = &self.model.conns[serial];
            let strict = self.strict(sc.slot);
            if !mc.seen {
                continue;
            }
            match sc.state {
                ConnState::Live => {
                    if strict && (self.flags.admission || self.flags.session || self.flags.delivery) {
                        ensure!(
                            mc.accepted,
                            "admission:registered_against_the_rules",
                            "connection of client {:?} was registered although the rules reject it (invalid id or connection limit {})",
                            mc.client_id,
                            self.model.cfg.max_conn
                        );
                    }
                    if strict && self.flags.session {
                        ensure!(
                            sc.session_present == Some(mc.session_present),
                            "session:session_present_wrong",
                            "CONNACK of client {:?} (clean={}) says session_present={:?}, expected {}",
                            mc.client_id,
                            mc.clean,
                            sc.session_present,
                            mc.session_present
                        );
                    }
                    if mc.session_present {
                        self.stats.resumed_sessions += 1;
                    }
                }
                ConnState::Rejected => {
                    self.stats.rejected_connects += 1;
                    if strict && self.flags.admission {
                        ensure!(
                            !mc.accepted,
                            "admission:valid_connection_rejected",
                            "connection (attempt #{}) of client {:?} was not registered although id is valid and only {} of {} connections are in use",
                            serial,
                            mc.client_id,
                            self.model.live_count(),
                            self.model.cfg.max_conn
                        );
                    }
                    if mc.accepted {
                        // the model believed it registered: nothing further can be asserted
                        self.stats.desync = true;
                    }
                }
                _ => {}
            }
        }
        self.post_turn()?;
        Ok(out.ran)
    }

    fn apply(&mut self, ev: Ev) {
        if std::env::var_os("VERIF_TRACE").is_some() {
            eprintln!("  apply {ev:?} live={:?}", self.model.conns.iter().filter(|c| c.live).map(|c| c.serial).collect::<Vec<_>>());
        }
        match ev {
            Ev::Connect(serial) => {
                let old = self.model.live_conn_of_client(&self.model.conns[serial].client_id.clone());
                let had_unacked = old.is_some_and(|o| self.model.conns[o].fwds.len() > self.model.conns[o].acked_fwds);
                let _ = had_unacked;
                self.model.on_connect(serial);
            }
            Ev::Data(id) => {
                let Some(serial) = self.resolve_id(id) else {
                    return;
                };
                let packets: Vec<MPacket> = self.pushed[serial].drain(..).collect();
                self.unnotified[serial] = false;
                let n_pub = packets.iter().filter(|p| matches!(p, MPacket::Publish { .. } | MPacket::PubRel { .. })).count();
                let before = self.model.now();
                let eff = self.model.on_batch(serial, packets);
                let _ = n_pub;
                self.stats.accepted += (self.model.now() - before) as u64;
                if eff.unknown {
                    self.model.conns[serial].tainted = true;
                }
                if let Some(why) = eff.closed {
                    if matches!(why, CloseWhy::Violation(_)) {
                        self.stats.router_closed += 1;
                    }
                    self.close_model(serial, why);
                }
            }
            Ev::ReadyOf(_) | Ev::ReadyId(_) => {}
            Ev::DisconnectOf(serial) => {
                if self.model.conns[serial].live {
                    self.close_model(serial, CloseWhy::LinkDrop);
                }
                // otherwise: a late signal of a finished connection. By the property it acts on
                // nobody, and since R5 was repaired in /repo (links address the router with a
                // token that carries the serial number of their registration) it does not
            }
            Ev::DisconnectId(id) => {
                // a disconnect signal carrying the id of a live connection is indistinguishable
                // from that connection's own network task reporting a failure
                if let Some(serial) = self.resolve_id(id) {
                    self.close_model(serial, CloseWhy::LinkDrop);
                }
            }
            Ev::Will(id) => {
                let before = self.model.wills_fired.len();
                self.model.on_publish_will(&id);
                self.stats.wills_fired += (self.model.wills_fired.len() - before) as u64;
                if self.model.wills_fired.len() == before {
                    self.stats.wills_suppressed += 1;
                }
            }
            Ev::Other => {}
        }
    }

    fn close_model(&mut self, serial: usize, why: CloseWhy) {
        let c = &self.model.conns[serial];
        if !c.clean && c.fwds.len() > c.acked_fwds {
            self.stats.resumed_with_unacked += 1;
        }
        if c.subs.iter().any(|s| s.group.is_some() && s.end.is_none()) {
            self.stats.group_membership_changes += 1;
        }
        self.model.close(serial, why);
    }

    /// After every turn: compare liveness, slab alignment, admission invariants
    fn post_turn(&mut self) -> Result<(), Failure> {
        let snap = self.sim.snapshot();
        if self.flags.slabs {
            let k = &snap.connection_keys;
            ensure!(
                *k == snap.ibuf_keys && *k == snap.obuf_keys && *k == snap.acklog_keys && *k == snap.tracker_keys,
                "slabs:misaligned",
                "connection slabs have different key sets: connections {:?} ibufs {:?} obufs {:?} acks {:?} trackers {:?}",
                k,
                snap.ibuf_keys,
                snap.obuf_keys,
                snap.acklog_keys,
                snap.tracker_keys
            );
            let mut ids: Vec<usize> = snap.connection_map.iter().map(|x| x.1).collect();
            ids.sort();
            let mut keys = k.clone();
            keys.sort();
            ensure!(
                ids == keys,
                "slabs:connection_map_not_bijective",
                "connection_map {:?} does not map onto the live ids {:?}",
                snap.connection_map,
                k
            );
        }
        if self.flags.admission {
            let mut ids: Vec<&String> = snap.connections.iter().map(|c| &c.client_id).collect();
            ids.sort();
            let n = ids.len();
            ids.dedup();
            ensure!(
                ids.len() == n,
                "admission:two_live_connections_one_client_id",
                "live connections {:?}",
                snap.connections.iter().map(|c| (&c.client_id, c.id)).collect::<Vec<_>>()
            );
            ensure!(
                n <= self.model.cfg.max_conn,
                "admission:more_connections_than_max",
                "{} live connections, max_connections = {}",
                n,
                self.model.cfg.max_conn
            );
        }
        for vc in snap.connections.iter() {
            match vc.status {
                "inflightfull" => self.stats.saw_inflight_full = true,
                "busy" => {}
                "caughtup" => {
                    if !vc.subscriptions.is_empty() {
                        self.parked_seen.insert(vc.id);
                    }
                }
                _ => {}
            }
            if vc.inflight.len() >= 100 {
                self.stats.backlog_over_100 = true;
            }
        }
        // liveness of every connection: router view vs model
        for serial in 0..self.sim.conns.len() {
            if self.sim.conns[serial].state != ConnState::Live {
                continue;
            }
            let id = self.sim.conns[serial].router_id.unwrap();
            let client_id = &self.model.conns[serial].client_id;
            let sim_live = !self.sim.router_dropped(serial)
                && snap.connections.iter().any(|c| c.id == id && c.client_id == *client_id);
            let model_live = self.model.conns[serial].live;
            let slot = self.sim.conns[serial].slot;
            let strict = self.strict(slot) && !self.model.conns[serial].tainted;
            if sim_live == model_live {
                if !sim_live {
                    self.end_sim_conn(serial);
                }
                continue;
            }
            if strict {
                if model_live {
                    fail!(
                        "conn:closed_by_broker_without_cause",
                        "connection of well-behaved client {:?} (router id {}) was closed by the broker; nothing this client did justifies it",
                        client_id,
                        id
                    );
                } else {
                    fail!(
                        "conn:still_open_after_it_should_have_ended",
                        "connection of client {:?} is still registered although it ended ({:?})",
                        client_id,
                        self.model.conns[serial].closed
                    );
                }
            }
            if !model_live
                && self.flags.window
                && matches!(
                    self.model.conns[serial].closed,
                    Some(CloseWhy::Violation("unsolicited_ack")) | Some(CloseWhy::Violation("unsolicited_pubcomp"))
                )
            {
                fail!(
                    "window:unsolicited_ack_did_not_close_connection",
                    "client {:?} acknowledged a packet id the broker had not sent next, and its connection is still open",
                    client_id
                );
            }
            // not asserted on: follow the router
            if model_live {
                self.stats.router_closed += 1;
                self.close_model(serial, CloseWhy::Violation("observed"));
                self.end_sim_conn(serial);
            } else {
                self.stats.desync = true;
            }
        }
        if self.model.conns.iter().any(|c| c.subs.iter().any(|s| s.relaxed)) {
            self.stats.relaxed = true;
        }
        Ok(())
    }

    fn end_sim_conn(&mut self, serial: usize) {
        // post-mortem: what the broker had pushed to this connection before it ended counts
        // as forwarded (e.g. a shared group's message handed to a member that then went away)
        if self.sim.conns[serial].state == ConnState::Live {
            let flags = self.flags;
            while let Some(notifs) = self.sim.drain(serial) {
                let notifs: Vec<Notification> = notifs.into_iter().collect();
                if notifs.is_empty() {
                    continue;
                }
                let was = self.model.conns[serial].tainted;
                // assertions about a connection that no longer exists are not meaningful
                self.model.conns[serial].tainted = true;
                let _ = self.model.observe(serial, &mut self.views[serial], &notifs, flags);
                self.model.conns[serial].tainted = was;
            }
        }
        self.sim.conns[serial].state = ConnState::Ended;
        let slot = self.sim.conns[serial].slot;
        if self.slots[slot].cur == Some(serial) {
            self.slots[slot].cur = None;
            self.slots[slot].ended.push(serial);
            self.slots[slot].unreleased.clear();
        }
    }

    // ------------------------------------------------------------------ settle

    fn total_signals(&self) -> usize {
        (0..self.sim.conns.len())
            .filter(|s| self.sim.conns[*s].state == ConnState::Live)
            .map(|s| self.sim.conns[s].rx.as_ref().map_or(0, |r| r.verif_pending_signals()))
            .sum()
    }

    /// Drives the system to quiescence: everything pushed is notified, the router runs until it
    /// would block, every asserted-on client drains, acknowledges in order and answers
    /// Unschedule; repeated until a whole round changes nothing. Then the idle clauses.
    pub fn settle(&mut self) -> Result<(), Failure> {
        if self.stats.desync {
            return Ok(());
        }
        self.stats.settles += 1;
        for _round in 0..2000 {
            let mut progress = false;
            for s in 0..self.sim.conns.len() {
                if self.sim.conns[s].state == ConnState::Live && self.unnotified[s] {
                    self.notify(s);
                }
            }
            let mut quiet = 0;
            loop {
                let sig_before = self.total_signals();
                let pending_before = self.sim.pending_events();
                let ran = self.turn()?;
                if self.stats.desync {
                    return Ok(());
                }
                if !ran {
                    break;
                }
                if pending_before == 0 && self.total_signals() == sig_before {
                    quiet += 1;
                    if quiet >= 3 {
                        break;
                    }
                } else {
                    quiet = 0;
                    progress = true;
                }
            }
            for s in 0..self.sim.conns.len() {
                if self.sim.conns[s].state != ConnState::Live {
                    continue;
                }
                let slot = self.sim.conns[s].slot;
                if !self.strict(slot) && !self.specs[slot].auto_ack {
                    // a stalled adversary stays stalled
                    continue;
                }
                if self.sim.has_signal(s) {
                    self.drain(s, true)?;
                    progress = true;
                }
                if self.model.conns[s].live {
                    let v = &self.views[s];
                    if v.acks_pushed < self.model.conns[s].fwds.len() || !v.pubcomp_due.is_empty() {
                        self.ack(s, usize::MAX >> 1);
                        progress = true;
                    }
                    if self.views[s].unscheduled {
                        if self.sim.ready(s) {
                            self.views[s].unscheduled = false;
                            self.mirror.push_back(Ev::ReadyOf(s));
                        }
                        progress = true;
                    }
                }
            }
            if !progress && self.sim.pending_events() == 0 {
                break;
            }
        }
        let flags = self.flags;
        let witnesses = flags.witnesses.clone();
        let base = self.base_slots;
        let strict = move |slot: usize| slot >= base || witnesses.as_ref().map_or(true, |w| w.contains(&slot));
        self.model.check_idle(&mut self.views, flags, &strict)
    }

    pub fn finish(&mut self, obs: &mut Obs) {
        let s = &self.stats;
        obs.count("ops_skipped", s.skipped);
        obs.count("ops_excluded_known_region", s.excluded_known);
        obs.count("turns", s.turns);
        obs.count("forwards", s.forwards);
        obs.count("accepted", s.accepted);
        obs.class_if(s.saw_inflight_full, "pause_inflight_full");
        obs.class_if(s.saw_busy, "pause_busy_unschedule");
        obs.class_if(s.saw_park_wake, "park_then_wake");
        obs.class_if(s.relaxed, "retention_relaxed");
        obs.class_if(s.desync, "adversary_desync");
        obs.class_if(s.resumed_sessions > 0, "session_resumed");
        obs.class_if(s.takeovers > 0, "takeover");
        obs.class_if(s.router_closed > 0, "broker_closed_a_connection");
        obs.class_if(s.backlog_over_100, "window_reached_100");
        obs.class_if(s.wills_fired > 0, "will_published");
        obs.class_if(s.retained_replays > 0, "retained_replay");
        obs.class_if(s.qos2_completed > 0, "qos2_outbound_completed");
        obs.class_if(s.paused_requests > 0, "request_while_paused");
    }
}

/// Executes a whole history; the final Settle is implicit
pub fn run_history(h: &Hist, flags: &Flags, obs: &mut Obs) -> Result<Stats, Failure> {
    let mut it = Interp::new(h, flags);
    let r = (|| {
        for op in &h.ops {
            it.step(op)?;
        }
        it.settle()?;
        if flags.liveness_probe {
            super::probe::liveness_probe(&mut it)?;
        }
        Ok(())
    })();
    it.finish(obs);
    it.stats.qos2_in_completed = it.views.iter().map(|v| v.pubcomp_received).sum();
    it.stats.acks_received = it.views.iter().map(|v| v.acks_received).sum();
    it.stats.will_forwards = it.views.iter().map(|v| v.will_forwards).sum();
    it.stats.witness_forwards = (0..it.views.len())
        .filter(|s| it.strict(it.sim.conns[*s].slot))
        .map(|s| it.views[s].forwards_seen)
        .sum();
    it.stats.shared_forwards = it.model.groups.iter().map(|g| g.delivered.len() as u64).sum();
    r.map(|_| it.stats.clone())
}
