//! E4 brokersim: deterministic router driver, simulated clients, reference broker model.
pub mod campaign;
pub mod encode;
pub mod gen;
pub mod model;
pub mod observe;
pub mod probe;
pub mod run;
pub mod sim;
pub mod types;
