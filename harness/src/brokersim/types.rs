//! Case data of the broker simulator (E4): a router configuration, client specifications and a
//! history of operations. Plain serde data so that a shrunk history is its own replay file.

use serde::{Deserialize, Serialize};

#[derive(Clone, Debug, Serialize, Deserialize, PartialEq)]
pub struct Cfg {
    pub seg_size: usize,
    pub seg_count: usize,
    pub max_out: u64,
    pub max_conn: usize,
    /// 0 round robin, 1 random, 2 sticky
    pub strategy: u8,
}

impl Default for Cfg {
    fn default() -> Self {
        Cfg {
            seg_size: 4096,
            seg_count: 4,
            max_out: 200,
            max_conn: 16,
            strategy: 0,
        }
    }
}

#[derive(Clone, Debug, Serialize, Deserialize, PartialEq)]
pub struct ClientSpec {
    pub id: String,
    /// acknowledge forwards as soon as they are drained (in order)
    pub auto_ack: bool,
    /// answer Unschedule with Ready as soon as it is drained
    pub auto_ready: bool,
    /// encode what it receives with the v5 protocol (C20); also allowed to use v5-only features
    pub v5: bool,
    pub dynamic_filters: bool,
}

#[derive(Clone, Debug, Serialize, Deserialize, PartialEq)]
pub struct Will {
    pub topic: String,
    pub qos: u8,
    pub retain: bool,
    pub size: usize,
}

/// v5 publish properties used by the generator (message expiry is deliberately absent: the
/// router decrements it from the wall clock)
#[derive(Clone, Debug, Default, Serialize, Deserialize, PartialEq)]
pub struct Props {
    pub payload_format_indicator: Option<u8>,
    pub topic_alias: Option<u16>,
    pub response_topic: Option<String>,
    pub correlation_data: Option<Vec<u8>>,
    pub user_properties: Vec<(String, String)>,
    pub subscription_identifiers: Vec<usize>,
    pub content_type: Option<String>,
}

/// Packets a misbehaving client may push (everything the decoders can produce that a
/// well-behaved client would not send at that point)
#[derive(Clone, Debug, Serialize, Deserialize, PartialEq)]
pub enum Raw {
    PubAck(u16),
    PubRec(u16),
    PubRel(u16),
    /// PUBREL carrying (non-empty) v5 properties
    PubRelProps(u16),
    PubComp(u16),
    ConnAck,
    SubAck(u16),
    UnsubAck(u16),
    PingResp,
    Connect,
    /// PUBLISH with a topic given as raw bytes (may be invalid UTF-8)
    PublishBytes { topic: Vec<u8>, qos: u8, retain: bool },
    /// SUBSCRIBE with an arbitrary filter string (invalid, `$`-prefixed, empty ...)
    Subscribe { filter: String, qos: u8, sub_id: Option<usize> },
    Unsubscribe { filter: String },
}

#[derive(Clone, Debug, Serialize, Deserialize, PartialEq)]
pub enum Op {
    Connect {
        c: usize,
        clean: bool,
        will: Option<Will>,
        alias_max: u16,
    },
    Subscribe {
        c: usize,
        filters: Vec<(String, u8)>,
        sub_id: Option<usize>,
        notify: bool,
    },
    Unsubscribe {
        c: usize,
        filters: Vec<String>,
        notify: bool,
    },
    Publish {
        c: usize,
        topic: String,
        qos: u8,
        retain: bool,
        /// payload length; 0 = empty payload, otherwise at least the length of the serial tag
        size: usize,
        props: Option<Props>,
        notify: bool,
        /// DUP flag of the PUBLISH (QoS 1/2 only): a redelivery the broker has not seen before,
        /// which it has to treat like any other publish
        #[serde(default)]
        dup: bool,
    },
    /// PUBREL for the oldest QoS 2 publish of `c` that has not been released
    Release { c: usize, notify: bool },
    Ping { c: usize, notify: bool },
    /// MQTT DISCONNECT packet (`with_props`: a v5 client's DISCONNECT carrying properties)
    Disconnect {
        c: usize,
        notify: bool,
        #[serde(default)]
        with_props: bool,
    },
    /// what the network task does when the socket fails: Event::Disconnect
    DropLink { c: usize },
    Notify { c: usize },
    Turn { n: u8 },
    Drain { c: usize },
    /// acknowledge the next `n` received-but-unacknowledged forwards, in order
    Ack { c: usize, n: u8 },
    Ready { c: usize },
    Settle,
    /// what `remote()` does after a connection ended: Event::PublishWill for its client id
    PublishWill { c: usize },
    // ---- misbehaviour / stale signals ----
    Raw { c: usize, pkt: Raw, notify: bool },
    /// an event carrying an arbitrary router connection id (0 DeviceData, 1 Ready, 2 Disconnect, 3 Shadow)
    Stale { id: usize, kind: u8 },
    /// an event sent through a finished connection of client `c` (its old router id)
    Zombie { c: usize, kind: u8 },
    PublishWillFor { client_id: String },
    Tick { alerts: bool },
    NewMeter { keep: bool },
    NewAlert { keep: bool },
    Shadow { c: usize, filter: String },
}

impl Op {
    pub fn client(&self) -> Option<usize> {
        match self {
            Op::Connect { c, .. }
            | Op::Subscribe { c, .. }
            | Op::Unsubscribe { c, .. }
            | Op::Publish { c, .. }
            | Op::Release { c, .. }
            | Op::Ping { c, .. }
            | Op::Disconnect { c, .. }
            | Op::DropLink { c }
            | Op::Notify { c }
            | Op::Drain { c }
            | Op::Ack { c, .. }
            | Op::Ready { c }
            | Op::PublishWill { c }
            | Op::Raw { c, .. }
            | Op::Zombie { c, .. }
            | Op::Shadow { c, .. } => Some(*c),
            _ => None,
        }
    }
}

#[derive(Clone, Debug, Serialize, Deserialize, PartialEq)]
pub struct Hist {
    pub cfg: Cfg,
    pub clients: Vec<ClientSpec>,
    pub ops: Vec<Op>,
}
