//! C03 liveness probe: after any history, a fresh subscriber and a fresh publisher must be
//! served (connect, subscribe, QoS 1 publish, forward, PUBACK) within the turn bound.

use super::observe::ClientView;
use super::run::Interp;
use super::types::*;
use crate::engine::Failure;
use crate::ensure;

pub fn liveness_probe(it: &mut Interp) -> Result<(), Failure> {
    if it.stats.desync {
        return Ok(());
    }
    let base = it.specs.len();
    if it.model.live_count() + 2 > it.model.cfg.max_conn {
        return Ok(());
    }
    for (i, name) in ["vprobe-sub", "vprobe-pub"].iter().enumerate() {
        it.specs.push(ClientSpec {
            id: name.to_string(),
            auto_ack: true,
            auto_ready: true,
            v5: false,
            dynamic_filters: false,
        });
        let _ = i;
    }
    it.add_slots(2);
    let ops = vec![
        Op::Connect { c: base, clean: true, will: None, alias_max: 0 },
        Op::Connect { c: base + 1, clean: true, will: None, alias_max: 0 },
        Op::Settle,
        Op::Subscribe { c: base, filters: vec![("vprobe/t".into(), 1)], sub_id: None, notify: true },
        Op::Settle,
        Op::Publish { c: base + 1, topic: "vprobe/t".into(), qos: 1, retain: false, size: 12, props: None, notify: true, dup: false },
        Op::Settle,
    ];
    // the probe clients are always asserted on
    let before: Vec<u64> = it.views.iter().map(|v: &ClientView| v.forwards_seen).collect();
    let _ = before;
    for op in &ops {
        it.step(op)?;
    }
    let sub = it.probe_serial(base);
    let publ = it.probe_serial(base + 1);
    ensure!(
        sub.is_some() && publ.is_some(),
        "liveness:fresh_connection_not_served",
        "after the history a fresh client could not establish a connection"
    );
    let (sub, publ) = (sub.unwrap(), publ.unwrap());
    ensure!(
        it.views[sub].forwards_seen >= 1,
        "liveness:fresh_subscriber_not_served",
        "after the history a fresh subscriber did not receive a fresh QoS 1 publish on its topic"
    );
    ensure!(
        it.model.conns[publ].expected_acks.is_empty() && it.model.conns[sub].expected_acks.is_empty(),
        "liveness:fresh_publisher_not_acknowledged",
        "after the history a fresh publisher's QoS 1 publish was not acknowledged"
    );
    Ok(())
}
