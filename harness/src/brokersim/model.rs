//! Reference broker model, written from the MQTT rules and the property statements (not from
//! routing.rs): acceptance log, subscriptions, owed acknowledgements, sessions, retained store,
//! wills, shared groups. It is stepped with the exact sequence of events the router processed
//! (the driver owns the event queue), so acceptance order is known exactly.

use super::types::*;
use crate::topic::{ref_has_wildcards, ref_matches, ref_valid_filter};
use std::collections::{BTreeMap, HashMap, VecDeque};

pub const TOPIC_ALIAS_MAX: u16 = 4096;

#[derive(Clone, Debug)]
pub struct Msg {
    pub serial: u64,
    pub topic: String,
    pub payload: Vec<u8>,
    pub retain: bool,
    pub props: Option<Props>,
    /// topic name is not a valid MQTT topic name (contains a wildcard): matching is unspecified
    pub wild_topic: bool,
    /// the model cannot tell whether the broker accepted it (sent by a misbehaving client after a
    /// point where the broker's reaction is not predictable): delivery is optional
    pub maybe: bool,
}

#[derive(Clone, Copy, Debug, PartialEq, Eq)]
pub enum M3 {
    Yes,
    No,
    Maybe,
}

/// Does an accepted message belong to a subscription's stream?
pub fn match3(msg: &Msg, filter: &str) -> M3 {
    if msg.maybe {
        return if !msg.wild_topic && ref_valid_filter(filter) && !ref_matches(&msg.topic, filter) {
            M3::No
        } else {
            M3::Maybe
        };
    }
    if msg.wild_topic || !ref_valid_filter(filter) {
        // outside the domain of the reference matcher: delivery is unspecified
        return M3::Maybe;
    }
    if ref_matches(&msg.topic, filter) {
        M3::Yes
    } else {
        M3::No
    }
}

#[derive(Clone, Debug, PartialEq)]
pub enum ExpAck {
    PubAck(u16),
    PubRec(u16),
    PubComp(u16),
    /// PUBREL the broker owes in reply to a client's PUBREC
    PubRel(u16),
    /// PUBREL of a previous connection that the broker may send again after a session resume
    /// (no listed property requires it, so it is accepted but not demanded)
    PubRelResumed(u16),
    SubAck(u16, Vec<u8>),
    UnsubAck(u16),
    PingResp,
}

/// Packets as the model sees them (what the client pushed)
#[derive(Clone, Debug)]
pub enum MPacket {
    Publish {
        serial: u64,
        topic: Vec<u8>,
        payload: Vec<u8>,
        qos: u8,
        pkid: u16,
        retain: bool,
        props: Option<Props>,
    },
    PubRel {
        pkid: u16,
        with_props: bool,
    },
    Subscribe {
        pkid: u16,
        filters: Vec<(String, u8)>,
        sub_id: Option<usize>,
    },
    Unsubscribe {
        pkid: u16,
        filters: Vec<String>,
    },
    PubAck(u16),
    PubRec(u16),
    PubComp(u16),
    PingReq,
    Disconnect,
    /// ignored by a broker (CONNECT/CONNACK/SUBACK/... out of place)
    Ignored,
}

#[derive(Clone, Debug)]
pub struct MSub {
    /// filter as subscribed (with `$share/group/` prefix if shared)
    pub filter: String,
    /// filter used for matching
    pub path: String,
    pub group: Option<String>,
    pub qos: u8,
    pub sub_id: Option<usize>,
    /// acceptance index at which the subscription took effect
    pub start: usize,
    /// acceptance index at which it was removed
    pub end: Option<usize>,
    /// acceptance indices below this may be skipped (QoS 0 forwards lost with a connection,
    /// retention-relaxed streams)
    pub lenient_until: usize,
    /// retained replay owed to this (new, non-shared) subscription
    pub retained_due: bool,
    /// the replay may already have happened on an earlier connection of the session: it is
    /// accepted once more but not demanded
    pub retained_optional: bool,
    /// acceptance index when the subscription was made (start of the retained window)
    pub made_at: usize,
    /// retention may have been exceeded on this stream: only safety clauses apply
    pub relaxed: bool,
    /// re-subscribed with a different QoS (known region R7): granted QoS unknown
    pub qos_uncertain: bool,
    /// QoS values an earlier SUBSCRIBE of this filter had granted, each with the acceptance
    /// index at which it was replaced: a message accepted before that may still have been
    /// forwarded (and be drained later) with the old QoS
    pub old_qos: Vec<(u8, usize)>,
}

impl MSub {
    /// May a forward of message `idx` under this subscription carry `qos`?
    pub fn qos_ok(&self, qos: u8, idx: usize) -> bool {
        self.qos == qos || self.qos_uncertain || self.old_qos.iter().any(|(q, until)| *q == qos && idx < *until)
    }
}

/// One QoS>0 forward as the client drained it (drain order = the broker's send order)
#[derive(Clone, Debug)]
pub struct FwdMeta {
    pub pkid: u16,
    pub qos: u8,
    /// acceptance index of the message (None for a retained replay)
    pub idx: Option<usize>,
}

/// One way of attributing everything received so far to the connection's subscriptions
#[derive(Clone, Debug, PartialEq, Eq, Hash)]
pub struct FState {
    /// per subscription (index into `subs`): next acceptance index not yet consumed
    pub pos: Vec<usize>,
    /// per QoS>0 forward: subscription it was attributed to (255 = retained replay / shared)
    pub attr: Vec<u8>,
}

#[derive(Clone, Debug)]
pub struct WillMsg {
    pub topic: String,
    pub payload: Vec<u8>,
    pub qos: u8,
    pub retain: bool,
    pub serial: u64,
    /// the broker may or may not still hold it (DISCONNECT after an unpredictable point)
    pub maybe: bool,
}

#[derive(Clone, Debug, PartialEq, Eq)]
pub enum CloseWhy {
    ClientDisconnect,
    LinkDrop,
    Takeover,
    /// the broker closed it because of a protocol violation by this client
    Violation(&'static str),
}

#[derive(Clone, Debug)]
pub struct MConn {
    pub serial: usize,
    pub slot: usize,
    pub client_id: String,
    pub clean: bool,
    /// the router processed its Connect event
    pub seen: bool,
    pub accepted: bool,
    pub live: bool,
    pub closed: Option<CloseWhy>,
    pub session_present: bool,
    pub subs: Vec<MSub>,
    pub expected_acks: VecDeque<ExpAck>,
    pub qos2_recorded: VecDeque<MPacket>,
    pub aliases: HashMap<u16, String>,
    /// number of QoS>0 forwards (in the order the client drained them) that the router has
    /// seen acknowledged
    pub acked_fwds: usize,
    /// packet ids for which the router processed PUBREC and awaits PUBCOMP
    pub pubrec_waiting: VecDeque<u16>,
    /// pending PUBRELs restored from a previous session (owed as acks right after CONNACK)
    pub alias_max: u16,
    pub will: Option<WillMsg>,
    /// acceptance index when the router registered / removed this connection
    pub registered_at: usize,
    pub ended_at: Option<usize>,
    /// expectations about this connection are not asserted (adversary, or after a desync)
    pub tainted: bool,
    /// QoS>0 forwards drained by the client, in order
    pub fwds: Vec<FwdMeta>,
    /// attribution states (see FState); never empty for a registered connection
    pub frontier: Vec<FState>,
    pub frontier_overflow: bool,
}

#[derive(Clone, Debug, Default)]
pub struct Session {
    pub subs: Vec<MSub>,
    pub pubrec_waiting: VecDeque<u16>,
    /// per subscription (by index in `subs`): acceptance index to resume from, lenient bound
    pub resume: Vec<(usize, usize)>,
}

#[derive(Clone, Debug)]
pub struct MGroup {
    pub name: String,
    pub path: String,
    pub created_at: usize,
    /// (slot, joined_at, left_at)
    pub members: Vec<(usize, usize, Option<usize>)>,
    /// acceptance indices already forwarded to some member
    pub delivered: BTreeMap<usize, usize>,
    pub alive: bool,
    /// retention may have been exceeded on the group's backlog
    pub relaxed: bool,
    /// known region R10: a member left while messages were pending for the group; the
    /// remaining members may stay parked until the next matching publish (acceptance index
    /// of the leave)
    pub stall_from: Option<usize>,
}

#[derive(Clone, Debug)]
pub struct RetainedEntry {
    /// (from acceptance index, value or None=cleared); history so that a window can be queried
    pub history: Vec<(usize, Option<u64>)>,
}

/// What the model predicts the router does with a connection while processing a batch
#[derive(Debug, Default)]
pub struct BatchEffect {
    pub closed: Option<CloseWhy>,
    /// a Disconnect notification with a reason code is owed
    pub disconnect_notice: bool,
    /// the model cannot predict what the broker did (an ack for a forward the client never
    /// drained): the connection becomes tainted
    pub unknown: bool,
}

pub struct Model {
    pub cfg: Cfg,
    pub log: Vec<Msg>,
    pub by_serial: HashMap<u64, usize>,
    pub conns: Vec<MConn>,
    pub sessions: HashMap<String, Session>,
    pub wills: HashMap<String, WillMsg>,
    pub retained: HashMap<String, RetainedEntry>,
    pub retained_uncertain: bool,
    pub groups: Vec<MGroup>,
    /// filters for which the broker holds a log (ever subscribed, stripped of $share prefix)
    pub filter_logs: Vec<String>,
    /// bytes appended per filter log: (filter, Vec<(accept idx, cumulative bytes)>)
    pub filter_bytes: HashMap<String, Vec<(usize, u64)>>,
    pub serial_counter: u64,
    /// will publications that happened: (client id, acceptance index)
    pub wills_fired: Vec<(String, usize)>,
    /// while set, accepted publishes are recorded as optional (`Msg::maybe`)
    pub accept_uncertain: bool,
    pub strict_resub: bool,
}

/// (group identity, topic filter) of a subscription. A shared group is one share name on one
/// topic filter (the same share name with another filter is another group, R14 repaired)
pub fn split_share(filter: &str) -> (Option<String>, String) {
    if let Some(rest) = filter.strip_prefix("$share/") {
        if let Some((g, p)) = rest.split_once('/') {
            return (Some(format!("{g}/{p}")), p.to_string());
        }
    }
    (None, filter.to_string())
}

impl Model {
    pub fn new(cfg: &Cfg) -> Model {
        Model {
            cfg: cfg.clone(),
            log: Vec::new(),
            by_serial: HashMap::new(),
            conns: Vec::new(),
            sessions: HashMap::new(),
            wills: HashMap::new(),
            retained: HashMap::new(),
            retained_uncertain: false,
            groups: Vec::new(),
            filter_logs: Vec::new(),
            filter_bytes: HashMap::new(),
            serial_counter: 0,
            wills_fired: Vec::new(),
            accept_uncertain: false,
            strict_resub: false,
        }
    }

    pub fn next_serial(&mut self) -> u64 {
        self.serial_counter += 1;
        self.serial_counter
    }

    pub fn now(&self) -> usize {
        self.log.len()
    }

    pub fn live_conn_of_client(&self, client_id: &str) -> Option<usize> {
        self.conns
            .iter()
            .find(|c| c.live && c.client_id == client_id)
            .map(|c| c.serial)
    }

    pub fn live_count(&self) -> usize {
        self.conns.iter().filter(|c| c.live).count()
    }

    fn valid_client_id(id: &str) -> bool {
        !id.chars().any(|c| "+$#/".contains(c))
    }

    /// The router processed Event::Connect of `serial`. Returns whether it must be registered.
    pub fn on_connect(&mut self, serial: usize) -> bool {
        let (client_id, clean) = {
            let c = &mut self.conns[serial];
            c.seen = true;
            (c.client_id.clone(), c.clean)
        };
        if !Self::valid_client_id(&client_id) {
            return false;
        }
        // a new connection replaces a live one with the same client id
        if let Some(old) = self.live_conn_of_client(&client_id) {
            self.close(old, CloseWhy::Takeover);
        }
        if self.live_count() >= self.cfg.max_conn {
            return false;
        }
        let saved = self.sessions.remove(&client_id);
        let now = self.now();
        let c = &mut self.conns[serial];
        c.accepted = true;
        c.live = true;
        c.registered_at = now;
        c.session_present = !clean && saved.is_some();
        if !clean {
            if let Some(s) = saved {
                c.subs = s.subs;
                for (i, (pos, lenient)) in s.resume.iter().enumerate() {
                    if let Some(sub) = c.subs.get_mut(i) {
                        sub.start = *pos;
                        sub.lenient_until = (*lenient).max(sub.lenient_until);
                    }
                }
                let pos: Vec<usize> = c.subs.iter().map(|s| s.start).collect();
                c.frontier = vec![FState { pos, attr: Vec::new() }];
                // the broker owes the PUBRELs it had not seen completed
                for id in s.pubrec_waiting.iter() {
                    c.expected_acks.push_back(ExpAck::PubRelResumed(*id));
                }
                c.pubrec_waiting = s.pubrec_waiting;
            }
        }
        if let Some(w) = c.will.clone() {
            self.wills.insert(client_id, w);
        }
        true
    }

    /// Ends a live connection in the model. `resume` positions for a persistent session are
    /// filled in by the caller (it owns the client-side view) through `set_resume`.
    pub fn close(&mut self, serial: usize, why: CloseWhy) {
        let now = self.now();
        let c = &mut self.conns[serial];
        if !c.live {
            return;
        }
        c.live = false;
        c.closed = Some(why);
        c.ended_at = Some(now);
        let slot = c.slot;
        let client_id = c.client_id.clone();
        let clean = c.clean;
        // leave every shared group
        for g in self.groups.iter_mut() {
            let mut left = false;
            for m in g.members.iter_mut() {
                if m.0 == slot && m.2.is_none() {
                    m.2 = Some(now);
                    left = true;
                }
            }
            if left && g.members.iter().all(|m| m.2.is_some()) {
                g.alive = false;
            }
            if left {
                g.stall_from = Some(now);
            }
        }
        if !clean {
            let c = &self.conns[serial];
            let mut subs = Vec::new();
            let mut resume = Vec::new();
            for (i, s) in c.subs.iter().enumerate() {
                if s.end.is_some() {
                    continue;
                }
                // per attribution state: where does delivery restart for this subscription?
                let mut lo = usize::MAX;
                let mut hi = 0usize;
                for st in c.frontier.iter() {
                    let mut pos = st.pos.get(i).copied().unwrap_or(s.start);
                    if s.qos > 0 {
                        for k in c.acked_fwds..c.fwds.len() {
                            if st.attr.get(k).copied() == Some(i as u8) {
                                if let Some(ix) = c.fwds[k].idx {
                                    pos = ix;
                                }
                                break;
                            }
                        }
                    }
                    lo = lo.min(pos);
                    hi = hi.max(pos);
                }
                if lo == usize::MAX {
                    lo = s.start;
                    hi = s.start;
                }
                if c.frontier_overflow {
                    // attribution states were dropped: anything from the subscription's start
                    // may be delivered again, anything before now may have been delivered
                    lo = s.start;
                    hi = now;
                }
                // QoS 0 forwards pushed to the dead connection are gone: anything accepted
                // before now may or may not be delivered again
                let lenient = if s.qos == 0 { now } else { hi };
                let mut s2 = s.clone();
                // a replay that has not provably happened yet may still happen once
                s2.retained_optional = s.retained_due;
                if std::env::var_os("VERIF_TRACE2").is_some() {
                    eprintln!("close serial={serial} sub {:?} i={i} resume lo={lo} hi={hi} acked={} fwds={} states={} attr0={:?} fwd0={:?}", s.filter, c.acked_fwds, c.fwds.len(), c.frontier.len(), c.frontier[0].attr.iter().take(5).collect::<Vec<_>>(), c.fwds.iter().take(3).collect::<Vec<_>>());
                }
                subs.push(s2);
                resume.push((lo, lenient.max(s.lenient_until)));
            }
            self.sessions.insert(
                client_id,
                Session {
                    subs,
                    pubrec_waiting: c.pubrec_waiting.clone(),
                    resume,
                },
            );
        } else {
            self.sessions.remove(&client_id);
        }
    }

    /// Overrides the resume positions of the saved session of `client_id` (computed by the
    /// observer from what was acknowledged)
    pub fn set_resume(&mut self, client_id: &str, resume: Vec<(usize, usize)>) {
        if let Some(s) = self.sessions.get_mut(client_id) {
            s.resume = resume;
        }
    }

    fn ensure_filter_log(&mut self, path: &str) {
        if !self.filter_logs.iter().any(|f| f == path) {
            self.filter_logs.push(path.to_string());
            self.filter_bytes.insert(path.to_string(), Vec::new());
        }
    }

    /// Accepts a publish. Err = the publishing connection must be closed.
    fn accept(&mut self, serial: usize, p: &MPacket) -> Result<(), (&'static str, bool)> {
        let MPacket::Publish {
            serial: pub_serial,
            topic,
            payload,
            retain,
            props,
            ..
        } = p
        else {
            return Ok(());
        };
        if props.as_ref().is_some_and(|p| !p.subscription_identifiers.is_empty()) {
            return Err(("publish_with_subscription_identifier", true));
        }
        let mut topic_bytes = topic.clone();
        if let Some(alias) = props.as_ref().and_then(|p| p.topic_alias) {
            if alias == 0 || alias > TOPIC_ALIAS_MAX {
                return Err(("topic_alias_out_of_range", true));
            }
            if topic_bytes.is_empty() {
                match self.conns[serial].aliases.get(&alias) {
                    Some(t) => topic_bytes = t.clone().into_bytes(),
                    None => return Err(("unknown_topic_alias", true)),
                }
            } else {
                match String::from_utf8(topic_bytes.clone()) {
                    Ok(t) => {
                        self.conns[serial].aliases.insert(alias, t);
                    }
                    Err(_) => return Err(("topic_not_utf8", false)),
                }
            }
        }
        let topic = match String::from_utf8(topic_bytes) {
            Ok(t) => t,
            Err(_) => return Err(("topic_not_utf8", false)),
        };
        let idx = self.log.len();
        // retained store (MQTT 3.3.1.3): only publishes flagged retain touch it
        if *retain {
            let e = self.retained.entry(topic.clone()).or_insert(RetainedEntry { history: vec![] });
            if payload.is_empty() {
                e.history.push((idx, None));
            } else {
                e.history.push((idx, Some(*pub_serial)));
            }
        }
        let mut stored_props = props.clone();
        if let Some(p) = stored_props.as_mut() {
            p.topic_alias = None;
        }
        let size = 4 + topic.len() as u64 + payload.len() as u64;
        for (f, v) in self.filter_bytes.iter_mut() {
            let m = Msg {
                serial: 0,
                topic: topic.clone(),
                payload: vec![],
                retain: false,
                props: None,
                wild_topic: ref_has_wildcards(&topic),
                maybe: false,
            };
            if match3(&m, f) != M3::No {
                let last = v.last().map(|x| x.1).unwrap_or(0);
                v.push((idx, last + size));
            }
        }
        self.by_serial.insert(*pub_serial, idx);
        self.log.push(Msg {
            serial: *pub_serial,
            wild_topic: ref_has_wildcards(&topic),
            topic,
            payload: payload.clone(),
            retain: *retain,
            props: stored_props,
            maybe: self.accept_uncertain,
        });
        if self.accept_uncertain && *retain {
            self.retained_uncertain = true;
        }
        self.mark_retention();
        Ok(())
    }

    /// Bytes appended to the log of `path` by messages with acceptance index in [from, now)
    pub fn backlog_bytes(&self, path: &str, from: usize) -> u64 {
        let Some(v) = self.filter_bytes.get(path) else {
            return 0;
        };
        let total = v.last().map(|x| x.1).unwrap_or(0);
        let before = v
            .iter()
            .take_while(|(i, _)| *i < from)
            .last()
            .map(|x| x.1)
            .unwrap_or(0);
        total - before
    }

    /// Marks every stream whose unread backlog may have outgrown what the log is guaranteed to
    /// keep: for those only the safety clauses (no foreign, no duplicate, order) are asserted
    pub fn mark_retention(&mut self) {
        let guarantee = self.retention_guarantee();
        let mut marks: Vec<(usize, usize)> = Vec::new();
        for c in self.conns.iter().filter(|c| c.live) {
            for (i, sub) in c.subs.iter().enumerate() {
                if sub.end.is_some() || sub.relaxed {
                    continue;
                }
                let mut from = usize::MAX;
                for st in c.frontier.iter() {
                    let mut p = st.pos.get(i).copied().unwrap_or(sub.start);
                    for k in c.acked_fwds..c.fwds.len() {
                        if st.attr.get(k).copied() == Some(i as u8) {
                            if let Some(ix) = c.fwds[k].idx {
                                p = p.min(ix);
                            }
                            break;
                        }
                    }
                    from = from.min(p);
                }
                if from == usize::MAX {
                    from = sub.start;
                }
                if self.backlog_bytes(&sub.path, from) >= guarantee {
                    marks.push((c.serial, i));
                }
            }
        }
        for (s, i) in marks {
            self.conns[s].subs[i].relaxed = true;
        }
        let mut smarks: Vec<(String, usize)> = Vec::new();
        for (id, sess) in self.sessions.iter() {
            for (i, sub) in sess.subs.iter().enumerate() {
                let from = sess.resume.get(i).map(|r| r.0).unwrap_or(sub.start);
                if !sub.relaxed && self.backlog_bytes(&sub.path, from) >= guarantee {
                    smarks.push((id.clone(), i));
                }
            }
        }
        for (id, i) in smarks {
            self.sessions.get_mut(&id).unwrap().subs[i].relaxed = true;
        }
        let mut gmarks = Vec::new();
        for (gi, g) in self.groups.iter().enumerate().filter(|(_, g)| g.alive && !g.relaxed) {
            let mut from = g.created_at;
            while from < self.log.len() && (g.delivered.contains_key(&from) || match3(&self.log[from], &g.path) == M3::No) {
                from += 1;
            }
            if self.backlog_bytes(&g.path, from) >= guarantee {
                gmarks.push(gi);
            }
        }
        for gi in gmarks {
            self.groups[gi].relaxed = true;
        }
    }

    /// Conservative, implementation-independent retention guarantee: an unread backlog of fewer
    /// bytes than this is never evicted
    pub fn retention_guarantee(&self) -> u64 {
        (self.cfg.seg_count.saturating_sub(1) as u64) * self.cfg.seg_size as u64
    }

    /// The router took `packets` from the connection's buffer and processed them in order
    pub fn on_batch(&mut self, serial: usize, packets: Vec<MPacket>) -> BatchEffect {
        let mut eff = BatchEffect::default();
        if !self.conns[serial].live {
            return eff;
        }
        let mut close_after: Option<CloseWhy> = None;
        let mut uncertain = false;
        for p in packets {
            if uncertain {
                // the broker may have stopped at the unpredictable packet or gone on: whatever
                // this client published afterwards is optional, nothing is owed to it
                self.accept_uncertain = true;
                match &p {
                    MPacket::Publish { qos: 2, .. } => self.conns[serial].qos2_recorded.push_back(p.clone()),
                    MPacket::Publish { .. } => {
                        let _ = self.accept(serial, &p);
                    }
                    MPacket::PubRel { .. } => {
                        if let Some(publish) = self.conns[serial].qos2_recorded.pop_front() {
                            let _ = self.accept(serial, &publish);
                        }
                    }
                    MPacket::Subscribe { filters, sub_id, .. } => {
                        for (f, q) in filters {
                            self.subscribe(serial, f, *q, *sub_id);
                        }
                    }
                    MPacket::Disconnect => {
                        let id = self.conns[serial].client_id.clone();
                        if let Some(w) = self.wills.get_mut(&id) {
                            w.maybe = true;
                        }
                    }
                    _ => {}
                }
                self.accept_uncertain = false;
                continue;
            }
            if self.conns[serial].tainted && matches!(p, MPacket::PubAck(_) | MPacket::PubRec(_) | MPacket::PubComp(_)) {
                // an earlier acknowledgement of this connection had an unpredictable outcome:
                // the model no longer knows which forward the broker considers the oldest
                eff.unknown = true;
                uncertain = true;
                continue;
            }
            match &p {
                MPacket::Publish { qos, pkid, .. } => match qos {
                    2 => {
                        let c = &mut self.conns[serial];
                        c.expected_acks.push_back(ExpAck::PubRec(*pkid));
                        c.qos2_recorded.push_back(p.clone());
                    }
                    q => {
                        if *q == 1 {
                            self.conns[serial].expected_acks.push_back(ExpAck::PubAck(*pkid));
                        }
                        if let Err((why, notice)) = self.accept(serial, &p) {
                            eff.closed = Some(CloseWhy::Violation(why));
                            eff.disconnect_notice = notice;
                            break;
                        }
                    }
                },
                MPacket::PubRel { pkid, with_props } => {
                    if *with_props {
                        // MQTT 5: a PUBREL with properties is still a release
                    }
                    let rec = self.conns[serial].qos2_recorded.pop_front();
                    match rec {
                        None => {
                            eff.closed = Some(CloseWhy::Violation("pubrel_without_publish"));
                            break;
                        }
                        Some(publish) => {
                            self.conns[serial].expected_acks.push_back(ExpAck::PubComp(*pkid));
                            if let Err((why, _)) = self.accept(serial, &publish) {
                                eff.closed = Some(CloseWhy::Violation(why));
                                break;
                            }
                        }
                    }
                }
                MPacket::Subscribe { pkid, filters, sub_id } => {
                    let mut codes = Vec::new();
                    for (f, q) in filters {
                        if f.starts_with('$') && !f.starts_with("$share") {
                            close_after = Some(CloseWhy::Violation("dollar_filter"));
                            break;
                        }
                        if *sub_id == Some(0) {
                            close_after = Some(CloseWhy::Violation("subscription_id_zero"));
                            eff.disconnect_notice = true;
                            break;
                        }
                        self.subscribe(serial, f, *q, *sub_id);
                        codes.push(*q);
                    }
                    self.conns[serial].expected_acks.push_back(ExpAck::SubAck(*pkid, codes));
                }
                MPacket::Unsubscribe { pkid, filters } => {
                    let now = self.now();
                    let slot = self.conns[serial].slot;
                    for f in filters {
                        let (group, _) = split_share(f);
                        for s in self.conns[serial].subs.iter_mut() {
                            if s.filter == *f && s.end.is_none() {
                                s.end = Some(now);
                            }
                        }
                        if let Some(g) = group {
                            self.leave_group(&g, slot, now);
                        }
                    }
                    self.conns[serial].expected_acks.push_back(ExpAck::UnsubAck(*pkid));
                }
                MPacket::PubAck(id) | MPacket::PubRec(id) => {
                    // an acknowledgement is solicited iff it names the oldest forward the
                    // broker has not seen acknowledged
                    let is_rec = matches!(p, MPacket::PubRec(_));
                    let c = &mut self.conns[serial];
                    match c.fwds.get(c.acked_fwds) {
                        Some(f) if f.pkid == *id => {
                            c.acked_fwds += 1;
                            if is_rec {
                                c.pubrec_waiting.push_back(*id);
                                c.expected_acks.push_back(ExpAck::PubRel(*id));
                            }
                        }
                        Some(_) => {
                            eff.closed = Some(CloseWhy::Violation("unsolicited_ack"));
                            break;
                        }
                        None => {
                            // nothing the client drained is unacknowledged; the broker may
                            // still hold undrained forwards, so its reaction is not predictable
                            eff.unknown = true;
                            uncertain = true;
                            continue;
                        }
                    }
                }
                MPacket::PubComp(id) => {
                    let c = &mut self.conns[serial];
                    match c.pubrec_waiting.pop_front() {
                        Some(front) if front == *id => {}
                        _ => {
                            eff.closed = Some(CloseWhy::Violation("unsolicited_pubcomp"));
                            break;
                        }
                    }
                }
                MPacket::PingReq => self.conns[serial].expected_acks.push_back(ExpAck::PingResp),
                MPacket::Disconnect => {
                    let id = self.conns[serial].client_id.clone();
                    self.wills.remove(&id);
                    eff.closed = Some(CloseWhy::ClientDisconnect);
                    break;
                }
                MPacket::Ignored => {}
            }
        }
        if eff.closed.is_none() {
            eff.closed = close_after;
        }
        eff
    }

    pub fn leave_group(&mut self, group: &str, slot: usize, now: usize) {
        for g in self.groups.iter_mut().filter(|g| g.alive && g.name == group) {
            for m in g.members.iter_mut() {
                if m.0 == slot && m.2.is_none() {
                    m.2 = Some(now);
                    g.stall_from = Some(now);
                }
            }
            if g.members.iter().all(|m| m.2.is_some()) {
                g.alive = false;
            }
        }
    }

    fn subscribe(&mut self, serial: usize, filter: &str, qos: u8, sub_id: Option<usize>) {
        let now = self.now();
        let (group, path) = split_share(filter);
        self.ensure_filter_log(&path);
        let slot = self.conns[serial].slot;
        let existing = self.conns[serial]
            .subs
            .iter()
            .position(|s| s.filter == filter && s.end.is_none());
        if let Some(i) = existing {
            // repeating a subscription: nothing is replayed; a changed QoS is region R7
            let strict = self.strict_resub;
            let s = &mut self.conns[serial].subs[i];
            if s.qos != qos {
                if strict {
                    // MQTT: the repeated subscription replaces the old one with the new QoS
                    s.old_qos.push((s.qos, now));
                    s.qos = qos;
                } else {
                    s.qos_uncertain = true;
                }
            }
            if sub_id.is_some() {
                s.sub_id = sub_id;
            }
        } else {
            self.conns[serial].subs.push(MSub {
                filter: filter.to_string(),
                path: path.clone(),
                group: group.clone(),
                qos,
                sub_id,
                start: now,
                end: None,
                lenient_until: 0,
                retained_due: group.is_none(),
                retained_optional: false,
                made_at: now,
                relaxed: false,
                qos_uncertain: false,
                old_qos: Vec::new(),
            });
            for st in self.conns[serial].frontier.iter_mut() {
                st.pos.push(now);
            }
        }
        if let Some(g) = group {
            match self.groups.iter_mut().find(|x| x.alive && x.name == g) {
                Some(grp) => {
                    if !grp.members.iter().any(|m| m.0 == slot && m.2.is_none()) {
                        grp.members.push((slot, now, None));
                    }
                }
                None => self.groups.push(MGroup {
                    name: g,
                    path,
                    created_at: now,
                    members: vec![(slot, now, None)],
                    delivered: BTreeMap::new(),
                    alive: true,
                    relaxed: false,
                    stall_from: None,
                }),
            }
        }
    }

    /// Event::PublishWill for a client id
    pub fn on_publish_will(&mut self, client_id: &str) {
        if let Some(w) = self.wills.remove(client_id) {
            let idx = self.log.len();
            let p = MPacket::Publish {
                serial: w.serial,
                topic: w.topic.clone().into_bytes(),
                payload: w.payload.clone(),
                qos: w.qos,
                pkid: 0,
                retain: w.retain,
                props: None,
            };
            // a will is accepted like a publish from nobody: use a scratch connection entry
            let scratch = self.conns.len();
            self.conns.push(MConn::scratch(scratch));
            self.accept_uncertain = w.maybe;
            let _ = self.accept(scratch, &p);
            self.accept_uncertain = false;
            self.conns.pop();
            if self.log.len() > idx {
                self.wills_fired.push((client_id.to_string(), idx));
            }
        }
    }

    /// Retained value of `topic` at acceptance time `at` (None = nothing retained)
    pub fn retained_at(&self, topic: &str, at: usize) -> Option<u64> {
        self.retained
            .get(topic)
            .and_then(|e| e.history.iter().take_while(|(i, _)| *i < at).last().and_then(|x| x.1))
    }

    /// All values `topic` had as retained message at any time in the window [from, to]
    pub fn retained_in_window(&self, topic: &str, from: usize, to: usize) -> Vec<Option<u64>> {
        let mut v = vec![self.retained_at(topic, from)];
        if let Some(e) = self.retained.get(topic) {
            for (i, val) in e.history.iter() {
                if *i >= from && *i < to {
                    v.push(*val);
                }
            }
        }
        v
    }
}

impl MConn {
    pub fn new(serial: usize, slot: usize, client_id: &str, clean: bool, alias_max: u16, will: Option<WillMsg>) -> MConn {
        MConn {
            serial,
            slot,
            client_id: client_id.to_string(),
            clean,
            seen: false,
            accepted: false,
            live: false,
            closed: None,
            session_present: false,
            subs: Vec::new(),
            expected_acks: VecDeque::new(),
            qos2_recorded: VecDeque::new(),
            aliases: HashMap::new(),
            acked_fwds: 0,
            pubrec_waiting: VecDeque::new(),
            alias_max,
            will,
            registered_at: 0,
            ended_at: None,
            tainted: false,
            fwds: Vec::new(),
            frontier: vec![FState { pos: Vec::new(), attr: Vec::new() }],
            frontier_overflow: false,
        }
    }

    fn scratch(serial: usize) -> MConn {
        MConn::new(serial, usize::MAX, "", true, 0, None)
    }
}
