//! A generic E4 campaign: generator configuration + oracle flags + non-triviality rule.

use super::gen::{hist_strategy, GenCfg};
use super::observe::Flags;
use super::run::{run_history, Stats};
use super::types::*;
use crate::engine::*;
use proptest::prelude::*;

pub struct SimCampaign {
    pub name: &'static str,
    pub gen: GenCfg,
    pub flags: Flags,
    pub quick: u64,
    pub thorough: u64,
    /// Some(shape key) when the executed history is non-trivial for the property
    pub nontrivial: fn(&Stats, &Hist) -> Option<String>,
    pub probes: Vec<&'static str>,
    /// optional transformation applied to every generated history (region steering for probes)
    pub shape: Option<fn(Hist) -> Hist>,
}

impl Campaign for SimCampaign {
    type Case = Hist;
    fn name(&self) -> &'static str {
        self.name
    }
    fn cases(&self, tier: Tier) -> u64 {
        tier.pick(self.quick, self.thorough)
    }
    fn strategy(&self, _tier: Tier) -> BoxedStrategy<Hist> {
        match self.shape {
            Some(f) => hist_strategy(&self.gen).prop_map(f).boxed(),
            None => hist_strategy(&self.gen),
        }
    }
    fn check(&self, h: &Hist, obs: &mut Obs) -> Result<(), Failure> {
        // dummy obs so that the classification of a failing run is still recorded
        match run_history(h, &self.flags, obs) {
            Ok(stats) => {
                if let Some(k) = (self.nontrivial)(&stats, h) {
                    obs.nontrivial(k);
                    obs.sample = Some(sample_of(h));
                }
                Ok(())
            }
            Err(f) => Err(f),
        }
    }
    fn probes_known(&self) -> Vec<&'static str> {
        self.probes.clone()
    }
    fn max_shrink_iters(&self, tier: Tier) -> u32 {
        tier.pick(3000, 6000)
    }
}

/// Compact rendering of a history for the evidence file
pub fn sample_of(h: &Hist) -> serde_json::Value {
    let mut ops: Vec<String> = Vec::new();
    let mut i = 0;
    while i < h.ops.len() && ops.len() < 40 {
        // collapse runs of identical publishes (bursts)
        let mut j = i + 1;
        while j < h.ops.len() && matches!((&h.ops[i], &h.ops[j]), (Op::Publish { c: a, topic: t1, qos: q1, .. }, Op::Publish { c: b, topic: t2, qos: q2, .. }) if a == b && t1 == t2 && q1 == q2) {
            j += 1;
        }
        let s = short(&h.ops[i]);
        if j - i > 1 {
            ops.push(format!("{s} x{}", j - i));
        } else {
            ops.push(s);
        }
        i = j;
    }
    serde_json::json!({
        "cfg": h.cfg,
        "clients": h.clients.iter().map(|c| format!("{}{}{}", c.id, if c.v5 {":v5"} else {""}, if c.auto_ack {""} else {":manual-ack"})).collect::<Vec<_>>(),
        "n_ops": h.ops.len(),
        "ops_head": ops,
    })
}

fn short(op: &Op) -> String {
    match op {
        Op::Connect { c, clean, will, alias_max } => format!("connect c{c} clean={clean}{}{}", if will.is_some() { " will" } else { "" }, if *alias_max > 0 { " alias" } else { "" }),
        Op::Subscribe { c, filters, sub_id, .. } => format!("sub c{c} {:?}{}", filters, sub_id.map(|i| format!(" id={i}")).unwrap_or_default()),
        Op::Unsubscribe { c, filters, .. } => format!("unsub c{c} {filters:?}"),
        Op::Publish { c, topic, qos, retain, size, props, dup, .. } => format!("pub c{c} {topic} q{qos}{}{}{} {size}B", if *retain { " retain" } else { "" }, if *dup { " dup" } else { "" }, if props.is_some() { " props" } else { "" }),
        other => format!("{other:?}"),
    }
}
