//! C01 — exact, ordered delivery to matching non-shared subscriptions (DESIGN §5 C01).

use crate::brokersim::campaign::SimCampaign;
use crate::brokersim::gen::GenCfg;
use crate::brokersim::observe::{Avoid, Flags};
use crate::brokersim::run::Stats;
use crate::brokersim::types::*;
use crate::engine::*;
use crate::topic::ref_matches;

pub fn avoid_all() -> Avoid {
    Avoid {
        // R6 was repaired in /repo (broker topic aliases are per topic)
        alias_wildcard: false,
        // R7 was repaired in /repo (a repeated subscription takes the new QoS over)
        resub_qos: false,
        // R8 was repaired in /repo (one UNSUBACK per UNSUBSCRIBE, driven by the connection's own
        // subscription set)
        unsub_shape: false,
        // R9 was repaired in /repo: the region is no longer avoided
        empty_nonretained: false,
        // R11 was repaired in /repo
        unsub_in_group: false,
        // R10 was repaired in /repo (a member parked while it was not its turn is woken when the turn reaches it)
        group_stall: false,
        // R5 was repaired in /repo (connection tokens carry a registration serial)
        recycled_id: false,
        persistent_unsub: true,
    }
}

/// ≥2 subscriptions of one client on overlapping filters and a publish matching both
pub fn has_overlap(h: &Hist) -> bool {
    let n = h.clients.len();
    let mut filters: Vec<Vec<&str>> = vec![Vec::new(); n];
    for op in &h.ops {
        if let Op::Subscribe { c, filters: fs, .. } = op {
            if *c < n {
                for (f, _) in fs {
                    if !filters[*c].contains(&f.as_str()) {
                        filters[*c].push(f);
                    }
                }
            }
        }
    }
    h.ops.iter().any(|op| match op {
        Op::Publish { topic, .. } => filters.iter().any(|fs| fs.iter().filter(|f| ref_matches(topic, f)).count() >= 2),
        _ => false,
    })
}

fn nontrivial(s: &Stats, h: &Hist) -> Option<String> {
    if s.forwards == 0 || !has_overlap(h) {
        return None;
    }
    if !(s.saw_inflight_full || s.saw_busy || s.saw_park_wake) {
        return None;
    }
    Some(format!(
        "inflight_full={} busy={} park_wake={} relaxed={}",
        s.saw_inflight_full, s.saw_busy, s.saw_park_wake, s.relaxed
    ))
}

pub fn main_campaign() -> SimCampaign {
    SimCampaign {
        name: "delivery",
        gen: GenCfg {
            min_clients: 2,
            max_clients: 5,
            max_chunks: 45,
            // clean-session clients also leave (DISCONNECT, link failure) and come back
            w_disconnect: 2,
            w_droplink: 2,
            w_reconnect: 4,
            p_pub_alias: 10,
            // v5 subscribers announce a topic alias maximum (broker -> client aliases)
            p_alias: 20,
            ..GenCfg::default()
        },
        flags: Flags {
            delivery: true,
            avoid: avoid_all(),
            ..Flags::default()
        },
        quick: 20000,
        thorough: 400000,
        nontrivial,
        probes: vec![],
        shape: None,
    }
}

/// R6 (repaired in /repo): broker topic alias (v5 subscriber with topic-alias-maximum > 0) on a
/// wildcard filter: the alias was keyed by filter, so a second topic arrived under the first's
/// alias. Kept as a focused campaign: every subscriber enables aliases, wildcard filters only.
pub fn probe_r6() -> SimCampaign {
    let mut c = main_campaign();
    c.name = "probe_r6_alias_wildcard";
    c.gen.p_alias = 100;
    c.gen.p_v5 = 100;
    c.gen.max_clients = 3;
    c.gen.w_burst = 0;
    c.gen.filters = ["a/+", "a/#", "#", "+/b"].iter().map(|s| s.to_string()).collect();
    c.flags.avoid.alias_wildcard = false;
    c.quick = 3000;
    c.thorough = 60000;
    c.nontrivial = |s, _| if s.forwards > 1 { Some("alias".into()) } else { None };
    c.probes = vec!["delivery:topic_changed", "delivery:unknown_topic_alias"];
    c
}

/// R7 (repaired in /repo): repeating a subscription with another QoS granted the new QoS in the
/// SUBACK while forwards kept the old one. Kept as a focused campaign on repeated subscriptions.
pub fn probe_r7() -> SimCampaign {
    let mut c = main_campaign();
    c.name = "probe_r7_resubscribe_qos";
    c.gen.max_clients = 3;
    c.gen.w_subscribe = 20;
    c.gen.w_burst = 0;
    // one filter only, so that a forward with the stale QoS cannot be taken for a copy owed
    // to another subscription (keeps the probe's failure signature specific)
    c.gen.filters = ["a/#"].iter().map(|s| s.to_string()).collect();
    c.gen.w_unsubscribe = 0;
    c.flags.avoid.resub_qos = false;
    c.flags.strict_resub = true;
    c.quick = 3000;
    c.thorough = 60000;
    c.nontrivial = |s, _| if s.forwards > 0 { Some("resub".into()) } else { None };
    c.probes = vec!["delivery:wrong_qos"];
    c
}

/// One client holding a plain subscription and a shared subscription on the SAME filter with
/// different QoS (they read one log and park on the same waiters): repeated subscriptions of
/// either must not change the other's QoS, and each keeps its own exact stream
pub fn plain_and_shared_campaign() -> SimCampaign {
    let mut c = main_campaign();
    c.name = "plain_and_shared";
    c.gen.max_clients = 3;
    c.gen.w_shared_sub = 6;
    c.gen.w_subscribe = 10;
    c.gen.w_burst = 0;
    c.gen.w_unsubscribe = 0;
    c.gen.p_alias = 0;
    c.gen.p_sub_id = 0;
    c.gen.topics = ["a", "a/b", "b", "b/c"].iter().map(|s| s.to_string()).collect();
    c.gen.filters = ["a/#", "b/#"].iter().map(|s| s.to_string()).collect();
    c.flags.shared = true;
    // plain subscriptions are QoS 1, shared ones QoS 0: the broker forwards with the
    // subscription's QoS, so a forward names the kind of subscription it came through
    c.shape = Some(|mut h: Hist| {
        for op in h.ops.iter_mut() {
            if let Op::Subscribe { filters, .. } = op {
                for (f, q) in filters.iter_mut() {
                    *q = if f.starts_with("$share/") { 0 } else { 1 };
                }
            }
        }
        h
    });
    c.quick = 3000;
    c.thorough = 60000;
    c.nontrivial = |s, _| if s.shared_forwards > 0 && s.forwards > s.shared_forwards { Some("plain+shared".into()) } else { None };
    c
}

pub fn plan(_tier: Tier) -> Plan {
    Plan {
        campaigns: vec![Box::new(main_campaign()), Box::new(plain_and_shared_campaign()), Box::new(probe_r6()), Box::new(probe_r7()), Box::new(crate::fullstack::flow::Flow)],
        enumerators: vec![],
        rule: "Histories of connect/disconnect/link-failure/reconnect (clean sessions)/subscribe/unsubscribe/publish(QoS0-2, bursts up to 260)/release/ack/drain/turn/settle ops by 2-5 well-behaved clients against the real router stepped turn by turn, over generated router configurations (segment size/count, outgoing batch size). Non-trivial: a client holds >=2 subscriptions on overlapping filters, a publish matches >=2 of them, at least one forward was observed and at least one of {inflight-full pause, busy/Unschedule pause, park-then-wake} occurred; distinct by hash of the whole history. Campaign plain_and_shared: one client holds a plain (QoS 1) and a shared (QoS 0) subscription on the same filter and repeats either; each keeps its own exact stream and QoS. The delivery clauses are also decided end to end through the real link code by the campaign shared with C09 — ".to_string() + crate::fullstack::flow::FLOW_RULE,
        assumptions: vec![
            "The router is single-threaded; links interact with it only through the event channel and two mutex-protected buffers, so every real schedule is a partition of the event sequence into turns plus drain points — which is what the generator draws".into(),
            "Completeness is asserted only for streams whose unread backlog stayed below (segment_count-1)*segment_size bytes (retention-relaxed streams keep the safety clauses)".into(),
            "Known-finding regions R6 (broker topic alias with wildcard filter), R7 (re-subscribe with another QoS) and R8 (UNSUBSCRIBE shapes) were repaired in /repo and are generated everywhere".into(),
        ],
        min_nontrivial: 20,
    }
}
