//! C01 — exact, ordered delivery to matching non-shared subscriptions (DESIGN §5 C01).

use crate::brokersim::campaign::SimCampaign;
use crate::brokersim::gen::GenCfg;
use crate::brokersim::observe::{Avoid, Flags};
use crate::brokersim::run::Stats;
use crate::brokersim::types::*;
use crate::engine::*;
use crate::topic::ref_matches;

pub fn avoid_all() -> Avoid {
    Avoid {
        alias_wildcard: true,
        resub_qos: true,
        unsub_shape: true,
        empty_nonretained: true,
        unsub_in_group: true,
        group_stall: true,
    }
}

/// ≥2 subscriptions of one client on overlapping filters and a publish matching both
pub fn has_overlap(h: &Hist) -> bool {
    let n = h.clients.len();
    let mut filters: Vec<Vec<&str>> = vec![Vec::new(); n];
    for op in &h.ops {
        if let Op::Subscribe { c, filters: fs, .. } = op {
            if *c < n {
                for (f, _) in fs {
                    if !filters[*c].contains(&f.as_str()) {
                        filters[*c].push(f);
                    }
                }
            }
        }
    }
    h.ops.iter().any(|op| match op {
        Op::Publish { topic, .. } => filters.iter().any(|fs| fs.iter().filter(|f| ref_matches(topic, f)).count() >= 2),
        _ => false,
    })
}

fn nontrivial(s: &Stats, h: &Hist) -> Option<String> {
    if s.forwards == 0 || !has_overlap(h) {
        return None;
    }
    if !(s.saw_inflight_full || s.saw_busy || s.saw_park_wake) {
        return None;
    }
    Some(format!(
        "inflight_full={} busy={} park_wake={} relaxed={}",
        s.saw_inflight_full, s.saw_busy, s.saw_park_wake, s.relaxed
    ))
}

pub fn main_campaign() -> SimCampaign {
    SimCampaign {
        name: "delivery",
        gen: GenCfg {
            min_clients: 2,
            max_clients: 5,
            max_chunks: 45,
            ..GenCfg::default()
        },
        flags: Flags {
            delivery: true,
            avoid: avoid_all(),
            ..Flags::default()
        },
        quick: 6000,
        thorough: 20_000,
        nontrivial,
        probes: vec![],
        shape: None,
    }
}

pub fn plan(_tier: Tier) -> Plan {
    Plan {
        campaigns: vec![Box::new(main_campaign())],
        enumerators: vec![],
        rule: "Histories of connect/subscribe/unsubscribe/publish(QoS0-2, bursts up to 260)/release/ack/drain/turn/settle ops by 2-5 well-behaved clients against the real router stepped turn by turn, over generated router configurations (segment size/count, outgoing batch size). Non-trivial: a client holds >=2 subscriptions on overlapping filters, a publish matches >=2 of them, at least one forward was observed and at least one of {inflight-full pause, busy/Unschedule pause, park-then-wake} occurred; distinct by hash of the whole history.".into(),
        assumptions: vec![
            "The router is single-threaded; links interact with it only through the event channel and two mutex-protected buffers, so every real schedule is a partition of the event sequence into turns plus drain points — which is what the generator draws".into(),
            "Completeness is asserted only for streams whose unread backlog stayed below (segment_count-1)*segment_size bytes (retention-relaxed streams keep the safety clauses)".into(),
            "Known-finding regions R6 (broker topic alias with wildcard filter), R7 (re-subscribe with another QoS), R8 (UNSUBSCRIBE shapes), R9 (non-retained empty payload) are excluded by construction and probed elsewhere".into(),
        ],
        min_nontrivial: 20,
    }
}
