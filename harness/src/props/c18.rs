//! C18 — client keep-alive: pings on time, detects a silent broker, no false alarms; connection
//! timeout (DESIGN §5 C18). Engine E7 (event loop over an in-memory transport, virtual time).
//!
//! Reading of the statement used by the oracle (K = keep-alive, all times virtual, exact):
//!  * cadence: with T0 the instant the CONNACK was written and p1 < p2 < ... the instants the
//!    broker decoded a PINGREQ on that connection, p1 - T0 <= K and p(i+1) - p(i) <= K, and the
//!    connection does not stay up for more than K after the last PINGREQ without another one;
//!  * silent broker: PINGREQ number j (sent at T) and all later ones are never answered. The
//!    first interval after the broker stopped answering ends at T + K, the second at T + 2K:
//!    `poll()` must have returned an error by T + 2K (the code does so at T + K, with
//!    `StateError::AwaitPingResp`), and, because until T + K the broker can still answer
//!    "within the interval", not before T + K;
//!  * no false alarm: while every PINGRESP is written < K after its PINGREQ, `poll()` never
//!    returns an error (the scripts contain no other fault), whatever the other traffic;
//!  * K = 0: no PINGREQ and no error in 10 000 virtual seconds;
//!  * handshake that does not complete (connector never resolves / CONNECT never answered /
//!    partial CONNACK): `poll()` returns the timeout error exactly `connection_timeout` after
//!    the attempt started; a CONNACK arriving before the timeout is not reported as a timeout.

use crate::clientloop::run::{render, run_case};
use crate::clientloop::*;
use crate::engine::*;
use crate::{ensure, fail};
use proptest::prelude::*;
use serde::{Deserialize, Serialize};
use serde_json::json;

#[derive(Clone, Debug, PartialEq, Eq, Serialize, Deserialize)]
pub enum Handshake {
    /// CONNACK after `delay_ms` (< connection timeout)
    Completes { delay_ms: u32 },
    NoAnswer { partial: u8 },
    NeverResolve,
}

#[derive(Clone, Debug, PartialEq, Eq, Serialize, Deserialize)]
pub struct KaCase {
    pub seed: u64,
    pub v5: bool,
    /// effective keep-alive in seconds (0 = disabled)
    pub k_s: u16,
    /// v5: the keep-alive comes from the CONNACK's server-keep-alive (mandatory for k_s < 5,
    /// which the v5 options reject); the options then carry `k_s + 5`
    pub via_server: bool,
    /// PINGRESP delay for the i-th PINGREQ, each < k_s * 1000
    pub ping_delays_ms: Vec<u32>,
    /// PINGREQ number j (0-based) of the first connection and all later ones are never answered
    pub silent_from: Option<u32>,
    /// user publishes (instant, qos 0/1)
    pub user_pubs: Vec<(u32, u8)>,
    /// broker publishes (ms after CONNACK, qos 0/1)
    pub broker_pubs: Vec<(u32, u8)>,
    pub handshake: Handshake,
    pub conn_timeout_s: u16,
    pub yield_between: bool,
}

impl KaCase {
    pub fn k_ms(&self) -> u64 {
        self.k_s as u64 * 1000
    }

    /// number of pings the script is about
    fn planned_pings(&self) -> u64 {
        match self.silent_from {
            Some(j) => j as u64 + 1,
            None => self.ping_delays_ms.len() as u64 + 1,
        }
    }

    pub fn horizon_ms(&self) -> u64 {
        if self.k_s == 0 {
            return 10_000_000;
        }
        let hs = match self.handshake {
            Handshake::Completes { delay_ms } => delay_ms as u64,
            _ => self.conn_timeout_s as u64 * 1000,
        };
        hs + (self.planned_pings() + 4) * self.k_ms() + 500
    }

    pub fn to_case(&self) -> Case {
        let server_ka = if self.v5 && self.via_server { Some(self.k_s) } else { None };
        let connect0 = match self.handshake {
            Handshake::Completes { delay_ms } => {
                ConnectB::Accept { session_present: false, delay_ms, receive_max: None, server_keep_alive: server_ka }
            }
            Handshake::NoAnswer { partial } => ConnectB::NoAnswer { partial },
            Handshake::NeverResolve => ConnectB::NeverResolve,
        };
        let mut pushes: Vec<Push> = Vec::new();
        for (i, (at, qos)) in self.broker_pubs.iter().enumerate() {
            pushes.push(Push { at_ms: *at, pkts: vec![BPkt::Publish { qos: *qos, pkid: 100 + i as u16 }] });
        }
        let script = |connect: ConnectB, first: bool| ConnScript {
            connect,
            acks: AckPolicy::in_order(),
            ping: if first {
                PingPolicy { delays_ms: self.ping_delays_ms.clone(), silent_from: self.silent_from }
            } else {
                PingPolicy::prompt()
            },
            pushes: if first { pushes.clone() } else { vec![] },
            fault: None,
            close_at_ms: None,
            auto_pubrel: true,
        };
        // the ping script belongs to the first connection that gets established
        let mut conns = Vec::new();
        match self.handshake {
            Handshake::Completes { .. } => conns.push(script(connect0, true)),
            _ => {
                conns.push(script(connect0, false));
                conns.push(script(
                    ConnectB::Accept { session_present: false, delay_ms: 0, receive_max: None, server_keep_alive: server_ka },
                    true,
                ));
            }
        }
        // every later connection: well behaved, same keep-alive source
        for _ in 0..3 {
            conns.push(script(
                ConnectB::Accept { session_present: false, delay_ms: 0, receive_max: None, server_keep_alive: server_ka },
                false,
            ));
        }
        let horizon = self.horizon_ms();
        Case {
            seed: self.seed,
            v5: self.v5,
            keep_alive_s: if self.v5 && self.via_server { self.k_s + 5 } else { self.k_s },
            inflight: 10,
            cap: 16,
            conn_timeout_s: self.conn_timeout_s,
            throttle_ms: 0,
            repoll_delay_ms: 0,
            yield_between: self.yield_between,
            conns,
            tail_session: false,
            user: self.user_pubs.iter().map(|(at, q)| UserOp { at_ms: *at, kind: UserKind::Publish { qos: *q } }).collect(),
            drain_at_ms: u32::MAX,
            horizon_ms: horizon.min(u32::MAX as u64 - 1) as u32,
            snapshots: false,
            avoid_k2: false,
            avoid_ack_mismatch: false,
        }
    }
}

/// What the oracle extracted (for classification)
#[derive(Default)]
pub struct KaFacts {
    pub pings: usize,
    pub late_reply: bool,
    pub silent_detected: bool,
    pub timeout_seen: bool,
    pub connections: usize,
}

pub fn check_ka(kc: &KaCase, facts: &mut KaFacts) -> Result<(), Failure> {
    let case = kc.to_case();
    let out = run_case(&case)?;
    let log = &out.log;
    if kc.k_s == 0 {
        // (announcements count as well: a client that spins without ever yielding never lets
        // the scripted broker run)
        let pings = log
            .iter()
            .filter(|e| matches!(e.rec, Rec::Rx { pkt: Pkt::PingReq, .. } | Rec::Poll { res: Ok(Ev::Out(Out::PingReq)), .. }))
            .count();
        ensure!(
            pings == 0,
            format!("ping_with_keepalive_zero:{}", if kc.v5 { "v5" } else { "v4" }),
            "keep-alive 0 but {pings} PINGREQ seen ({} polls){}",
            out.polls,
            render(&log[..log.len().min(14)].to_vec(), 14)
        );
    }
    ensure!(
        !out.poll_budget_exhausted,
        "client_spins_without_time_passing",
        "{} polls returned before the virtual horizon {} ms{}",
        out.polls,
        case.horizon_ms,
        render(log, 30)
    );
    let k = kc.k_ms();
    let horizon = case.horizon_ms as u64;
    let v = if kc.v5 { "v5" } else { "v4" };

    // ---- handshake clause: first attempt
    let t_attempt0 = log.iter().find(|e| matches!(e.rec, Rec::ConnAttempt { conn: 0 })).map(|e| e.t);
    ensure!(t_attempt0 == Some(0), "harness:no_connection_attempt", "first poll did not call the connector{}", render(log, 10));
    let first_err = log.iter().find_map(|e| match &e.rec {
        Rec::Poll { res: Err(k), .. } => Some((e.t, k.clone())),
        _ => None,
    });
    let timeout_ms = kc.conn_timeout_s as u64 * 1000;
    let mut errors_allowed_until = 0u64; // errors at or before this instant are accounted for
    match kc.handshake {
        Handshake::Completes { .. } => {}
        _ => {
            facts.timeout_seen = true;
            match &first_err {
                None => fail!(
                    format!("handshake_timeout_never_reported:{v}"),
                    "handshake never completes, connection_timeout = {} s, no error in {} ms{}",
                    kc.conn_timeout_s,
                    horizon,
                    render(log, 10)
                ),
                Some((t, e)) => {
                    ensure!(
                        *e == ErrK::ConnectTimeout,
                        format!("handshake_timeout_wrong_error:{v}:{}", e.kind()),
                        "expected the timeout error, got {e:?} at {t} ms"
                    );
                    ensure!(
                        *t >= timeout_ms,
                        format!("handshake_timeout_early:{v}"),
                        "timeout reported at {t} ms, configured {timeout_ms} ms"
                    );
                    ensure!(
                        *t <= timeout_ms,
                        format!("handshake_timeout_late:{v}"),
                        "timeout reported at {t} ms, configured {timeout_ms} ms"
                    );
                    errors_allowed_until = *t;
                }
            }
        }
    }

    // ---- per connection: establishment, ping instants, end
    struct ConnObs {
        conn: usize,
        t0: u64,
        pings: Vec<u64>,
        resp_delays: Vec<Option<u64>>,
        end: Option<(u64, ErrK)>,
    }
    let mut conns: Vec<ConnObs> = Vec::new();
    for e in log.iter() {
        match &e.rec {
            Rec::Tx { conn, pkt: Pkt::ConnAck { code: 0, .. }, .. } => {
                conns.push(ConnObs { conn: *conn, t0: e.t, pings: vec![], resp_delays: vec![], end: None })
            }
            Rec::Rx { conn, pkt: Pkt::PingReq, .. } => {
                let Some(c) = conns.last_mut().filter(|c| c.conn == *conn) else {
                    fail!(format!("pingreq_before_connack:{v}"), "PINGREQ on connection {conn} before its CONNACK{}", render(log, 10));
                };
                c.pings.push(e.t);
                c.resp_delays.push(None);
            }
            Rec::Tx { conn, pkt: Pkt::PingResp, .. } => {
                if let Some(c) = conns.last_mut().filter(|c| c.conn == *conn) {
                    if let Some(i) = c.resp_delays.iter().position(|d| d.is_none()) {
                        c.resp_delays[i] = Some(e.t - c.pings[i]);
                    }
                }
            }
            Rec::Poll { res: Err(k), .. } => {
                if let Some(c) = conns.last_mut() {
                    if c.end.is_none() && e.t >= c.t0 {
                        c.end = Some((e.t, k.clone()));
                    }
                }
            }
            _ => {}
        }
    }
    facts.connections = conns.len();
    facts.pings = conns.iter().map(|c| c.pings.len()).sum();

    if let Handshake::Completes { delay_ms } = kc.handshake {
        ensure!(
            conns.first().is_some_and(|c| c.conn == 0 && c.t0 == delay_ms as u64),
            "harness:connack_not_written",
            "CONNACK expected at {delay_ms} ms{}",
            render(log, 10)
        );
        // the client saw the CONNACK at that very instant and did not report a timeout
        let seen = log.iter().find_map(|e| match &e.rec {
            Rec::Poll { res: Ok(Ev::In(Pkt::ConnAck { .. })), .. } => Some(e.t),
            _ => None,
        });
        ensure!(
            seen == Some(delay_ms as u64),
            format!("handshake_in_time_not_accepted:{v}"),
            "CONNACK written at {delay_ms} ms (timeout {timeout_ms} ms), poll() returned it at {seen:?}; first error {first_err:?}"
        );
    }

    // ---- K = 0: never pings, never fails
    if k == 0 {
        ensure!(
            facts.pings == 0,
            format!("ping_with_keepalive_zero:{v}"),
            "keep-alive 0 but {} PINGREQ seen{}",
            facts.pings,
            render(log, 12)
        );
        if let Some((t, e)) = log.iter().find_map(|e| match &e.rec {
            Rec::Poll { res: Err(k), .. } if e.t > errors_allowed_until => Some((e.t, k.clone())),
            _ => None,
        }) {
            fail!(format!("unexpected_error:{v}:{}", e.kind()), "keep-alive 0, error {e:?} at {t} ms{}", render(log, 12));
        }
        return Ok(());
    }

    // ---- cadence, detection, false alarms
    let mut silent_deadline: Option<(u64, u64)> = None; // (T, conn index in conns)
    for (ci, c) in conns.iter().enumerate() {
        let mut prev = c.t0;
        for (i, p) in c.pings.iter().enumerate() {
            ensure!(
                p - prev <= k,
                format!("ping_late:{v}"),
                "connection {}: PINGREQ #{i} at {p} ms, previous reference {prev} ms, keep-alive {k} ms{}",
                c.conn,
                render(log, 14)
            );
            prev = *p;
        }
        let end_t = c.end.as_ref().map(|e| e.0).unwrap_or(horizon);
        ensure!(
            end_t - prev <= k,
            format!("ping_missing:{v}"),
            "connection {} stayed up from {prev} ms to {end_t} ms (keep-alive {k} ms) without a PINGREQ{}",
            c.conn,
            render(log, 14)
        );
        // which ping (if any) was the first one never answered
        let first_unanswered = c.resp_delays.iter().position(|d| d.is_none());
        let scripted_silent = ci == 0 && kc.silent_from.is_some();
        for d in c.resp_delays.iter().flatten() {
            if *d * 10 >= k * 9 {
                facts.late_reply = true;
            }
        }
        match (&c.end, scripted_silent) {
            (None, false) => {}
            (None, true) => {
                if let Some(j) = first_unanswered {
                    let t = c.pings[j];
                    ensure!(
                        t + 2 * k > horizon,
                        format!("silent_broker_not_detected:{v}"),
                        "PINGREQ #{j} at {t} ms was never answered, no error by {horizon} ms (keep-alive {k} ms){}",
                        render(log, 14)
                    );
                }
            }
            (Some((te, e)), true) => {
                let j = kc.silent_from.unwrap() as usize;
                let Some(t) = c.pings.get(j).copied() else {
                    fail!(
                        format!("false_alarm:{v}:{}", e.kind()),
                        "error {e:?} at {te} ms before the broker stopped answering (ping #{j} not sent yet){}",
                        render(log, 14)
                    );
                };
                ensure!(
                    *te >= t + k,
                    format!("false_alarm:{v}:{}", e.kind()),
                    "error {e:?} at {te} ms; the first unanswered PINGREQ was sent at {t} ms, its interval ends at {} ms{}",
                    t + k,
                    render(log, 14)
                );
                ensure!(
                    *te <= t + 2 * k,
                    format!("silent_broker_detected_late:{v}"),
                    "first unanswered PINGREQ at {t} ms, error {e:?} only at {te} ms (> T + 2K = {}){}",
                    t + 2 * k,
                    render(log, 14)
                );
                ensure!(
                    *e == ErrK::AwaitPingResp,
                    format!("silent_broker_wrong_error:{v}:{}", e.kind()),
                    "expected AwaitPingResp, got {e:?} at {te} ms"
                );
                facts.silent_detected = true;
                silent_deadline = Some((t, ci as u64));
            }
            (Some((te, e)), false) => {
                let sig = if *e == ErrK::AwaitPingResp || *e == ErrK::CollisionTimeout {
                    format!("false_alarm:{v}:{}", e.kind())
                } else {
                    format!("unexpected_error:{v}:{}", e.kind())
                };
                fail!(
                    sig,
                    "connection {}: every PINGRESP was written < {k} ms after its PINGREQ (delays {:?}), yet poll() returned {e:?} at {te} ms{}",
                    c.conn,
                    c.resp_delays,
                    render(log, 16)
                );
            }
        }
    }
    let _ = silent_deadline;
    // after a detected failure the client must come back (next connection established)
    if facts.silent_detected {
        ensure!(
            conns.len() >= 2,
            format!("no_reconnect_after_keepalive_failure:{v}"),
            "keep-alive failure reported but no further connection was established{}",
            render(log, 10)
        );
    }
    // the planned number of pings was reached (the script is not vacuous)
    ensure!(
        conns.first().map_or(0, |c| c.pings.len()) as u64 >= kc.planned_pings().min(1),
        format!("ping_missing:{v}"),
        "no PINGREQ at all on the first connection{}",
        render(log, 10)
    );
    Ok(())
}

fn classify(kc: &KaCase, f: &KaFacts, obs: &mut Obs) {
    obs.class(if kc.v5 { "v5" } else { "v4" });
    obs.class(match kc.k_s {
        0 => "K=0",
        1 => "K=1",
        2 => "K=2",
        5 => "K=5",
        _ => "K=30",
    });
    obs.class_if(kc.via_server, "keepalive_from_connack");
    obs.class(match (kc.user_pubs.is_empty(), kc.broker_pubs.is_empty()) {
        (true, true) => "traffic:none",
        (false, true) => "traffic:user_only",
        (true, false) => "traffic:broker_only",
        (false, false) => "traffic:both",
    });
    obs.class_if(f.late_reply, "reply_in_last_10_percent");
    obs.class_if(f.silent_detected, "silent_broker_detected");
    obs.class_if(f.timeout_seen, "handshake_timeout");
    obs.class_if(matches!(kc.handshake, Handshake::Completes { delay_ms } if delay_ms > 0), "slow_handshake");
    obs.count("pingreqs", f.pings as u64);
    if (f.pings >= 2 && f.late_reply) || f.silent_detected {
        obs.nontrivial(format!(
            "{} K={} late={} silent={} traffic={}",
            if kc.v5 { "v5" } else { "v4" },
            kc.k_s,
            f.late_reply,
            f.silent_detected,
            !(kc.user_pubs.is_empty() && kc.broker_pubs.is_empty())
        ));
        obs.sample = Some(json!({"k_s": kc.k_s, "v5": kc.v5, "ping_delays_ms": kc.ping_delays_ms, "silent_from": kc.silent_from,
            "user_pubs": kc.user_pubs.len(), "broker_pubs": kc.broker_pubs.len(), "handshake": kc.handshake}));
    }
}

// ------------------------------------------------------------------------------------------
// generators

fn delay_strategy(k_ms: u32) -> BoxedStrategy<u32> {
    prop_oneof![
        2 => Just(0u32),
        2 => Just(k_ms - 1),
        3 => (k_ms - k_ms / 10)..k_ms,
        3 => 0..k_ms,
    ]
    .boxed()
}

fn traffic(horizon_ms: u32) -> BoxedStrategy<Vec<(u32, u8)>> {
    prop_oneof![
        2 => Just(vec![]),
        3 => prop::collection::vec((0..horizon_ms, 0u8..2), 1..8),
    ]
    .boxed()
}

fn ka_strategy(k_choices: Vec<u16>, allow_handshake: bool) -> BoxedStrategy<KaCase> {
    (prop::sample::select(k_choices), any::<bool>(), any::<bool>())
        .prop_flat_map(move |(k_s, v5, via)| {
            let k_ms = k_s as u32 * 1000;
            let via_server = v5 && (k_s < 5 || via);
            let handshake = if allow_handshake {
                prop_oneof![
                    6 => Just(Handshake::Completes { delay_ms: 0 }),
                    1 => (1u32..1000).prop_map(|d| Handshake::Completes { delay_ms: d }),
                ]
                .boxed()
            } else {
                Just(Handshake::Completes { delay_ms: 0 }).boxed()
            };
            (
                any::<u64>(),
                prop::collection::vec(delay_strategy(k_ms), 1..6),
                prop_oneof![3 => Just(None), 2 => (0u32..4).prop_map(Some)],
                handshake,
                any::<bool>(),
            )
                .prop_flat_map(move |(seed, delays, silent_from, handshake, yield_between)| {
                    let n = match silent_from {
                        Some(j) => j + 1,
                        None => delays.len() as u32 + 1,
                    };
                    let span = (n + 2) * k_ms;
                    (traffic(span), traffic(span)).prop_map(move |(user_pubs, broker_pubs)| KaCase {
                        seed,
                        v5,
                        k_s,
                        via_server,
                        ping_delays_ms: delays.clone(),
                        silent_from,
                        user_pubs,
                        broker_pubs,
                        handshake: handshake.clone(),
                        conn_timeout_s: 5,
                        yield_between,
                    })
                })
        })
        .boxed()
}

pub struct KeepAlive;

impl Campaign for KeepAlive {
    type Case = KaCase;
    fn name(&self) -> &'static str {
        "keepalive"
    }
    fn cases(&self, tier: Tier) -> u64 {
        tier.pick(20_000, 600_000)
    }
    fn strategy(&self, _tier: Tier) -> BoxedStrategy<KaCase> {
        ka_strategy(vec![1, 1, 2, 2, 5, 30], true)
    }
    fn check(&self, kc: &KaCase, obs: &mut Obs) -> Result<(), Failure> {
        let mut f = KaFacts::default();
        let r = check_ka(kc, &mut f);
        classify(kc, &f, obs);
        r
    }
}

/// K = 0 with traffic in both directions: v4 through the options; v5 through the CONNACK's
/// server-keep-alive (the v5 options reject 0)
pub struct KeepAliveZero;

impl Campaign for KeepAliveZero {
    type Case = KaCase;
    fn name(&self) -> &'static str {
        "keepalive_zero"
    }
    fn cases(&self, tier: Tier) -> u64 {
        tier.pick(1_000, 30_000)
    }
    fn strategy(&self, _tier: Tier) -> BoxedStrategy<KaCase> {
        (any::<u64>(), any::<bool>(), traffic(10_000_000), traffic(10_000_000), any::<bool>())
            .prop_map(|(seed, v5, user_pubs, broker_pubs, yield_between)| KaCase {
                seed,
                v5,
                k_s: 0,
                via_server: v5,
                ping_delays_ms: vec![],
                silent_from: None,
                user_pubs,
                broker_pubs,
                handshake: Handshake::Completes { delay_ms: 0 },
                conn_timeout_s: 5,
                yield_between,
            })
            .boxed()
    }
    fn check(&self, kc: &KaCase, obs: &mut Obs) -> Result<(), Failure> {
        let mut f = KaFacts::default();
        let r = check_ka(kc, &mut f);
        classify(kc, &f, obs);
        r
    }
}

/// Handshakes that never complete, with generated connection timeouts
pub struct HandshakeTimeout;

impl Campaign for HandshakeTimeout {
    type Case = KaCase;
    fn name(&self) -> &'static str {
        "handshake_timeout"
    }
    fn cases(&self, tier: Tier) -> u64 {
        tier.pick(4_000, 120_000)
    }
    fn strategy(&self, _tier: Tier) -> BoxedStrategy<KaCase> {
        (
            any::<u64>(),
            any::<bool>(),
            prop::sample::select(vec![1u16, 2, 5, 30]),
            prop::sample::select(vec![1u16, 2, 3, 5, 10, 60]),
            0u8..6,
            any::<bool>(),
        )
            .prop_flat_map(|(seed, v5, k_s, conn_timeout_s, hs, yield_between)| {
                let t_ms = conn_timeout_s as u32 * 1000;
                let handshake = match hs {
                    0 => Just(Handshake::NeverResolve).boxed(),
                    1 | 2 => (0u8..4).prop_map(|partial| Handshake::NoAnswer { partial }).boxed(),
                    // completes just in time / at a generated instant before the timeout
                    3 => Just(Handshake::Completes { delay_ms: t_ms - 1 }).boxed(),
                    _ => (0..t_ms).prop_map(|d| Handshake::Completes { delay_ms: d }).boxed(),
                };
                (handshake, traffic(3 * k_s as u32 * 1000)).prop_map(move |(handshake, user_pubs)| KaCase {
                    seed,
                    v5,
                    k_s,
                    via_server: v5 && k_s < 5,
                    ping_delays_ms: vec![0],
                    silent_from: None,
                    user_pubs,
                    broker_pubs: vec![],
                    handshake,
                    conn_timeout_s,
                    yield_between,
                })
            })
            .boxed()
    }
    fn check(&self, kc: &KaCase, obs: &mut Obs) -> Result<(), Failure> {
        let mut f = KaFacts::default();
        let r = check_ka(kc, &mut f);
        classify(kc, &f, obs);
        if f.timeout_seen && f.pings >= 1 {
            obs.nontrivial(format!("{} timeout={} hs={:?}", if kc.v5 { "v5" } else { "v4" }, kc.conn_timeout_s, std::mem::discriminant(&kc.handshake)));
        }
        r
    }
}

/// Exhaustive: K in {1, 2} x protocol x PINGRESP delays (d1, d2) on the 100 ms grid (plus
/// K*1000 - 1) x broker silent from the third ping on x two select!-orders
fn enumerate_phases(rep: &mut Report) {
    let mut n = 0u64;
    for k_s in [1u16, 2] {
        let k_ms = k_s as u32 * 1000;
        let mut grid: Vec<u32> = (0..k_ms).step_by(100).collect();
        grid.push(k_ms - 1);
        for v5 in [false, true] {
            for &d1 in &grid {
                for &d2 in &grid {
                    for seed in [1u64, 2] {
                        let kc = KaCase {
                            seed,
                            v5,
                            k_s,
                            via_server: v5,
                            ping_delays_ms: vec![d1, d2],
                            silent_from: Some(2),
                            user_pubs: vec![],
                            broker_pubs: vec![],
                            handshake: Handshake::Completes { delay_ms: 0 },
                            conn_timeout_s: 5,
                            yield_between: seed == 2,
                        };
                        let mut f = KaFacts::default();
                        let r = guard("harness", || check_ka(&kc, &mut f));
                        let r = match r {
                            Ok(r) => r,
                            Err(f) => Err(f),
                        };
                        n += 1;
                        rep.evaluations += 1;
                        if f.silent_detected {
                            rep.enumerated_nontrivial += 1;
                        }
                        *rep.classes.entry(format!("enum:{}:K={}", if v5 { "v5" } else { "v4" }, k_s)).or_insert(0) += 1;
                        if let Err(fl) = r {
                            if !rep.violations.iter().any(|v| v.failure.signature == fl.signature) {
                                rep.violations.push(FoundViolation {
                                    campaign: "keepalive".into(),
                                    failure: fl,
                                    case: serde_json::to_value(&kc).unwrap(),
                                    shrunk: false,
                                });
                            }
                        }
                        tick();
                    }
                }
            }
        }
    }
    rep.exhaustive_subdomains.push(format!(
        "{n} scripts: keep-alive K in {{1,2}} s x {{v4, v5 (server keep-alive)}} x PINGRESP delays (d1,d2) for the first two pings on the 100 ms grid [0,K) plus K*1000-1 x broker silent from the third ping x 2 select orders"
    ));
}

pub fn plan(_tier: Tier) -> Plan {
    Plan {
        campaigns: vec![Box::new(KeepAlive), Box::new(KeepAliveZero), Box::new(HandshakeTimeout)],
        enumerators: vec![Box::new(enumerate_phases)],
        rule: "Each case is a script for rumqttc's EventLoop (v4 or v5) polled continuously over an in-memory transport under tokio's paused clock (exact virtual timestamps, seeded select! order): keep-alive K in {1,2,5,30} s (v5: 5/30 through the options, any K through the CONNACK's server-keep-alive, which is the only way to get K<5), per-ping PINGRESP delay in [0,K) at ms granularity biased to 0, K-1ms and the last 10 %, or broker silent from ping #j on; user publishes (QoS 0/1) and broker publishes (QoS 0/1) at generated instants (none / user only / broker only / both); K=0 (v4 through the options, v5 through a CONNACK server-keep-alive of 0) over 10 000 virtual seconds; handshakes that never complete (connector never resolves, CONNECT unanswered, 0-3 bytes of a CONNACK) or complete at a generated instant before a generated connection_timeout in {1,2,3,5,10,60} s. Oracle over the wire timestamps: gaps CONNACK->PINGREQ->PINGREQ->(end of connection) <= K; silent from the ping sent at T => poll() returns AwaitPingResp within [T+K, T+2K]; all PINGRESP < K => no error at all; K=0 => no PINGREQ; incomplete handshake => timeout error exactly at connection_timeout, in-time CONNACK accepted. Enumerated: all (d1,d2) phase pairs on the 100 ms grid for K in {1,2}. Non-trivial: >=2 PINGREQs with a PINGRESP landing in the last 10 % of the interval, or a silent-broker detection (handshake campaign: a timeout followed by an established, pinging connection).".into(),
        assumptions: vec![
            "\"No later than the second interval after the broker stopped answering pings\" is read as: error by T + 2K where T is the instant of the first unanswered PINGREQ; \"never ... while the broker answers within the interval\" as: no error before T + K".into(),
            "PINGRESP delays are generated strictly below K; a reply landing exactly on the timer instant is outside the statement (either outcome is defensible) and is not generated".into(),
            "The event loop is polled continuously (a user that stops polling stops the timer as well)".into(),
            "v5: keep-alive below 5 s and 0 are rejected by MqttOptions::set_keep_alive; they are exercised through the CONNACK server-keep-alive property, which the client must adopt (MQTT 5 §3.2.2.3.14; 0 turns keep-alive off)".into(),
        ],
        min_nontrivial: 2000,
    }
}
