//! C15 — retained messages (DESIGN §5 C15).

use super::c01::avoid_all;
use crate::brokersim::campaign::SimCampaign;
use crate::brokersim::gen::GenCfg;
use crate::brokersim::observe::Flags;
use crate::brokersim::run::Stats;
use crate::brokersim::types::*;
use crate::engine::*;
use crate::topic::ref_matches;

/// a subscription made after >=2 retained topics it matches exist and after a replacement/clear
fn rich_retained_history(h: &Hist) -> bool {
    let mut retained: Vec<(String, bool)> = Vec::new(); // (topic, currently set)
    let mut changed = false;
    for op in &h.ops {
        match op {
            Op::Publish { topic, retain: true, size, .. } => {
                match retained.iter_mut().find(|x| x.0 == *topic) {
                    Some(e) => {
                        changed = true;
                        e.1 = *size > 0;
                    }
                    None => retained.push((topic.clone(), *size > 0)),
                }
            }
            Op::Subscribe { filters, .. } => {
                for (f, _) in filters {
                    if f.starts_with("$share/") {
                        continue;
                    }
                    let n = retained.iter().filter(|x| x.1 && ref_matches(&x.0, f)).count();
                    if n >= 2 && changed {
                        return true;
                    }
                }
            }
            _ => {}
        }
    }
    false
}

fn nontrivial(s: &Stats, h: &Hist) -> Option<String> {
    if s.retained_replays < 2 || !rich_retained_history(h) {
        return None;
    }
    Some(format!("replays={} inflight_full={}", s.retained_replays.min(8), s.saw_inflight_full))
}

pub fn main_campaign() -> SimCampaign {
    SimCampaign {
        name: "retained",
        gen: GenCfg {
            min_clients: 2,
            max_clients: 4,
            max_chunks: 45,
            w_subscribe: 12,
            w_shared_sub: 2,
            w_unsubscribe: 5,
            w_publish: 22,
            w_burst: 1,
            w_release: 5,
            w_turn: 8,
            w_drain: 8,
            w_ack: 3,
            w_settle: 3,
            p_retain: 60,
            p_empty_payload: 15,
            max_burst: 110,
            topics: ["a", "a/b", "a/c", "b", "b/c", "a/b/c"].iter().map(|s| s.to_string()).collect(),
            ..GenCfg::default()
        },
        flags: Flags {
            retained: true,
            delivery: true,
            avoid: avoid_all(),
            ..Flags::default()
        },
        quick: 30000,
        thorough: 600000,
        nontrivial,
        probes: vec![],
        // shared subscriptions are made only by the last client, which holds no other
        // subscription (shared-group behaviour itself is C17's subject)
        shape: Some(|mut h: Hist| {
            let last = h.clients.len().saturating_sub(1);
            for op in h.ops.iter_mut() {
                if let Op::Subscribe { c, filters, .. } = op {
                    for (f, _) in filters.iter_mut() {
                        let shared = f.starts_with("$share/");
                        if *c == last && !shared {
                            *f = format!("$share/g3/{}", "a/#");
                        } else if *c != last && shared {
                            *f = f.splitn(3, '/').nth(2).unwrap_or("a").to_string();
                        }
                    }
                    filters.dedup_by(|a, b| a.0 == b.0);
                }
            }
            h
        }),
    }
}

pub fn plan(_tier: Tier) -> Plan {
    Plan {
        campaigns: vec![Box::new(main_campaign())],
        enumerators: vec![],
        rule: "Histories of retained / non-retained publishes (60% retained, 15% empty payload = clear, replacement frequent) on 6 topics interleaved with new, repeated, shared-group and unsubscribe-then-resubscribe subscriptions (literal and wildcard filters, QoS 0-2). Oracle: the forwards flagged retained that a new non-shared subscription receives are, as a set, exactly the topics whose retained message existed throughout the window between the subscription and its first delivery (each with a value that was that topic's retained message at some moment of the window), nothing for topics that do not match the filter; a forward flagged retained that no new non-shared subscription is owed (live copy, repeated subscription, shared group) is a violation. Non-trivial: a subscription made when >=2 matching retained topics exist after >=1 replacement or clearing, and >=2 retained replays observed.".into(),
        assumptions: vec![
            "Non-retained empty-payload publishes are generated too (they must not touch the retained store)".into(),
            "The replay may be cut to the free delivery window; the completeness clause is applied only when the retained set is far below it".into(),
        ],
        min_nontrivial: 100,
    }
}
