//! C05 — decoders are total, bounded and chunking-independent on arbitrary bytes.
//!
//! Decoders: rumqttc v4/v5 `Packet::read` (+ tokio_util `Framed` with their `Codec`),
//! rumqttd `V4`/`V5` `Protocol::read_mut` (+ `Network::read`/`readv`).
//! Oracle: `codec::oracle::decode_oracle_k` (reference framer of `codec::reference`).

use crate::codec::model::*;
use crate::codec::oracle::{decode_oracle_k, direct_run, known_region_c05, End, Run, Trace};
use crate::codec::reference::{self, parse_header, Header};
use crate::codec::mutate::{apply, interesting_byte, mutation, Mutation, BYTE_ALPHABET};
use crate::codec::{gen, Codec, Kind, KINDS};
use crate::engine::*;
use crate::{ensure, with_codec};
use proptest::prelude::*;
use proptest::sample::select;
use serde::{Deserialize, Serialize};
use serde_json::json;

pub const MAXES: [u64; 7] = [0, 1, 2, 127, 128, 1024, 1 << 20];
pub const UNLIMITED: u64 = u64::MAX;

fn max_usize(m: u64) -> usize {
    if m == UNLIMITED {
        usize::MAX
    } else {
        m as usize
    }
}

/// A byte stream, a decoder, a maximum and a chunking
#[derive(Clone, Debug, Serialize, Deserialize)]
pub struct RawCase {
    pub dec: Kind,
    /// u64::MAX = unlimited
    pub max: u64,
    pub bytes: Vec<u8>,
    /// split points (mapped monotonically onto 0..=len)
    #[serde(default)]
    pub cuts: Vec<u16>,
    #[serde(default)]
    pub knob: u8,
}

fn cuts_of(cuts: &[u16], len: usize) -> Vec<usize> {
    cuts.iter().map(|c| idx(*c, len + 1)).collect()
}

fn observe(kind: Kind, t: &Trace, obs: &mut Obs) {
    obs.count("decode_calls_reference_run", t.decode_calls);
    obs.count("chunkings_compared", t.chunkings);
    if let Some(r) = t.reached.first() {
        obs.nontrivial(format!("{}:{}:{}:width{}", kind.name(), TYPE_NAMES[r.nibble as usize], r.outcome, r.width));
    }
    for r in &t.reached {
        obs.class(match r.outcome {
            "packet" => "body_parsed_packet",
            "error" => "body_parsed_error",
            _ => "body_parsed_need_more",
        });
    }
}

fn raw_check(c: &RawCase, exclude_known: bool, obs: &mut Obs) -> Result<(), Failure> {
    let max = max_usize(c.max);
    if exclude_known {
        if let Some(region) = known_region_c05(c.dec, max, &c.bytes) {
            obs.count("excluded_known_region_total", 1);
            obs.count(
                if region == "broker_v5_connack_unsuback_type" {
                    "excluded:broker_v5_connack_unsuback_type"
                } else {
                    "excluded:v5_body_varint_cut_off_by_frame_end"
                },
                1,
            );
            return Ok(());
        }
    }
    let mut t = Trace::default();
    let cuts = cuts_of(&c.cuts, c.bytes.len());
    let r = with_codec!(c.dec, K => decode_oracle_k::<K>(max, &c.bytes, &cuts, c.knob, &mut t).map(|_| ()));
    observe(c.dec, &t, obs);
    r
}

/// Replay-only campaign: the case type of enumerator findings
pub struct Raw;

impl Campaign for Raw {
    type Case = RawCase;
    fn name(&self) -> &'static str {
        "raw"
    }
    fn cases(&self, _tier: Tier) -> u64 {
        0
    }
    fn strategy(&self, _tier: Tier) -> BoxedStrategy<RawCase> {
        Just(RawCase { dec: Kind::ClientV4, max: 0, bytes: vec![], cuts: vec![], knob: 0 }).boxed()
    }
    fn check(&self, c: &RawCase, obs: &mut Obs) -> Result<(), Failure> {
        raw_check(c, true, obs)
    }
}

// ---------------------------------------------------------------------------------------
// (b) mutation and (c) stream campaigns

#[derive(Clone, Debug, Serialize, Deserialize)]
pub enum FrameSpec {
    /// reference encoding of a packet value, then mutations
    Packet { ver: Ver, m: M, muts: Vec<Mutation> },
    Garbage(Vec<u8>),
}

#[derive(Clone, Debug, Serialize, Deserialize)]
pub enum MaxSel {
    Fixed(u64),
    Unlimited,
    /// the largest declared remaining length in the stream (+ delta)
    Largest { minus: u8 },
}

#[derive(Clone, Debug, Serialize, Deserialize)]
pub struct StreamCase {
    pub dec: Kind,
    pub max: MaxSel,
    pub frames: Vec<FrameSpec>,
    pub cuts: Vec<u16>,
    pub knob: u8,
}

/// small packets, so that several frames fit into a 24-byte stream
fn small_packet(ver: Ver) -> BoxedStrategy<M> {
    let small_pub = (0u8..=2, any::<bool>(), 0u32..=3, gen::pkid(), 0u32..=4).prop_map(|(qos, retain, tl, pkid, pl)| {
        M::Publish(Publish {
            dup: false,
            qos,
            retain,
            topic: Txt { pat: "t/é".into(), len: tl },
            pkid: if qos == 0 { 0 } else { pkid },
            payload: Bin::Gen { seed: 1, len: pl },
            props: Props::default(),
        })
    });
    let bare_ack = |w: u8| {
        gen::pkid().prop_map(move |pkid| {
            let a = Ack { pkid, reason: 0, props: Props::default() };
            match w {
                4 => M::PubAck(a),
                5 => M::PubRec(a),
                6 => M::PubRel(a),
                _ => M::PubComp(a),
            }
        })
    };
    prop_oneof![
        3 => small_pub,
        1 => bare_ack(4),
        1 => bare_ack(5),
        1 => bare_ack(6),
        1 => bare_ack(7),
        1 => Just(M::PingReq),
        1 => Just(M::PingResp),
        1 => gen::disconnect(ver),
        1 => gen::ack(ver, 4),
        1 => gen::unsuback(ver),
    ]
    .boxed()
}

fn frame_spec(dec: Kind, small: bool, min_muts: usize) -> BoxedStrategy<FrameSpec> {
    let own = dec.ver();
    let other = if own == Ver::V4 { Ver::V5 } else { Ver::V4 };
    let ver = prop_oneof![6 => Just(own), 1 => Just(other)];
    let muts = if min_muts > 0 {
        prop::collection::vec(mutation(), min_muts..=4).boxed()
    } else {
        prop_oneof![6 => Just(vec![]), 3 => prop::collection::vec(mutation(), 1..=1), 1 => prop::collection::vec(mutation(), 2..=3)].boxed()
    };
    let packet = (ver, muts).prop_flat_map(move |(v, muts)| {
        let m = if small { small_packet(v) } else { prop_oneof![1 => small_packet(v), 2 => gen::packet(v)].boxed() };
        (Just(v), m, Just(muts)).prop_map(|(ver, m, muts)| FrameSpec::Packet { ver, m, muts })
    });
    if min_muts > 0 {
        packet.boxed()
    } else {
        prop_oneof![8 => packet, 1 => prop::collection::vec(interesting_byte(), 0..=6).prop_map(FrameSpec::Garbage)].boxed()
    }
}

fn max_sel() -> BoxedStrategy<MaxSel> {
    prop_oneof![
        3 => select(MAXES.to_vec()).prop_map(MaxSel::Fixed),
        3 => Just(MaxSel::Unlimited),
        3 => Just(MaxSel::Largest { minus: 0 }),
        1 => Just(MaxSel::Largest { minus: 1 }),
    ]
    .boxed()
}

fn kind() -> BoxedStrategy<Kind> {
    select(KINDS.to_vec()).boxed()
}

struct Materialised {
    bytes: Vec<u8>,
    max: usize,
    /// Some(expected packets) when every frame is an unmutated packet of the decoder's version
    expect: Option<Vec<M>>,
}

fn materialise(c: &StreamCase) -> Materialised {
    let mut bytes = Vec::new();
    let mut expect = Some(Vec::new());
    for f in &c.frames {
        match f {
            FrameSpec::Packet { ver, m, muts } => {
                let mut fr = reference::encode(*ver, m);
                for mu in muts {
                    apply(&mut fr, mu);
                }
                if !muts.is_empty() || *ver != c.dec.ver() {
                    expect = None;
                }
                if let Some(e) = &mut expect {
                    e.push(m.clone().normalise());
                }
                bytes.extend_from_slice(&fr);
            }
            FrameSpec::Garbage(g) => {
                if !g.is_empty() {
                    expect = None;
                }
                bytes.extend_from_slice(g);
            }
        }
    }
    // largest declared remaining length, walking the stream with the reference framer
    let mut largest = 0usize;
    let mut o = 0;
    while o < bytes.len() {
        let Header::Complete { remaining, header_len, .. } = parse_header(&bytes[o..]) else { break };
        largest = largest.max(remaining);
        o += header_len + remaining;
    }
    let max = match &c.max {
        MaxSel::Fixed(m) => max_usize(*m),
        MaxSel::Unlimited => usize::MAX,
        MaxSel::Largest { minus } => largest.saturating_sub(*minus as usize),
    };
    if largest > max {
        expect = None;
    }
    Materialised { bytes, max, expect }
}

/// Valid streams must decode to exactly the packets that were put in (C05 "yields the same
/// packet sequence", judged against the reference encoder's input)
fn check_valid_stream<K: Codec>(frames: &[M], bytes: &[u8], run: &Run<K::P>) -> Result<(), Failure> {
    let k = K::KIND.name();
    // frames whose content the decoder is known to misread (C04 findings) are not judged here
    let mut o = 0;
    for _ in frames {
        let Header::Complete { remaining, header_len, .. } = parse_header(&bytes[o..]) else { return Ok(()) };
        let fr = &bytes[o..o + header_len + remaining];
        if !crate::codec::oracle::exclusions_enabled() {
            break;
        }
        if K::KIND.ver() == Ver::V5 && reference::v5_publish_subid_cursor_skips(fr) {
            return Ok(());
        }
        if K::KIND == Kind::ClientV5 && fr == [0xE0, 0x00] {
            return Ok(());
        }
        o += header_len + remaining;
    }
    ensure!(
        run.packets.len() == frames.len() && run.end == End::NeedMore { leftover: 0 },
        format!("valid_stream_rejected:{k}"),
        "{} well-formed frames (all within the maximum) gave {} packets, then {:?}; frames {:?}",
        frames.len(),
        run.packets.len(),
        run.end,
        frames.iter().map(|m| m.type_name()).collect::<Vec<_>>()
    );
    for (p, want) in run.packets.iter().zip(frames) {
        let got = K::from(p);
        ensure!(
            got.as_ref() == Some(want),
            format!("valid_stream_misread:{k}:{}", want.type_name()),
            "decoded {got:?}, the stream was built from {want:?}"
        );
    }
    Ok(())
}

fn stream_check(c: &StreamCase, obs: &mut Obs) -> Result<(), Failure> {
    let mat = materialise(c);
    if let Some(region) = known_region_c05(c.dec, mat.max, &mat.bytes) {
        obs.count("excluded_known_region_total", 1);
        obs.count(
            if region == "broker_v5_connack_unsuback_type" {
                "excluded:broker_v5_connack_unsuback_type"
            } else {
                "excluded:v5_body_varint_cut_off_by_frame_end"
            },
            1,
        );
        return Ok(());
    }
    let cuts = cuts_of(&c.cuts, mat.bytes.len());
    let mut t = Trace::default();
    let r = with_codec!(c.dec, K => {
        decode_oracle_k::<K>(mat.max, &mat.bytes, &cuts, c.knob, &mut t).and_then(|run| match &mat.expect {
            Some(frames) => check_valid_stream::<K>(frames, &mat.bytes, &run),
            None => Ok(()),
        })
    });
    observe(c.dec, &t, obs);
    obs.class_if(mat.expect.is_some(), "stream_of_valid_frames");
    obs.class_if(mat.bytes.len() <= 24, "all_splits_into_up_to_4_chunks");
    obs.class_if(c.frames.len() > 1, "multi_frame");
    obs.class_if(matches!(c.max, MaxSel::Largest { .. }), "max_at_largest_frame");
    if obs.nontrivial.is_some() {
        obs.sample = Some(json!({
            "decoder": c.dec.name(), "max": if mat.max == usize::MAX { json!("unlimited") } else { json!(mat.max) },
            "stream_len": mat.bytes.len(), "head": format!("{:02x?}", &mat.bytes[..mat.bytes.len().min(24)]),
            "cuts": cuts, "frames": c.frames.len(),
        }));
    }
    r
}

pub struct Mutations;

impl Campaign for Mutations {
    type Case = StreamCase;
    fn name(&self) -> &'static str {
        "mutations"
    }
    fn cases(&self, tier: Tier) -> u64 {
        tier.pick(100_000, 2_000_000)
    }
    fn strategy(&self, _tier: Tier) -> BoxedStrategy<StreamCase> {
        kind()
            .prop_flat_map(|dec| (Just(dec), max_sel(), frame_spec(dec, false, 1), prop::collection::vec(any::<u16>(), 0..=3), any::<u8>()))
            .prop_map(|(dec, max, f, cuts, knob)| StreamCase { dec, max, frames: vec![f], cuts, knob })
            .boxed()
    }
    fn check(&self, c: &StreamCase, obs: &mut Obs) -> Result<(), Failure> {
        stream_check(c, obs)
    }
    fn max_shrink_iters(&self, _tier: Tier) -> u32 {
        2000
    }
}

pub struct Streams;

impl Campaign for Streams {
    type Case = StreamCase;
    fn name(&self) -> &'static str {
        "streams"
    }
    fn cases(&self, tier: Tier) -> u64 {
        tier.pick(60_000, 1_200_000)
    }
    fn strategy(&self, _tier: Tier) -> BoxedStrategy<StreamCase> {
        (kind(), any::<bool>())
            .prop_flat_map(|(dec, small)| {
                let n = if small { prop_oneof![2 => 1usize..=3, 1 => 4usize..=8].boxed() } else { prop_oneof![3 => 1usize..=3, 1 => 4usize..=8].boxed() };
                (
                    Just(dec),
                    max_sel(),
                    n.prop_flat_map(move |n| prop::collection::vec(frame_spec(dec, small, 0), n)),
                    prop::collection::vec(any::<u16>(), 0..=6),
                    any::<u8>(),
                )
            })
            .prop_map(|(dec, max, frames, cuts, knob)| StreamCase { dec, max, frames, cuts, knob })
            .boxed()
    }
    fn check(&self, c: &StreamCase, obs: &mut Obs) -> Result<(), Failure> {
        stream_check(c, obs)
    }
    fn max_shrink_iters(&self, _tier: Tier) -> u32 {
        2000
    }
}

// ---------------------------------------------------------------------------------------
// probes

pub const SIG_UNREACHABLE: &str = super::c04::SIG_UNREACHABLE;

pub struct ProbeUnreachable;

impl Campaign for ProbeUnreachable {
    type Case = RawCase;
    fn name(&self) -> &'static str {
        "probe_broker_v5_connack_unsuback_type"
    }
    fn cases(&self, tier: Tier) -> u64 {
        tier.pick(300, 3000)
    }
    fn probes_known(&self) -> Vec<&'static str> {
        vec![SIG_UNREACHABLE]
    }
    fn strategy(&self, _tier: Tier) -> BoxedStrategy<RawCase> {
        (
            select(vec![2u8, 11]),
            0u8..16,
            prop::collection::vec(interesting_byte(), 1..=12),
            any::<bool>(),
            prop::collection::vec(any::<u16>(), 0..=2),
            select(vec![UNLIMITED, 1024, 1 << 20]),
        )
            .prop_map(|(nibble, flags, body, ping_first, cuts, max)| {
                let mut bytes = if ping_first { vec![0xC0, 0x00] } else { vec![] };
                bytes.push(nibble << 4 | flags);
                bytes.push(body.len() as u8);
                bytes.extend_from_slice(&body);
                RawCase { dec: Kind::BrokerV5, max, bytes, cuts, knob: 0 }
            })
            .boxed()
    }
    fn check(&self, c: &RawCase, obs: &mut Obs) -> Result<(), Failure> {
        raw_check(c, false, obs)
    }
}

pub struct ProbeVarintCutOff;

impl Campaign for ProbeVarintCutOff {
    type Case = RawCase;
    fn name(&self) -> &'static str {
        "probe_v5_body_varint_cut_off_by_frame_end"
    }
    fn cases(&self, tier: Tier) -> u64 {
        tier.pick(400, 4000)
    }
    fn probes_known(&self) -> Vec<&'static str> {
        vec!["need_more_on_complete_frame:client_v5", "need_more_on_complete_frame:broker_v5"]
    }
    fn strategy(&self, _tier: Tier) -> BoxedStrategy<RawCase> {
        // (first byte, bytes up to the position of a variable byte integer, minimum continuation bytes)
        let templates: Vec<(u8, Vec<u8>, usize)> = vec![
            (0x20, vec![0, 0], 0),
            (0x30, vec![0, 1, b'a'], 0),
            (0x32, vec![0, 1, b'a', 0, 1], 0),
            (0x30, vec![0, 1, b'a', 2, 0x0B], 0),
            (0x40, vec![0, 1, 0], 1),
            (0x50, vec![0, 1, 0], 1),
            (0x62, vec![0, 1, 0], 1),
            (0x70, vec![0, 1, 0], 1),
            (0x82, vec![0, 1], 0),
            (0x82, vec![0, 1, 1, 0x0B], 0),
            (0x90, vec![0, 1], 0),
            (0xA2, vec![0, 1], 0),
            (0xB0, vec![0, 1], 0),
            (0xE0, vec![0x8E], 0),
            (0x10, vec![0, 4, b'M', b'Q', b'T', b'T', 5, 2, 0, 60], 0),
            (0x10, vec![0, 4, b'M', b'Q', b'T', b'T', 5, 6, 0, 60, 0, 0, 1, b'c'], 0),
        ];
        (
            select(templates),
            prop::collection::vec(0x80u8..=0xFF, 0..=3),
            any::<bool>(),
            any::<bool>(),
            prop::collection::vec(any::<u16>(), 0..=2),
        )
            .prop_map(|((b1, prefix, min_cont), mut cont, client, ping_after, cuts)| {
                while cont.len() < min_cont {
                    cont.push(0x80);
                }
                let nibble = b1 >> 4;
                let dec = if client || nibble == 2 || nibble == 11 { Kind::ClientV5 } else { Kind::BrokerV5 };
                let mut bytes = vec![b1, (prefix.len() + cont.len()) as u8];
                bytes.extend_from_slice(&prefix);
                bytes.extend_from_slice(&cont);
                if ping_after {
                    bytes.extend_from_slice(&[0xC0, 0x00]);
                }
                RawCase { dec, max: UNLIMITED, bytes, cuts, knob: 0 }
            })
            .boxed()
    }
    fn check(&self, c: &RawCase, obs: &mut Obs) -> Result<(), Failure> {
        raw_check(c, false, obs)
    }
}

// ---------------------------------------------------------------------------------------
// (a) exhaustive enumerator

fn bodies_upto(n: usize) -> Vec<Vec<u8>> {
    let mut all = vec![vec![]];
    let mut prev: Vec<Vec<u8>> = vec![vec![]];
    for _ in 0..n {
        let mut next = Vec::with_capacity(prev.len() * BYTE_ALPHABET.len());
        for p in &prev {
            for a in BYTE_ALPHABET {
                let mut q = p.clone();
                q.push(a);
                next.push(q);
            }
        }
        all.extend(next.iter().cloned());
        prev = next;
    }
    all
}

/// Remaining-length encodings: (bytes, how many body variants)
enum Bodies {
    /// every body over the alphabet up to the enumeration bound
    All,
    /// one body per length 0..=4
    Lengths,
    /// empty body only
    Empty,
    /// body lengths 0..=1
    Short,
}

fn length_encodings() -> Vec<(Vec<u8>, Bodies)> {
    let mut v: Vec<(Vec<u8>, Bodies)> = Vec::new();
    for n in 0u8..=4 {
        v.push((vec![n], Bodies::All));
        v.push((vec![0x80 | n, 0x00], Bodies::All));
    }
    v.push((vec![0x80, 0x80, 0x00], Bodies::All));
    v.push((vec![0x81, 0x80, 0x00], Bodies::All));
    v.push((vec![0x80, 0x80, 0x80, 0x00], Bodies::All));
    v.push((vec![0x82, 0x80, 0x80, 0x00], Bodies::All));
    for e in [
        vec![0x05],
        vec![0x7F],
        vec![0x80, 0x01],
        vec![0xFF, 0x7F],
        vec![0x80, 0x80, 0x01],
        vec![0xFF, 0xFF, 0x7F],
        vec![0x80, 0x80, 0x80, 0x01],
        vec![0xFF, 0xFF, 0xFF, 0x7F],
    ] {
        v.push((e, Bodies::Lengths));
    }
    for e in [vec![], vec![0x80], vec![0xFF], vec![0x80, 0x80], vec![0xFF, 0xFF, 0xFF], vec![0x80, 0x80, 0x80]] {
        v.push((e, Bodies::Empty));
    }
    for e in [vec![0x80, 0x80, 0x80, 0x80], vec![0xFF, 0xFF, 0xFF, 0xFF], vec![0x80, 0x80, 0x80, 0x80, 0x00], vec![0xFF, 0xFF, 0xFF, 0xFF, 0x7F]] {
        v.push((e, Bodies::Short));
    }
    v
}

#[derive(Default)]
struct EnumAcc {
    evals: u64,
    nontrivial: u64,
    shapes: std::collections::BTreeMap<String, u64>,
    excluded: std::collections::BTreeMap<&'static str, u64>,
    fails: Vec<(RawCase, Failure)>,
    samples: Vec<RawCase>,
}

fn enum_one<K: Codec>(max: u64, input: &[u8], acc: &mut EnumAcc) {
    let m = max_usize(max);
    acc.evals += 1;
    if let Some(region) = known_region_c05(K::KIND, m, input) {
        *acc.excluded.entry(region).or_insert(0) += 1;
        return;
    }
    let mut t = Trace::default();
    let r = direct_run::<K>(m, &[input], Some(&mut t)).and_then(|reference| {
        if input.len() < 2 {
            return Ok(());
        }
        // the extreme chunking: one byte per read
        let chunks: Vec<&[u8]> = input.chunks(1).collect();
        let got = direct_run::<K>(m, &chunks, None)?;
        ensure!(
            reference.packets == got.packets && reference.end == got.end,
            format!("chunking_changes_outcome:{}", K::KIND.name()),
            "one-shot: {} packets then {:?}; byte-by-byte: {} packets then {:?}; input {input:02x?}",
            reference.packets.len(),
            reference.end,
            got.packets.len(),
            got.end
        );
        Ok(())
    });
    if let Some(rc) = t.reached.first() {
        acc.nontrivial += 1;
        *acc.shapes.entry(format!("enum:{}:{}:{}:width{}", K::KIND.name(), TYPE_NAMES[rc.nibble as usize], rc.outcome, rc.width)).or_insert(0) += 1;
        if acc.samples.is_empty() && rc.outcome == "packet" && input.len() > 4 {
            acc.samples.push(RawCase { dec: K::KIND, max, bytes: input.to_vec(), cuts: vec![], knob: 0 });
        }
    }
    if let Err(f) = r {
        if !acc.fails.iter().any(|(_, g)| g.signature == f.signature) {
            acc.fails.push((RawCase { dec: K::KIND, max, bytes: input.to_vec(), cuts: vec![], knob: 0 }, f));
        }
    }
}

fn enumerate(rep: &mut Report, full_bound: usize, reduced_bound: usize) {
    let encs = length_encodings();
    let full = bodies_upto(full_bound);
    let reduced = bodies_upto(reduced_bound);
    let lengths: Vec<Vec<u8>> = (0..=4).map(|n| [0x00u8, 0x01, 0x00, 0x01][..n].to_vec()).collect();
    let threads = 16usize;
    let (encs, full, reduced, lengths) = (&encs, &full, &reduced, &lengths);
    let accs: Vec<EnumAcc> = std::thread::scope(|s| {
        let hs: Vec<_> = (0..threads)
            .map(|th| {
                s.spawn(move || {
                    let mut acc = EnumAcc::default();
                    let mut input = Vec::with_capacity(16);
                    for kind in KINDS {
                        for max in MAXES {
                            // bodies only matter while the small declared lengths fit under the maximum
                            let all = if matches!(max, 0 | 1 | 2 | 1024) { full } else { reduced };
                            for b1 in (0..256usize).filter(|b| b % threads == th) {
                                for (enc, bodies) in encs.iter() {
                                    let set: &[Vec<u8>] = match bodies {
                                        Bodies::All => all,
                                        Bodies::Lengths => lengths,
                                        Bodies::Empty => &lengths[..1],
                                        Bodies::Short => &lengths[..2],
                                    };
                                    for body in set {
                                        input.clear();
                                        input.push(b1 as u8);
                                        input.extend_from_slice(enc);
                                        input.extend_from_slice(body);
                                        with_codec!(kind, K => enum_one::<K>(max, &input, &mut acc));
                                    }
                                }
                                tick();
                            }
                        }
                    }
                    acc
                })
            })
            .collect();
        hs.into_iter().map(|h| h.join().unwrap()).collect()
    });
    let mut evals = 0;
    for a in accs {
        evals += a.evals;
        rep.evaluations += a.evals;
        rep.enumerated_nontrivial += a.nontrivial;
        for (k, v) in a.shapes {
            *rep.nontrivial_keys.entry(k).or_insert(0) += v;
        }
        for (k, v) in a.excluded {
            *rep.counters.entry(format!("enum:excluded:{k}")).or_insert(0) += v;
        }
        for s in a.samples {
            if rep.samples.iter().filter(|v| v.get("campaign").and_then(|x| x.as_str()) == Some("enum")).count() < 2 {
                rep.samples.push(json!({"campaign": "enum", "case": {"decoder": s.dec.name(), "max": s.max, "bytes": format!("{:02x?}", s.bytes)}}));
            }
        }
        for (case, f) in a.fails {
            if !rep.violations.iter().any(|v| v.failure.signature == f.signature) {
                rep.violations.push(FoundViolation { campaign: "raw".into(), failure: f, case: serde_json::to_value(&case).unwrap(), shrunk: false });
            }
        }
    }
    // the empty input and the lone first byte are part of the domain (Bodies::Empty with the empty encoding)
    rep.exhaustive_subdomains.push(format!(
        "{evals} inputs: for each of the 4 decoders and each max in {MAXES:?}: every first byte (256) x {} remaining-length encodings (minimal and non-minimal forms of 0..4, the width boundaries 127/128, 16383/16384, 2097151/2097152, 268435455, truncated and over-long encodings) x bodies over the alphabet {BYTE_ALPHABET:02x?} (all bodies of length <= {full_bound} for max in {{0,1,2,1024}}, <= {reduced_bound} for the other maxima, where the declared length is <= 4; body lengths 0..4 otherwise); each decoded one-shot and byte-by-byte",
        encs.len()
    ));
}

pub fn plan(tier: Tier) -> Plan {
    let (full, reduced) = tier.pick((3, 2), (4, 3));
    Plan {
        campaigns: vec![Box::new(crate::fuzzdec::FuzzReplay("fuzz_decode", "decode")), 
            Box::new(Mutations),
            Box::new(Streams),
            Box::new(Raw),
            Box::new(ProbeUnreachable),
            Box::new(ProbeVarintCutOff),
        ],
        enumerators: vec![Box::new(move |rep| enumerate(rep, full, reduced))],
        rule: "Inputs are byte streams for one of the four decoders with a maximum size and a chunking. (a) enumerator: every first byte x a boundary alphabet of remaining-length encodings x short bodies, decoded one-shot and one byte at a time; (b) 'mutations': the reference encoding of a generated well-formed packet (C04 generator) with 1-4 mutations (bit flip, byte set, overwrite near the header, truncation with and without fixing the declared length, declared-length edits, splice, delete); (c) 'streams': 1-8 frames (valid, mutated, other protocol version, garbage) concatenated, generated split points, and every split into <= 4 chunks when the stream is <= 24 bytes; maximum from {0,1,2,127,128,1024,2^20, unlimited, largest declared length, largest-1}. Each stream is run through the direct decoder on a growing buffer (every call judged against the reference framer), and through the codec's own stream driver (tokio_util Framed with rumqttc's Codec, or rumqttd Network::read/readv) over an in-memory duplex, one-shot and chunked. A case is non-trivial when the decoder got past the fixed header at least once (complete frame with valid type nibble and declared length <= max, so the body parser ran); shapes are (decoder, type of the first such frame, outcome, length width). Enumerated inputs are distinct by construction, generated ones by hash.".into(),
        assumptions: vec![
            "The configured maximum bounds the declared *remaining length* (check() in all four copies compares remaining_len > max), not the whole frame; 'unlimited' is None for rumqttc v5 and usize::MAX elsewhere".into(),
            "An over-long remaining-length field (4th byte with continuation bit) must be rejected, not waited on".into(),
            "Error outcomes may consume the offending frame or nothing; they must not consume more than the declared frame".into(),
            "Stream drivers: outcomes are compared up to the first error; rumqttd's Network::readv reports protocol errors as io::Error(InvalidData), which is compared as 'some protocol error'; end of stream with buffered bytes must coincide with the direct decoder still waiting for bytes".into(),
            "Streams made only of unmutated reference encodings of the decoder's own protocol version, all within the maximum, must decode to exactly those packets (frames that hit the C04 known findings about content are not judged for content)".into(),
            "Known-finding regions (predicates on decoder+input, see KNOWN_FINDINGS.txt) are skipped by the enumerator and the main campaigns (counters excluded*) and searched by the probe_* campaigns".into(),
        ],
        min_nontrivial: 1_000_000,
    }
}
