//! C14 — isolation between clients (DESIGN §5 C14).

use super::c01::avoid_all;
use crate::brokersim::campaign::SimCampaign;
use crate::brokersim::gen::GenCfg;
use crate::brokersim::observe::Flags;
use crate::brokersim::run::Stats;
use crate::brokersim::types::*;
use crate::engine::*;

fn nontrivial(s: &Stats, _h: &Hist) -> Option<String> {
    if s.router_closed == 0 && s.stale_events == 0 {
        return None;
    }
    if s.witness_forwards == 0 {
        return None;
    }
    Some(format!(
        "closed={} stale={} takeover={} desync={}",
        s.router_closed.min(3),
        s.stale_events.min(3),
        s.takeovers > 0,
        s.desync
    ))
}

fn gen() -> GenCfg {
    GenCfg {
        wide_strings: false,
        w_tick: 1,
        w_shared_sub: 0,
        max_clients: 5,
        min_clients: 3,
        p_alias: 0,
        ..super::c03::gen()
    }
}

/// slots 0 and 1 are the witnesses: well-behaved, always connected, draining and acking
fn witness_shape(mut h: Hist) -> Hist {
    for (i, c) in h.clients.iter_mut().enumerate() {
        if i < 2 {
            c.auto_ack = true;
            c.auto_ready = true;
            c.dynamic_filters = false;
        }
    }
    let mut first = [true, true];
    h.ops.retain_mut(|op| {
        let c = op.client();
        match (c, &mut *op) {
            (Some(c), Op::Connect { clean, will, alias_max, .. }) if c < 2 => {
                *clean = true;
                *will = None;
                *alias_max = 0;
                std::mem::replace(&mut first[c], false)
            }
            (Some(c), Op::Raw { .. } | Op::Zombie { .. } | Op::DropLink { .. } | Op::Disconnect { .. } | Op::PublishWill { .. } | Op::Shadow { .. })
                if c < 2 =>
            {
                false
            }
            // raw ids 0 and 1 are the witnesses' own router ids: a forged signal with a live id
            // cannot be told from the connection's own
            (None, Op::Stale { id, .. }) => {
                if *id < 2 {
                    *id += 2;
                }
                true
            }
            _ => true,
        }
    });
    h
}

pub fn main_campaign() -> SimCampaign {
    SimCampaign {
        name: "witness",
        gen: gen(),
        flags: Flags {
            delivery: true,
            acks: true,
            window: true,
            slabs: true,
            witnesses: Some(vec![0, 1]),
            avoid: avoid_all(),
            ..Flags::default()
        },
        quick: 25000,
        thorough: 500000,
        nontrivial,
        probes: vec![],
        shape: Some(witness_shape),
    }
}

/// R5 (repaired in /repo): witness 1 connects into the slab slot an adversary's finished
/// connection had, then that connection's late Disconnect / Ready signal arrives (it used to
/// act on the witness). Kept as a focused campaign.
fn recycled_shape(h: Hist) -> Hist {
    let mut h = witness_shape(h);
    if h.clients.len() < 3 {
        return h;
    }
    // drop witness 1's initial connect and every connect of the adversaries
    h.ops.retain(|op| !matches!(op, Op::Connect { c, .. } if *c >= 1));
    let prefix = vec![
        Op::Connect { c: 2, clean: true, will: None, alias_max: 0 },
        Op::Turn { n: 1 },
        Op::DropLink { c: 2 },
        Op::Turn { n: 1 },
        Op::Connect { c: 1, clean: true, will: None, alias_max: 0 },
        Op::Turn { n: 1 },
    ];
    let at = 1.min(h.ops.len());
    for (i, o) in prefix.into_iter().enumerate() {
        h.ops.insert(at + i, o);
    }
    let n = h.ops.len();
    let kind = if n % 2 == 0 { 2 } else { 1 };
    h.ops.insert((n / 2).max(8).min(n), Op::Zombie { c: 2, kind });
    h
}

pub fn probe_r5() -> SimCampaign {
    SimCampaign {
        name: "probe_r5_recycled_slot",
        gen: gen(),
        flags: Flags {
            delivery: true,
            acks: true,
            window: true,
            witnesses: Some(vec![0, 1]),
            avoid: avoid_all(),
            ..Flags::default()
        },
        quick: 3000,
        thorough: 60000,
        nontrivial: |s, _| if s.stale_events > 0 { Some("recycled".into()) } else { None },
        probes: vec!["conn:closed_by_broker_without_cause"],
        shape: Some(recycled_shape),
    }
}

/// Witness 1 connects late, into a slab slot (and next to filter logs) that adversaries'
/// finished connections have used: whatever those connections left behind in the router
/// (parked requests of shared or plain subscriptions, scheduler entries, cached batches) must
/// not act on it. The late *signals* of finished connections are R5's business and are kept
/// out of this campaign (no Zombie events, forged ids only beyond the slab).
fn late_shape(h: Hist) -> Hist {
    let mut h = witness_shape(h);
    let max_conn = h.cfg.max_conn;
    let mut seen_connect = false;
    h.ops.retain_mut(|op| match op {
        Op::Zombie { .. } => false,
        Op::Stale { id, .. } => {
            if *id <= max_conn + 1 {
                *id += max_conn + 2;
            }
            true
        }
        Op::Connect { c: 1, .. } => {
            seen_connect = true;
            false
        }
        // the witnesses hold plain subscriptions only (a group's choice of member is not theirs)
        Op::Subscribe { c, filters, .. } if *c < 2 => {
            filters.retain(|f| !f.0.starts_with("$share/"));
            !filters.is_empty()
        }
        Op::Unsubscribe { c, filters, .. } if *c < 2 => {
            filters.retain(|f| !f.starts_with("$share/"));
            !filters.is_empty()
        }
        _ => true,
    });
    if seen_connect {
        let n = h.ops.len();
        let at = (n / 3).max(4.min(n)).min(n);
        h.ops.insert(at, Op::Connect { c: 1, clean: true, will: None, alias_max: 0 });
        h.ops.insert(at + 1, Op::Turn { n: 1 });
    }
    h
}

pub fn late_campaign() -> SimCampaign {
    let mut c = main_campaign();
    c.name = "late_witness";
    c.gen.w_shared_sub = 5;
    c.gen.w_zombie = 0;
    c.gen.w_reconnect = 12;
    c.gen.w_droplink = 6;
    c.quick = 12000;
    c.thorough = 240000;
    c.shape = Some(late_shape);
    c.nontrivial = |s, _| {
        if !s.slot_reused_after_abnormal_end && s.router_closed == 0 {
            return None;
        }
        if s.witness_forwards == 0 {
            return None;
        }
        Some(format!("closed={} reused={} groups={}", s.router_closed.min(3), s.slot_reused_after_abnormal_end, s.group_membership_changes > 0))
    };
    c
}

pub fn plan(_tier: Tier) -> Plan {
    let mut campaigns: Vec<Box<dyn DynCampaign>> =
        vec![Box::new(main_campaign()), Box::new(late_campaign()), Box::new(probe_r5()), Box::new(crate::fullstack::isolation::Isolation)];
    // mutation analysis only (like VERIF_NO_REGRESS): measure what the E5 campaign alone finds
    if std::env::var_os("VERIF_C14_ISOLATION_ONLY").is_some_and(|v| !v.is_empty()) {
        campaigns.drain(..3);
    }
    Plan {
        campaigns,
        enumerators: vec![],
        rule: "Histories with a witness pair (clients 0 and 1: connected first, never misbehaving, draining and acknowledging in order, publishing and subscribing on the same topics as everybody else) and 1-3 adversaries drawing from the C03 alphabet: protocol violations, unsolicited acks, abrupt link failures, reconnect storms and takeovers under their own ids, never draining / never acknowledging, stale and forged router events, late events of their finished connections before or after another adversary reuses the slab slot. Oracle: the C01 delivery clauses, the C06 ack clauses and the C09 window clauses restricted to the witnesses, exact at every drain and complete at every idle point; both witness connections stay registered (checked after every router turn); slab alignment. Second campaign (late_witness): adversaries also hold shared subscriptions and reconnect more often, witness 1 connects only after a third of the history, into a slab slot and next to filter logs that finished connections have used (late signals of those connections are R5's region and are left out there). Adversaries' valid publishes are part of the reference model (they must be delivered to the witnesses), their connection state follows the router when the model cannot predict it. Non-trivial: >=1 adversary connection closed by the broker or >=1 stale event, while the witnesses received forwards. Fourth campaign, the same through the real connection tasks: ".to_string() + crate::fullstack::isolation::ISOLATION_RULE,
        assumptions: vec![
            "R5 (connection ids are recycled slab keys: a late Disconnect/Ready of a finished connection acted on the new occupant of the slot) was repaired in /repo; in the main campaign the witnesses still connect first, the focused campaign probe_r5_recycled_slot and late_witness let witness 1 connect into a used slot".into(),
            "e5_isolation: an adversary's valid QoS 0/1 publish on a witness topic is accepted, behind everything accepted before, when the PINGRESP that closes it (or its PUBACK) has been read; if the adversary's connection ends before that, the publish may be delivered at that place or not at all. Adversaries' QoS 2 publishes (rumqttd releases the oldest recorded one on any PUBREL of the connection, whatever its packet id), wills and malformed topic names (rumqttd does not validate PUBLISH topic names) stay outside the witnesses' filters".into(),
        ],
        min_nontrivial: 200,
    }
}
