//! C09 — broker outbound QoS>0 window <= 100, unique ids, resumes on ack (DESIGN §5 C09).

use super::c01::avoid_all;
use crate::brokersim::campaign::SimCampaign;
use crate::brokersim::gen::GenCfg;
use crate::brokersim::observe::Flags;
use crate::brokersim::run::Stats;
use crate::brokersim::types::*;
use crate::engine::*;

fn nontrivial(s: &Stats, _h: &Hist) -> Option<String> {
    if !s.backlog_over_100 || s.ack_rounds < 2 {
        return None;
    }
    Some(format!("busy={} qos2={} max_window={}", s.saw_busy, s.qos2_completed > 0, s.max_window.min(100) / 25 * 25))
}

fn nontrivial_bad(s: &Stats, _h: &Hist) -> Option<String> {
    if s.router_closed == 0 || s.forwards == 0 {
        return None;
    }
    Some(format!("closed={} desync={}", s.router_closed.min(3), s.desync))
}

fn gen() -> GenCfg {
    GenCfg {
        min_clients: 2,
        max_clients: 3,
        max_chunks: 40,
        w_subscribe: 4,
        w_unsubscribe: 1,
        w_publish: 8,
        w_burst: 10,
        w_release: 6,
        w_ping: 1,
        w_turn: 8,
        w_drain: 8,
        w_ack: 10,
        w_settle: 2,
        qos_weights: [1, 5, 3],
        p_manual_ack: 70,
        // a new QoS>0 subscription with retained messages AND a backlog shares one window
        p_retain: 15,
        p_manual_ready: 40,
        max_burst: 400,
        topics: ["a", "a/b", "a/c", "b"].iter().map(|s| s.to_string()).collect(),
        filters: ["a/#", "a/+", "#", "a/b", "b"].iter().map(|s| s.to_string()).collect(),
        ..GenCfg::default()
    }
}

pub fn main_campaign() -> SimCampaign {
    SimCampaign {
        name: "window",
        gen: gen(),
        flags: Flags {
            window: true,
            delivery: true,
            retained: true,
            acks: true,
            avoid: avoid_all(),
            ..Flags::default()
        },
        quick: 10000,
        thorough: 200_000,
        nontrivial,
        probes: vec![],
        shape: None,
    }
}

/// slot 0 sends acknowledgements the broker did not solicit; every other client is asserted on
pub fn bad_ack_campaign() -> SimCampaign {
    SimCampaign {
        name: "unsolicited_ack",
        gen: GenCfg {
            w_raw: 6,
            min_clients: 3,
            max_clients: 4,
            max_burst: 120,
            ..gen()
        },
        flags: Flags {
            window: true,
            delivery: true,
            acks: true,
            witnesses: Some(vec![1, 2, 3]),
            avoid: avoid_all(),
            ..Flags::default()
        },
        quick: 5000,
        thorough: 100_000,
        nontrivial: nontrivial_bad,
        probes: vec![],
        shape: Some(|mut h: Hist| {
            // only slot 0 misbehaves
            for op in h.ops.iter_mut() {
                if let Op::Raw { c, pkt, .. } = op {
                    *c = 0;
                    if !matches!(pkt, Raw::PubAck(_) | Raw::PubRec(_) | Raw::PubComp(_)) {
                        *pkt = Raw::PubAck(3);
                    }
                }
            }
            h
        }),
    }
}

pub fn plan(_tier: Tier) -> Plan {
    let mut campaigns: Vec<Box<dyn DynCampaign>> = vec![Box::new(main_campaign()), Box::new(bad_ack_campaign()), Box::new(crate::fullstack::flow::Flow)];
    // mutation analysis only (like VERIF_NO_REGRESS): measure what the E5 campaign alone finds
    if std::env::var_os("VERIF_C09_FLOW_ONLY").is_some_and(|v| !v.is_empty()) {
        campaigns.drain(..2);
    }
    Plan {
        campaigns,
        enumerators: vec![],
        rule: "Histories with 1-2 subscribers on 1-3 filters (QoS mix), publishers creating backlogs of up to 400 messages, generated ack pacing (none / 1 / 2 / bursts / all, manual PUBREC/PUBCOMP), small outgoing batch sizes forcing Unschedule/Ready with generated Ready delay. After every drain, from the client's own point of view: <=100 unacknowledged QoS>0 forwards, non-zero packet ids unique among them; at every idle point the whole backlog on all subscriptions has been delivered with no stimulus other than acks/Ready. Second campaign: one client sends unsolicited PUBACK/PUBREC/PUBCOMP; that connection must be closed and every other client's streams stay exact. Non-trivial: the window reached 100 and >=2 ack rounds were needed (main); an unsolicited ack closed a connection while forwards were flowing (second). Third campaign: ".to_string() + crate::fullstack::flow::FLOW_RULE,
        assumptions: vec!["The client-side count (forwards drained minus acks pushed) is a lower bound of the broker-side count, so exceeding 100 there is a violation; the converse is not observable from a client".into(), "e5_flow: a QoS 2 publish is accepted when the broker handles its PUBREL (rumqttd appends it to the log then, MQTT allows either point), so a chunk is expected as its QoS 0/1 messages in sending order followed by its QoS 2 messages in release order".into()],
        min_nontrivial: 50,
    }
}
