//! C10 — inbound flows answered correctly, notifications in order, write <=> announce
//! (E6: state-machine layer). The event-loop layer (E7) adds its campaigns in `plan()`.

use crate::clientstate::campaign::{probe, shape, StateCampaign};
use crate::clientstate::gen::{GenCfg, Limits, Versions, Weights};
use crate::clientstate::interp::Run;
use crate::clientstate::*;
use crate::engine::*;

fn nontrivial(r: &Run) -> Option<String> {
    let s = &r.st;
    if s.in_qos2_flows > 0 && s.rejected_acks > 0 {
        Some(format!("{} manual_acks={}", shape(r), r.m.manual))
    } else {
        None
    }
}

pub fn e6_campaigns(_tier: Tier) -> Vec<Box<dyn DynCampaign>> {
    let mut v: Vec<Box<dyn DynCampaign>> = vec![Box::new(StateCampaign {
        name: "c10_inbound",
        gen: GenCfg { versions: Versions::Both, limits: Limits::Shared, w: Weights::INBOUND, max_ops: 200, manual_8: 3 },
        cfg: Cfg::main(G10),
        quick: 50_000,
        thorough: 1_500_000,
        probes: vec![],
        nontrivial,
    })];
    let g = GenCfg { versions: Versions::V5, limits: Limits::Tiny, w: Weights::QOS2_COLLISIONS, max_ops: 60, manual_8: 0 };
    v.push(Box::new(probe("c10_probe_k3", R_K3, G10, g, vec!["c10:announced_not_written_on_error:publish@v5"], nontrivial)));
    let g = GenCfg { versions: Versions::V5, limits: Limits::Shared, w: Weights::INBOUND, max_ops: 40, manual_8: 3 };
    v.push(Box::new(probe("c10_probe_k5", R_K5, G10, g, vec!["c10:announced_not_written:disconnect@v5"], nontrivial)));
    v
}

pub fn plan(tier: Tier) -> Plan {
    let mut campaigns = e6_campaigns(tier);
    // E7 (event loop) campaigns are appended here
    campaigns.extend(crate::clientloop::props::c10_campaigns());
    Plan {
        campaigns,
        enumerators: crate::clientloop::props::c10_enumerators(),
        rule: "E6: histories dominated by broker packets (inbound PUBLISH QoS 0/1/2 with small / arbitrary / zero / 65535 / repeated ids, v5 topic aliases defined / known / unknown / empty topic, PUBREL for recorded and unknown ids, PUBACK/PUBREC/PUBCOMP solicited, duplicate, unsolicited, above the limit, zero, of the wrong flow, SUBACK, UNSUBACK, PINGRESP, server DISCONNECT, mid-stream CONNACK) interleaved with user requests and failures; manual_acks on in 3/8 of the cases; v4 and v5. Every call runs under catch_unwind. For each received packet exactly one Incoming notification equal to it is appended and it precedes every Outgoing notification of that call; QoS 1 -> PUBACK(id), QoS 2 -> PUBREC(id), PUBREL of a recorded id -> PUBCOMP(id), no PUBACK/PUBREC with manual_acks; an ack the reference model never solicited must return Err and leave inflight() and the clean() set equal to the model; a call returns a packet iff it appended exactly one Outgoing notification of the same kind and id (a collision: AwaitAck and no packet), and an Err announces nothing. A case is non-trivial when it contains >= 1 completed inbound QoS 2 flow (PUBLISH, PUBREL, PUBCOMP) and >= 1 rejected acknowledgement. Distinct = distinct case hash.".to_string() + crate::clientloop::props::C10_RULE,
        assumptions: vec![
            "User requests are fed to the state machine only when EventLoop::select() would feed them: inflight() < limit (v5: < min(limit, receive_max)) and no collision pending; otherwise the op is skipped and counted. The replay of `pending` after a resumed reconnect is fed unconditionally, as the event loop does.".into(),
            "A failure is modelled exactly as the event loop handles any error: clean(); pending kept iff the generated session_present; v5: CONNACK fed to the state machine; pending replayed in order before anything else. Requests still queued in the channel at failure time (K2, repaired in /repo) belong to the event-loop engine and are not generated here.".into(),
            "Every Err returned by the state machine (rejected ack, keep-alive error, server DISCONNECT) is followed by that failure handling, as in EventLoop::poll().".into(),
            "PUBCOMP in manual_acks mode: the client API has no way to send it; answering a release of a recorded id with PUBCOMP or not at all are both accepted in that mode.".into(),
            "PUBREL of an id that is not recorded (or was recorded on a previous connection): Err, no reply or PUBCOMP are all accepted (the statement only covers known ids).".into(),
            "Unsolicited SUBACK/UNSUBACK are not required to be errors (the state machine keeps no table for them); they must not panic and must announce nothing.".into(),
            "A v5 publish with an empty topic and no resolvable alias is malformed: only totality and write<=>announce are asserted for it (a DISCONNECT reply ends the connection).".into(),
        ],
        min_nontrivial: 5000,
    }
}
