//! C02 — the client never loses an accepted QoS 1/2 publish (E6: state-machine layer).
//!
//! The event-loop layer (E7) adds its campaigns to the same plan: push them in `plan()`.

use crate::clientstate::campaign::{probe, shape, StateCampaign};
use crate::clientstate::gen::{GenCfg, Limits, Versions, Weights};
use crate::clientstate::interp::Run;
use crate::clientstate::*;
use crate::engine::*;

fn nontrivial(r: &Run) -> Option<String> {
    let s = &r.st;
    if s.collisions > 0 || s.fail_resumed_unacked > 0 {
        Some(format!("{} collision={} resumed_with_unacked={}", shape(r), s.collisions > 0, s.fail_resumed_unacked > 0))
    } else {
        None
    }
}

pub fn e6_campaigns(_tier: Tier) -> Vec<Box<dyn DynCampaign>> {
    let mut v: Vec<Box<dyn DynCampaign>> = vec![Box::new(StateCampaign {
        name: "c02_state",
        gen: GenCfg { versions: Versions::Both, limits: Limits::Shared, w: Weights::SHARED, max_ops: 200, manual_8: 2 },
        cfg: Cfg::main(G02),
        quick: 50_000,
        thorough: 1_500_000,
        probes: vec![],
        nontrivial,
    })];
    let tiny = |versions, w| GenCfg { versions, limits: Limits::Tiny, w, max_ops: 60, manual_8: 0 };
    v.push(Box::new(probe("c02_probe_k1", R_K1, G02, tiny(Versions::V4, Weights::QOS2_COLLISIONS), vec!["c02:lost_publish:inflight:after=pubcomp@v4"], nontrivial)));
    v.push(Box::new(probe("c02_probe_k3", R_K3, G02, tiny(Versions::V5, Weights::QOS2_COLLISIONS), vec!["c02:lost_publish:blocked:after=bad_pubcomp@v5", "c02:lost_publish:inflight:after=pubcomp@v5"], nontrivial)));
    let g = GenCfg { versions: Versions::V5, limits: Limits::Small8, w: Weights::FAILS, max_ops: 60, manual_8: 0 };
    v.push(Box::new(probe("c02_probe_k8", R_K8, G02, g, vec!["c02:publish_rejected:Unsolicited@v5"], nontrivial)));
    v
}

pub fn plan(tier: Tier) -> Plan {
    let mut campaigns = e6_campaigns(tier);
    // E7 (event loop) campaigns are appended here
    campaigns.extend(crate::clientloop::props::c02_campaigns());
    Plan {
        campaigns,
        enumerators: crate::clientloop::props::c02_enumerators(),
        rule: "E6: cases are histories (<= 200 ops) over {publish QoS 0/1/2 with a unique payload, subscribe, unsubscribe, manual PUBACK/PUBREC, ping, disconnect; broker PUBACK/PUBREC/PUBCOMP for a generated choice among the currently unacknowledged ids (so acks are out of order and id wrap-around collisions are common), duplicate / unsolicited / out-of-range / zero ids, acks of the wrong flow, v5 reason codes, inbound publishes and releases, SUBACK, UNSUBACK, PINGRESP, server DISCONNECT, mid-stream CONNACK; connection failure with generated session_present and receive_max} run against rumqttc::MqttState and rumqttc::v5::MqttState with inflight limit in {1..6 biased, 10, 100, 65535} and manual_acks on/off. A reference model (payload serial -> in flight(id) / awaiting PUBCOMP(id) / parked on a collision / done) is stepped in lock-step; after EVERY op the set revealed by clean() on a clone, united with `collision`, must equal the model's not-done set in both directions (same payload, id, QoS; a PUBREL exactly for the ids between PUBREC and PUBCOMP), and after a resumed reconnect every element must be returned for the wire again by the replay. A case is non-trivial when it contains >= 1 packet-id collision, or a failure while >= 1 QoS>0 publish was unacknowledged followed by a resumed session. Distinct = distinct case hash.".to_string() + crate::clientloop::props::C02_RULE,
        assumptions: vec![
            "User requests are fed to the state machine only when EventLoop::select() would feed them: inflight() < limit (v5: < min(limit, receive_max)) and no collision pending; otherwise the op is skipped and counted. The replay of `pending` after a resumed reconnect is fed unconditionally, as the event loop does.".into(),
            "A failure is modelled exactly as the event loop handles any error: clean(); pending kept iff the generated session_present; v5: CONNACK fed to the state machine; pending replayed in order before anything else. Requests still queued in the channel at failure time (K2, repaired in /repo) belong to the event-loop engine and are not generated here.".into(),
            "Every Err returned by the state machine (rejected ack, keep-alive error, server DISCONNECT) is followed by that failure handling, as in EventLoop::poll().".into(),
            "An acknowledgement of the wrong flow for an id in flight (PUBACK for a QoS 2 publish, PUBREC for a QoS 1 publish) may be rejected or accepted; either way the bookkeeping must follow the outcome.".into(),
        ],
        min_nontrivial: 5000,
    }
}
