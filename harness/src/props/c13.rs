//! C13 — commit log reads return exactly the retained suffix; retention is bounded.
//!
//! Code under test: `rumqttd::verif::CommitLog` (rumqttd/src/segments). Engine: `crate::commitlog`.

use crate::commitlog::*;
use crate::engine::*;
use proptest::prelude::*;
use serde_json::json;

pub struct Sequences;

fn bucket(n: u64) -> &'static str {
    match n {
        0 => "0",
        1 => "1",
        2..=4 => "2-4",
        _ => "5+",
    }
}

fn letters(bits: u8, names: [&'static str; 4]) -> String {
    let mut s = String::new();
    for (i, n) in names.iter().enumerate() {
        if bits & (1 << i) != 0 {
            s.push_str(n);
        }
    }
    s
}

/// Runs the case and turns the interpreter's statistics into classes / non-triviality
pub fn check_case(case: &Case, obs: &mut Obs) -> Result<(), Failure> {
    let st = run_case(case, obs)?;
    obs.class_if(st.evictions > 0, "has_eviction");
    obs.class_if(st.evictions >= 5, "has_5+_evictions");
    obs.class_if(st.stale_reads > 0, "read_through_stale_cursor");
    obs.class_if(st.cross_reads > 0, "read_crossing_segment_boundary");
    obs.class_if(st.boundary_cursor_reads > 0, "read_through_end_of_segment_cursor");
    obs.class_if(st.len0_reads > 0, "read_len_0");
    obs.class_if(st.done_reads > 0, "read_reported_caught_up");
    obs.class_if(st.next_reads > 0, "read_reported_more");
    obs.class_if(st.chained_reads > 0, "read_through_continuation");
    obs.class_if(st.fab_reads > 0, "fabricated_cursor_read");
    obs.class_if(st.big_entries > 0, "entry_larger_than_segment");
    obs.class_if(case.max_segs == 1, "limit_1_segment");
    obs.class_if(st.max_segments_seen >= case.max_segs, "segment_limit_reached");
    obs.count("appends", st.appends);
    obs.count("reads_issued_cursor", st.reads);
    obs.count("reads_fabricated_cursor", st.fab_reads);
    obs.count("reads_stale", st.stale_reads);
    obs.count("reads_cross_segment", st.cross_reads);
    obs.count("evictions", st.evictions);
    obs.count("reads_len_u64_max", st.huge_len_reads);
    obs.count("reads_start_jumped_without_data_loss", st.jumps_without_loss);
    if (st.stale_reads > 0 && st.evictions > 0) || st.cross_reads > 0 {
        obs.nontrivial(format!(
            "segs={} evictions={} cursors={} lens={}",
            case.max_segs,
            bucket(st.evictions),
            letters(st.nt_cursor, ["tail,", "tag,", "cont,", "stale,"]),
            letters(st.nt_len, ["0,", "1,", "few,", "many,"]),
        ));
    }
    Ok(())
}

impl Campaign for Sequences {
    type Case = Case;
    fn name(&self) -> &'static str {
        "sequences"
    }
    fn cases(&self, tier: Tier) -> u64 {
        tier.pick(40_000, 2_000_000)
    }
    fn strategy(&self, tier: Tier) -> BoxedStrategy<Case> {
        case(tier.pick(400, 400)).boxed()
    }
    fn check(&self, c: &Case, obs: &mut Obs) -> Result<(), Failure> {
        check_case(c, obs)
    }
    fn max_shrink_iters(&self, _tier: Tier) -> u32 {
        20_000
    }
}

/// The enumerator's alphabet: two append sizes (two "small" fill a 1024-byte segment, one "big"
/// overfills it) and four reads through issued cursors (oldest / middle / newest of the pool)
fn enum_ops() -> Vec<Op> {
    vec![
        Op::Append { size: 600 },
        Op::Append { size: 1100 },
        Op::Read { sel: 0, pick: 0, len_ix: 1 },
        Op::Read { sel: 0, pick: 0x8000, len_ix: 2 },
        Op::Read { sel: 0, pick: u16::MAX, len_ix: 2 },
        Op::Read { sel: 0, pick: 0, len_ix: 5 },
    ]
}

/// Exhaustive: every op sequence of length <= n over `enum_ops()` for max_mem_segments 1 and 2
fn enumerate(rep: &mut Report, n: u32) {
    let alphabet = enum_ops();
    let a = alphabet.len() as u64;
    let threads = 16u64;
    struct Acc {
        evals: u64,
        nontrivial: u64,
        evicting: u64,
        first_fail: Option<(Case, Failure)>,
        sample: Option<Case>,
    }
    let alphabet = &alphabet;
    let accs: Vec<Acc> = std::thread::scope(|s| {
        let hs: Vec<_> = (0..threads)
            .map(|t| {
                s.spawn(move || {
                    let mut acc = Acc { evals: 0, nontrivial: 0, evicting: 0, first_fail: None, sample: None };
                    for max_segs in 1..=2usize {
                        for len in 0..=n {
                            let total = a.pow(len);
                            let mut code = t;
                            while code < total {
                                let mut ops = Vec::with_capacity(len as usize);
                                let mut c = code;
                                for _ in 0..len {
                                    ops.push(alphabet[(c % a) as usize].clone());
                                    c /= a;
                                }
                                let case = Case { seg_size: 1024, max_segs, ops };
                                let mut obs = Obs::default();
                                let r = match guard("harness", || check_case(&case, &mut obs)) {
                                    Ok(r) => r,
                                    Err(f) => Err(f),
                                };
                                acc.evals += 1;
                                if obs.classes.contains(&"has_eviction") {
                                    acc.evicting += 1;
                                }
                                if obs.nontrivial.is_some() {
                                    acc.nontrivial += 1;
                                    if acc.sample.is_none() && len == n && obs.classes.contains(&"read_through_stale_cursor") {
                                        acc.sample = Some(case.clone());
                                    }
                                }
                                if let Err(f) = r {
                                    if acc.first_fail.is_none() {
                                        acc.first_fail = Some((case, f));
                                    }
                                }
                                code += threads;
                            }
                            tick();
                        }
                    }
                    acc
                })
            })
            .collect();
        hs.into_iter().map(|h| h.join().unwrap()).collect()
    });
    let mut evals = 0;
    for acc in accs {
        evals += acc.evals;
        rep.evaluations += acc.evals;
        rep.enumerated_nontrivial += acc.nontrivial;
        *rep.classes.entry("enum:has_eviction".into()).or_insert(0) += acc.evicting;
        *rep.classes.entry("enum:nontrivial".into()).or_insert(0) += acc.nontrivial;
        if let Some(s) = acc.sample {
            if !rep.samples.iter().any(|v| v["campaign"] == "enum") {
                rep.samples.push(json!({"campaign": "enum", "case": s}));
            }
        }
        if let Some((case, f)) = acc.first_fail {
            // keep the shortest failing sequence per signature
            let sz = case.ops.len();
            match rep.violations.iter_mut().find(|v| v.failure.signature == f.signature) {
                Some(v) => {
                    let cur = v.case["ops"].as_array().map(|a| a.len()).unwrap_or(usize::MAX);
                    if sz < cur {
                        v.case = serde_json::to_value(&case).unwrap();
                        v.failure = f;
                    }
                }
                None => rep.violations.push(FoundViolation {
                    campaign: "sequences".into(),
                    failure: f,
                    case: serde_json::to_value(&case).unwrap(),
                    shrunk: false,
                }),
            }
        }
    }
    rep.exhaustive_subdomains.push(format!(
        "all {evals} op sequences of length <= {n} over {{append 600 B, append 1100 B, read oldest issued cursor len 1, read middle issued cursor len 2, read newest issued cursor len 2, read oldest issued cursor len 100}} with max_segment_size 1024 and max_mem_segments 1 and 2"
    ));
}

pub fn plan(tier: Tier) -> Plan {
    let n = tier.pick(7, 9);
    Plan {
        campaigns: vec![Box::new(crate::fuzzdec::FuzzReplay("fuzz_commitlog", "commitlog")), Box::new(Sequences)],
        enumerators: vec![Box::new(move |rep| enumerate(rep, n))],
        rule: "A case is a CommitLog configuration (max_segment_size in {1024,1500,4096}, max_mem_segments in 1..=5) and a sequence of up to 400 operations: appends of 1-64 B, 400-1100 B, 1025-6000 B or of exactly the size that fills the newest segment to max_segment_size+delta; reads through a cursor drawn from the pool of cursors the log issued so far (every next_offset(), every append() return value, every entry tag seen in a read, every Position.end of an earlier read; the sub-pool - all / most recent / continuations / tags / tails / still-retained / end-of-segment cursors - and the element are part of the case) with len in {0,1,2,3,10,100,10^6,u64::MAX}; reads through fabricated cursors (arbitrary u64, u64::MAX-d, live head/tail +-d, mixed components of issued cursors; no-panic clause only). After every append a full scan from (0,0) observes the retained suffix and checks the retention clauses. A case is non-trivial when it contains a read through a cursor that denotes an already discarded entry (after at least one eviction) or a read that crosses a segment boundary (returned tags carry two segment numbers, or the first returned tag is in another segment than the cursor). Shape = (max_mem_segments, eviction-count bucket, cursor classes and len classes of the non-trivial reads). Additionally every op sequence up to a length bound over a six-letter alphabet is enumerated for limits 1 and 2.".into(),
        assumptions: vec![
            "max_mem_segments counts the active segment: the field comment says 'apart from the active segment', but the unit tests ('1 as active only' for 1, '1 as active 1 as inactive' for 2, log.len()==2 with limit 2), apply_retention and the statement ('keeps at most the configured number of segments') all mean total segments <= max_mem_segments; the stricter reading is asserted".into(),
            "CommitLog::new panics for max_segment_size < 1024 and for max_mem_segments < 1 (constructor precondition, a broker with such a config does not start); only accepted configurations are generated, so segment sizes 10/64 and a limit of 0 are outside the domain".into(),
            "append() returns the log tail right after the append (unit test inmemory_appends_and_retention_policy_works expects (0, i+1) for the i-th append, the router logs it as the exclusive end '[seg, off)'); it is put into the cursor pool as a tail cursor denoting the next entry, not as the entry's own offset; an entry's own offset is the tag it carries in readv output".into(),
            "Position.start: must be the tag of the oldest retained entry when the cursor denoted a discarded entry (unit test read_jump_from_deleted_segment_works; the router raises a cursor-jump alert from it), must equal the cursor when the cursor denotes an entry newer than the oldest retained one, and may be either when the cursor denotes exactly the oldest retained entry (end-of-segment cursor whose segment has just been discarded: no data was skipped)".into(),
            "len = 0 is reachable from forward_device_data (retained messages can use up all slots before native_readv): nothing may be returned and 'caught up' must still be reported exactly when no retained entry remains at/after the cursor, otherwise the router would park a subscriber that still has data".into(),
            "Absolute offsets of consecutive entries differ by exactly 1 and an entry's tag never changes (doc comment of Segment::absolute_offset, unit tests); segments are closed only when their size reached max_segment_size and discarded only when max_mem_segments segments are in use (struct doc comment)".into(),
            "len has no documented upper bound: the router passes the u64 setting max_outgoing_packet_count for QoS 0 subscriptions, so u64::MAX ('unlimited') is a legal requested count and is generated".into(),
            "Fabricated cursors (never issued by the log) are checked for the no-panic clause only; their continuations are not added to the pool".into(),
        ],
        min_nontrivial: tier.pick(150_000, 1_000_000),
    }
}
