//! C11 — on resume the client retransmits first and in original order (E6: `clean()` order,
//! MQTT 3.1.1 state machine). The event-loop layer (E7) adds its campaigns in `plan()`.

use crate::clientstate::campaign::{probe, shape, StateCampaign};
use crate::clientstate::gen::{GenCfg, Limits, Versions, Weights};
use crate::clientstate::interp::Run;
use crate::clientstate::*;
use crate::engine::*;
use crate::clientstate::interp::{St, Stop};
use serde_json::json;

fn nontrivial(r: &Run) -> Option<String> {
    let s = &r.st;
    if s.fail_wrapped2 > 0 {
        Some(format!("{} wraps={}", shape(r), if s.wraps > 2 { "3+" } else { "1-2" }))
    } else {
        None
    }
}

fn nontrivial_mixed(r: &Run) -> Option<String> {
    let s = &r.st;
    if s.order_checks_mixed2 > 0 {
        Some(format!("{} wraps={}", shape(r), if s.wraps > 2 { "3+" } else { "1-2" }))
    } else {
        None
    }
}

pub fn e6_campaigns(_tier: Tier) -> Vec<Box<dyn DynCampaign>> {
    let mut v: Vec<Box<dyn DynCampaign>> = vec![Box::new(StateCampaign {
        name: "c11_order",
        gen: GenCfg { versions: Versions::V4, limits: Limits::Small8, w: Weights::ORDER, max_ops: 200, manual_8: 1 },
        cfg: ORDER_CFG,
        quick: 50_000,
        thorough: 1_500_000,
        probes: vec![],
        nontrivial,
    })];
    // mixed QoS 1 / QoS 2 traffic, PUBACKs in send order, QoS 2 flows completing anywhere; the order
    // of the QoS 1 subsequence is asserted inside the region where the rotation is right by design
    v.push(Box::new(StateCampaign {
        name: "c11_order_mixed",
        gen: GenCfg { versions: Versions::V4, limits: Limits::Small8, w: Weights::ORDER_MIXED, max_ops: 120, manual_8: 1 },
        cfg: Cfg { groups: G11 | G11M, allow: 0, force_resume: true },
        quick: 40_000,
        thorough: 1_000_000,
        probes: vec![],
        nontrivial: nontrivial_mixed,
    }));
    let g = GenCfg { versions: Versions::V4, limits: Limits::Small8, w: Weights::ORDER_GAPS, max_ops: 60, manual_8: 0 };
    v.push(Box::new(probe("c11_probe_k9", R_K9, G11, g, vec!["c11:clean_order@v4"], nontrivial)));
    v
}

const ORDER_CFG: Cfg = Cfg { groups: G11, allow: 0, force_resume: true };

struct EnumAcc {
    nodes: u64,
    nontrivial: u64,
    max_wraps: u64,
    fail: Option<(Vec<Op>, Failure)>,
    sample: Option<Vec<Op>>,
}

/// Depth-first over every sequence of {publish QoS 1, PUBACK for the oldest unacknowledged
/// publish} whose ops are all enabled (a publish only while the event loop would take it, an
/// ack only while something is unacknowledged). `apply` runs the order oracle on a clone's
/// `clean()` after every op, i.e. at every prefix.
fn dfs(run: &Run, ops: &mut Vec<Op>, left: usize, acc: &mut EnumAcc) {
    acc.nodes += 1;
    let ids: Vec<u16> = run.m.live.iter().filter(|e| e.st == St::InFlight).map(|e| e.pkid).collect();
    if ids.len() >= 2 && ids.windows(2).any(|w| w[0] > w[1]) {
        acc.nontrivial += 1;
        if acc.sample.is_none() && run.st.wraps >= 2 {
            acc.sample = Some(ops.clone());
        }
    }
    acc.max_wraps = acc.max_wraps.max(run.st.wraps);
    if left == 0 || acc.fail.is_some() {
        return;
    }
    for op in [Op::Pub { qos: 1 }, Op::AckOldest] {
        let mut next = run.clone();
        match next.apply(&op) {
            Ok(true) => {
                ops.push(op);
                dfs(&next, ops, left - 1, acc);
                ops.pop();
            }
            Ok(false) => {}
            Err(Stop::Foreign) => {}
            Err(Stop::Fail(f)) => {
                ops.push(op);
                if acc.fail.is_none() {
                    acc.fail = Some((ops.clone(), f));
                }
                ops.pop();
            }
        }
    }
}

fn enumerate(rep: &mut Report, max_len: usize) {
    let accs: Vec<(u16, EnumAcc)> = std::thread::scope(|s| {
        let hs: Vec<_> = (1u16..=8)
            .map(|limit| {
                s.spawn(move || {
                    let mut acc = EnumAcc { nodes: 0, nontrivial: 0, max_wraps: 0, fail: None, sample: None };
                    let case = mk_case(limit, vec![]);
                    match Run::new(ORDER_CFG, &case) {
                        Ok(run) => dfs(&run, &mut Vec::new(), max_len, &mut acc),
                        Err(f) => acc.fail = Some((vec![], f)),
                    }
                    tick();
                    (limit, acc)
                })
            })
            .collect();
        hs.into_iter().map(|h| h.join().unwrap()).collect()
    });
    let mut total = 0;
    for (limit, a) in accs {
        total += a.nodes;
        rep.evaluations += a.nodes;
        rep.enumerated_nontrivial += a.nontrivial;
        *rep.counters.entry(format!("enum:sequences_limit_{limit}")).or_insert(0) += a.nodes;
        *rep.counters.entry(format!("enum:max_id_wraps_limit_{limit}")).or_insert(0) += a.max_wraps;
        if let Some(ops) = a.sample {
            if rep.samples.len() < 3 {
                rep.samples.push(json!({"campaign": "enum", "case": {"version": "v4", "limit": limit, "ops": ops}}));
            }
        }
        if let Some((ops, f)) = a.fail {
            if !rep.violations.iter().any(|v| v.failure.signature == f.signature) {
                rep.violations.push(FoundViolation {
                    campaign: "c11_order".into(),
                    failure: f,
                    case: serde_json::to_value(mk_case(limit, ops)).unwrap(),
                    shrunk: false,
                });
            }
        }
    }
    rep.exhaustive_subdomains.push(format!(
        "MQTT 3.1.1 state machine, every inflight limit 1..=8: all {total} enabled sequences over {{publish QoS 1, PUBACK of the oldest unacknowledged publish}} of length <= {max_len}, clean() (on a clone) compared with the send order after every op"
    ));
}

fn mk_case(limit: u16, ops: Vec<Op>) -> Case {
    Case { v5: false, limit, manual_acks: false, resume_bits: u32::MAX, warmup_subs: 0, ops }
}

pub fn plan(tier: Tier) -> Plan {
    let max_len = tier.pick(18, 22);
    let mut campaigns = e6_campaigns(tier);
    // E7 (event loop) campaigns are appended here
    campaigns.extend(crate::clientloop::props::c11_campaigns());
    Plan {
        campaigns,
        enumerators: {
            let mut e: Vec<Box<dyn Fn(&mut Report) + Sync>> = vec![Box::new(move |rep| enumerate(rep, max_len))];
            e.extend(crate::clientloop::props::c11_enumerators());
            e
        },
        rule: "E6 (MQTT 3.1.1 state machine): (a) exhaustively, for every inflight limit 1..=8, every enabled sequence over {publish QoS 1, PUBACK of the oldest unacknowledged publish} up to a length bound, clean() evaluated on a clone after every op; (b) random histories (<= 200 ops, limits 1..=8) of QoS 1 publishes acknowledged in order, inbound traffic and failures that resume the session, so that ids wrap several times; (c) campaign c11_order_mixed: random histories (<= 120 ops) mixing QoS 1 and QoS 2 publishes, PUBACKs for the oldest unacknowledged QoS 1 publish, QoS 2 flows (PUBREC, PUBREL, PUBCOMP) completing at any point, where the QoS 1 subsequence of clean() is compared with the send order; non-trivial there = an order check with >= 2 wrapped QoS 1 publishes after QoS 2 traffic. Oracle: the publishes returned by clean() are exactly the unacknowledged ones in the order in which they were first sent. The order clause is asserted only while the history is one the statement covers ((a),(b): QoS 1 only, every ack was for the oldest unacknowledged publish, no rejected ack; (c): every PUBACK was for the oldest unacknowledged QoS 1 publish, no ack out of its flow). A case (for (a): a sequence) is non-trivial when clean() is evaluated with >= 2 unacknowledged publishes whose ids have wrapped (a later publish carries a smaller id). Enumerated sequences are distinct by construction, random ones by case hash.".to_string() + crate::clientloop::props::C11_RULE,
        assumptions: vec![
            "User requests are fed to the state machine only when EventLoop::select() would feed them: inflight() < limit (v5: < min(limit, receive_max)) and no collision pending; otherwise the op is skipped and counted. The replay of `pending` after a resumed reconnect is fed unconditionally, as the event loop does.".into(),
            "A failure is modelled exactly as the event loop handles any error: clean(); pending kept iff the generated session_present; v5: CONNACK fed to the state machine; pending replayed in order before anything else. Requests still queued in the channel at failure time (K2, repaired in /repo) belong to the event-loop engine and are not generated here.".into(),
            "Every Err returned by the state machine (rejected ack, keep-alive error, server DISCONNECT) is followed by that failure handling, as in EventLoop::poll().".into(),
            "Histories in which SUBSCRIBE/UNSUBSCRIBE consumed ids or a reconnect without session dropped publishes are outside the main campaign (known finding K9) and probed separately. In (c) completed QoS 2 flows consume ids the same way: the order is asserted only when the ids held, in send order, increase cyclically from the id after the last PUBACK (computed from the model); other histories are counted as excluded for K9.".into(),
        ],
        min_nontrivial: 3000,
    }
}
