//! C17 — shared subscriptions: exactly one member per message (DESIGN §5 C17).

use super::c01::avoid_all;
use crate::brokersim::campaign::SimCampaign;
use crate::brokersim::gen::GenCfg;
use crate::brokersim::observe::Flags;
use crate::brokersim::run::Stats;
use crate::brokersim::types::*;
use crate::engine::*;

fn members(h: &Hist) -> usize {
    let mut m: Vec<usize> = Vec::new();
    for op in &h.ops {
        if let Op::Subscribe { c, filters, .. } = op {
            if filters.iter().any(|(f, _)| f.starts_with("$share/")) && !m.contains(c) {
                m.push(*c);
            }
        }
    }
    m.len()
}

fn nontrivial(s: &Stats, h: &Hist) -> Option<String> {
    if members(h) < 2 || s.shared_forwards == 0 || s.group_membership_changes == 0 {
        return None;
    }
    Some(format!("strategy={} members={} changes={}", h.cfg.strategy, members(h).min(4), s.group_membership_changes.min(4)))
}

pub fn main_campaign() -> SimCampaign {
    SimCampaign {
        name: "shared",
        gen: GenCfg {
            min_clients: 3,
            max_clients: 5,
            max_chunks: 45,
            w_subscribe: 2,
            w_shared_sub: 12,
            w_unsubscribe: 4,
            w_publish: 20,
            w_burst: 4,
            w_release: 4,
            w_disconnect: 2,
            w_droplink: 3,
            w_reconnect: 4,
            w_turn: 8,
            w_drain: 8,
            w_ack: 5,
            w_settle: 3,
            p_manual_ack: 40,
            p_sub_id: 0,
            max_burst: 120,
            topics: ["a", "a/b", "a/c", "b", "b/c", "c", "c/d"].iter().map(|s| s.to_string()).collect(),
            // plain subscriptions of members never overlap the group filters (a/#, b/#): a forward is
            // then attributable to a group or to a plain subscription without ambiguity
            filters: ["c", "c/+", "c/#"].iter().map(|s| s.to_string()).collect(),
            ..GenCfg::default()
        },
        flags: Flags {
            shared: true,
            delivery: true,
            no_takeover: false,
            avoid: avoid_all(),
            ..Flags::default()
        },
        quick: 20000,
        thorough: 400000,
        nontrivial,
        probes: vec![],
        shape: None,
    }
}

/// R10 (repaired in /repo): a member that read to the end of the log while it was not its turn
/// is parked as caught up; when the turn then passed to it the pending message was not
/// forwarded until the next matching publish arrived. Completeness is demanded for every
/// strategy and after every membership change now; kept as a second run of the campaign.
pub fn probe_r10() -> SimCampaign {
    let mut c = main_campaign();
    c.name = "probe_r10_parked_member_stall";
    c.flags.avoid.group_stall = false;
    c.gen.w_droplink = 6;
    c.gen.w_unsubscribe = 8;
    c.quick = 3000;
    c.thorough = 60000;
    c.probes = vec!["shared:undelivered_at_idle"];
    c
}

/// R14 (repaired in /repo): one share name used with two different filters shared one group
/// (one cursor and turn for two different logs). Kept as a focused campaign: every second
/// subscription of share name g1 uses the other group's filter.
pub fn probe_r14() -> SimCampaign {
    let mut c = main_campaign();
    c.name = "probe_r14_share_name_two_filters";
    // no plain subscriptions here: the second filter of g1 is c/#, which they would overlap
    c.gen.w_subscribe = 0;
    c.gen.filters = vec!["zz".to_string()];
    c.quick = 4000;
    c.thorough = 80000;
    c.probes = vec!["shared:undelivered_at_idle", "shared:delivered_twice", "shared:member_order", "delivery:matches_no_subscription", "delivery:outside_subscription_lifetime"];
    c.shape = Some(|mut h: Hist| {
        // every second shared subscription of share name g1 is on c/# instead of a/# (a filter
        // no other group reads, so that a forward still names its group without ambiguity)
        let mut k = 0;
        for op in h.ops.iter_mut() {
            if let Op::Subscribe { filters, .. } = op {
                for (f, _) in filters.iter_mut() {
                    if f.starts_with("$share/g1/") {
                        k += 1;
                        if k % 2 == 0 {
                            *f = "$share/g1/c/#".to_string();
                        }
                    }
                }
            }
        }
        h
    });
    c
}

/// The turn is on a member whose window is full (it never acknowledges on its own), the other
/// members have read the pending messages and are parked; then the generated part of the
/// history makes members leave (which may move the turn by shifting the index) before anybody
/// acknowledges. Whoever the turn is on afterwards must take the backlog.
pub fn turn_shift_campaign() -> SimCampaign {
    let mut c = main_campaign();
    c.name = "turn_shift";
    c.gen.min_clients = 3;
    c.gen.max_clients = 3;
    c.gen.max_chunks = 12;
    c.gen.w_publish = 4;
    c.gen.w_burst = 0;
    c.gen.w_unsubscribe = 14;
    c.gen.w_droplink = 8;
    c.gen.w_disconnect = 4;
    c.gen.w_reconnect = 2;
    c.gen.w_shared_sub = 4;
    c.gen.w_ack = 1;
    c.gen.w_settle = 0;
    c.gen.w_subscribe = 0;
    c.gen.filters = vec!["zz".to_string()];
    c.quick = 3000;
    c.thorough = 60000;
    c.shape = Some(|mut h: Hist| {
        h.cfg.strategy = 0;
        h.cfg.max_out = 200;
        h.cfg.seg_size = 65536;
        h.cfg.seg_count = 3;
        for (i, cl) in h.clients.iter_mut().enumerate() {
            cl.auto_ack = i != 2;
            cl.auto_ready = true;
        }
        let f = "$share/g1/a/#".to_string();
        let mut pre: Vec<Op> = Vec::new();
        for c in 0..3 {
            pre.push(Op::Connect { c, clean: true, will: None, alias_max: 0 });
        }
        pre.push(Op::Turn { n: 3 });
        // the last member's window is filled through a plain subscription of its own (it never
        // acknowledges on its own), so that nothing of the group is in flight towards it
        pre.push(Op::Subscribe { c: 2, filters: vec![("c".to_string(), 1)], sub_id: None, notify: true });
        pre.push(Op::Turn { n: 2 });
        for k in 0..100usize {
            pre.push(Op::Publish { c: 0, topic: "c".into(), qos: 1, retain: false, size: 8, props: None, notify: k % 10 == 9, dup: false });
        }
        for _ in 0..4 {
            pre.push(Op::Turn { n: 40 });
            for c in 0..3 {
                pre.push(Op::Drain { c });
            }
        }
        for c in 0..3 {
            pre.push(Op::Subscribe { c, filters: vec![(f.clone(), 1)], sub_id: None, notify: true });
            pre.push(Op::Turn { n: 2 });
        }
        // one message each for the first two members, then the turn is on the blocked one
        let extra = 3 + h.ops.len() % 3;
        for _ in 0..extra {
            pre.push(Op::Publish { c: 0, topic: "a".into(), qos: 1, retain: false, size: 8, props: None, notify: true, dup: false });
            pre.push(Op::Turn { n: 6 });
        }
        for _ in 0..2 {
            pre.push(Op::Turn { n: 20 });
            for c in 0..3 {
                pre.push(Op::Drain { c });
            }
        }
        // the generated part: no connects of its own at the start (the members are connected)
        let rest: Vec<Op> = h.ops.drain(..).skip_while(|o| matches!(o, Op::Connect { .. } | Op::Turn { .. })).collect();
        // in half of the cases the first member (ahead of the turn index) leaves at once and
        // the blocked turn holder's link fails right after, before anything else happens
        if rest.len() % 2 == 0 {
            if rest.len() % 4 == 0 {
                pre.push(Op::Unsubscribe { c: 0, filters: vec![f.clone()], notify: true });
            } else {
                pre.push(Op::DropLink { c: 0 });
            }
            pre.push(Op::Turn { n: 4 });
            pre.push(Op::DropLink { c: 2 });
            pre.push(Op::Turn { n: 4 });
        }
        h.ops = pre;
        h.ops.extend(rest);
        h
    });
    c.nontrivial = |s, _| if s.saw_inflight_full && s.group_membership_changes > 0 && s.shared_forwards >= 2 { Some("full_window_then_membership_change".into()) } else { None };
    c
}

pub fn plan(_tier: Tier) -> Plan {
    Plan {
        campaigns: vec![Box::new(main_campaign()), Box::new(turn_shift_campaign()), Box::new(probe_r10()), Box::new(probe_r14())],
        enumerators: vec![],
        rule: "Histories with 1-2 shared groups ($share/g1/.., $share/g2/..) and 3-5 clean-session clients joining, leaving (UNSUBSCRIBE of the group filter, DISCONNECT, link failure, reconnect), bursts and single publishes, per-member ack pacing, the three balancing strategies, QoS 0-2. Oracle over all members' streams: a message is forwarded through a group at most once in total, only to a client that was a member at some moment between the message's acceptance and the delivery, each member's share is in acceptance order; at every idle point every matching message accepted since the group was created has been forwarded to some member (groups that were empty in between or exceeded retention excepted). Campaign turn_shift: the last member's window is filled through a plain subscription of its own, one message per other member is forwarded, the rest is pending with the others parked; then members leave (index shift, blocked holder failing) before anybody acknowledges, and whoever holds the turn must take the backlog. Non-trivial: >=2 members, >=1 membership change, >=1 forward through a group.".into(),
        assumptions: vec![
            "Members use clean sessions (re-delivery after a session resume would make 'never twice' ambiguous)".into(),
            "Group members also unsubscribe from unrelated filters (R11 was repaired in /repo)".into(),
        ],
        min_nontrivial: 100,
    }
}
