//! One module per property: generator configuration, oracle clauses, non-triviality rule.
use crate::engine::{Plan, Tier};

pub mod c01;
pub mod c02;
pub mod c03;
pub mod c04;
pub mod c05;
pub mod c06;
pub mod c07;
pub mod c08;
pub mod c09;
pub mod c10;
pub mod c11;
pub mod c12;
pub mod c14;
pub mod c15;
pub mod c16;
pub mod c17;
pub mod c18;
pub mod c19;
pub mod c20;
pub mod c13;

pub const ALL: &[&str] = &[
    "C01", "C02", "C03", "C04", "C05", "C06", "C07", "C08", "C09", "C10", "C11", "C12", "C13",
    "C14", "C15", "C16", "C17", "C18", "C19", "C20",
];

pub fn plan(id: &str, tier: Tier) -> Option<Plan> {
    match id {
        "C01" => Some(c01::plan(tier)),
        "C02" => Some(c02::plan(tier)),
        "C03" => Some(c03::plan(tier)),
        "C04" => Some(c04::plan(tier)),
        "C05" => Some(c05::plan(tier)),
        "C06" => Some(c06::plan(tier)),
        "C07" => Some(c07::plan(tier)),
        "C08" => Some(c08::plan(tier)),
        "C09" => Some(c09::plan(tier)),
        "C10" => Some(c10::plan(tier)),
        "C11" => Some(c11::plan(tier)),
        "C12" => Some(c12::plan(tier)),
        "C13" => Some(c13::plan(tier)),
        "C14" => Some(c14::plan(tier)),
        "C15" => Some(c15::plan(tier)),
        "C16" => Some(c16::plan(tier)),
        "C17" => Some(c17::plan(tier)),
        "C18" => Some(c18::plan(tier)),
        "C19" => Some(c19::plan(tier)),
        "C20" => Some(c20::plan(tier)),
        _ => None,
    }
}
