//! C12 — topic matching / validation follow the MQTT rules in every copy.
//!
//! Three copies under test: rumqttc v4 (`rumqttc::{matches,valid_filter,valid_topic,has_wildcards}`),
//! rumqttc v5 (`rumqttc::v5::mqttbytes::*`), rumqttd (`rumqttd::protocol::*`).
//! Oracle: the reference of `crate::topic`; no panic on any string; pairwise agreement.

use crate::engine::*;
use crate::topic::*;
use crate::{ensure};
use proptest::prelude::*;
use serde::{Deserialize, Serialize};
use serde_json::json;

pub const ALPHABET: [&str; 8] = ["a", "b", "/", "+", "#", "$", "é", "😀"];

#[derive(Clone, Debug, Serialize, Deserialize)]
pub struct Pair {
    pub topic: String,
    pub filter: String,
}

type F2 = fn(&str, &str) -> bool;
type F1 = fn(&str) -> bool;

struct Copy {
    name: &'static str,
    matches: F2,
    valid_filter: F1,
    valid_topic: F1,
    has_wildcards: F1,
}

const COPIES: [Copy; 3] = [
    Copy {
        name: "rumqttc_v4",
        matches: rumqttc::matches,
        valid_filter: rumqttc::valid_filter,
        valid_topic: rumqttc::valid_topic,
        has_wildcards: rumqttc::has_wildcards,
    },
    Copy {
        name: "rumqttc_v5",
        matches: rumqttc::v5::mqttbytes::matches,
        valid_filter: rumqttc::v5::mqttbytes::valid_filter,
        valid_topic: rumqttc::v5::mqttbytes::valid_topic,
        has_wildcards: rumqttc::v5::mqttbytes::has_wildcards,
    },
    Copy {
        name: "rumqttd",
        matches: rumqttd::protocol::matches,
        valid_filter: rumqttd::protocol::valid_filter,
        valid_topic: rumqttd::protocol::valid_topic,
        has_wildcards: rumqttd::protocol::has_wildcards,
    },
];

/// Validators on one string (each string is checked once, not once per pair)
pub fn check_string(s: &str) -> Result<(), Failure> {
    for c in &COPIES {
        let vf = guard(&format!("valid_filter:{}", c.name), || (c.valid_filter)(s))?;
        ensure!(
            vf == ref_valid_filter(s),
            format!("valid_filter_differs_from_reference:{}", c.name),
            "valid_filter({s:?}) = {vf}, MQTT rules say {}",
            ref_valid_filter(s)
        );
        let vt = guard(&format!("valid_topic:{}", c.name), || (c.valid_topic)(s))?;
        // the statement says only "topic names contain no wildcards": the empty string is
        // not judged against the reference (copies must still agree)
        if !s.is_empty() {
            ensure!(
                vt == ref_valid_topic(s),
                format!("valid_topic_differs_from_reference:{}", c.name),
                "valid_topic({s:?}) = {vt}, MQTT rules say {}",
                ref_valid_topic(s)
            );
        }
        ensure!(
            vt == guard("valid_topic", || (COPIES[0].valid_topic)(s))?,
            "valid_topic_copies_disagree",
            "valid_topic({s:?}) differs between {} and {}",
            c.name,
            COPIES[0].name
        );
        let hw = guard(&format!("has_wildcards:{}", c.name), || (c.has_wildcards)(s))?;
        ensure!(
            hw == ref_has_wildcards(s),
            format!("has_wildcards_differs_from_reference:{}", c.name),
            "has_wildcards({s:?}) = {hw}"
        );
    }
    Ok(())
}

pub fn pair_nontrivial(topic: &str, filter: &str) -> bool {
    ref_has_wildcards(filter)
        || topic.starts_with('$')
        || topic.chars().next().is_some_and(|c| c.len_utf8() > 1)
}

/// matches() on one pair: no panic, copies agree, and (valid topic x valid filter) equals reference
pub fn check_pair(topic: &str, filter: &str) -> Result<(), Failure> {
    let mut results = [false; 3];
    for (i, c) in COPIES.iter().enumerate() {
        results[i] = guard(&format!("matches:{}", c.name), || (c.matches)(topic, filter))?;
    }
    ensure!(
        results[0] == results[1] && results[1] == results[2],
        "matches_copies_disagree",
        "matches({topic:?},{filter:?}) = {results:?} for (v4, v5, broker)"
    );
    if ref_valid_topic(topic) && ref_valid_filter(filter) {
        let expect = ref_matches(topic, filter);
        for (i, c) in COPIES.iter().enumerate() {
            ensure!(
                results[i] == expect,
                format!("matches_differs_from_reference:{}", c.name),
                "matches({topic:?},{filter:?}) = {}, MQTT rules say {expect}",
                results[i]
            );
        }
    }
    Ok(())
}

pub struct Pairs;

fn level() -> impl Strategy<Value = String> {
    prop_oneof![
        4 => prop::sample::select(vec!["a", "b", "ab", "A", "sport", "é", "😀x", "$SYS", "$", " "]).prop_map(String::from),
        2 => Just(String::new()),
        2 => Just("+".to_string()),
        1 => Just("#".to_string()),
        1 => prop::sample::select(vec!["a+", "+a", "a#", "#a", "++", "é+", "$+"]).prop_map(String::from),
        1 => "[ab+#$/é]{1,3}",
    ]
}

fn levelwise(max: usize) -> impl Strategy<Value = String> {
    prop::collection::vec(level(), 0..=max).prop_map(|v| v.join("/"))
}

impl Campaign for Pairs {
    type Case = Pair;
    fn name(&self) -> &'static str {
        "pairs"
    }
    fn cases(&self, tier: Tier) -> u64 {
        tier.pick(200_000, 5_000_000)
    }
    fn strategy(&self, _tier: Tier) -> BoxedStrategy<Pair> {
        // topic and filter are built level-wise; with probability ~1/2 the filter is derived
        // from the topic by replacing levels with wildcards so that matches are frequent
        let derived = levelwise(8).prop_flat_map(|t| {
            let n = t.split('/').count();
            (Just(t), prop::collection::vec(0u8..6, n), 0u8..4)
        })
        .prop_map(|(t, edits, tail)| {
            let mut lv: Vec<String> = t.split('/').map(String::from).collect();
            for (l, e) in lv.iter_mut().zip(edits) {
                if e == 0 {
                    *l = "+".into();
                }
            }
            match tail {
                0 => lv.push("#".into()),
                1 => {
                    lv.pop();
                    lv.push("#".into());
                }
                _ => {}
            }
            Pair { topic: t, filter: lv.join("/") }
        });
        let indep = (levelwise(8), levelwise(8)).prop_map(|(topic, filter)| Pair { topic, filter });
        prop_oneof![derived, indep].boxed()
    }
    fn check(&self, p: &Pair, obs: &mut Obs) -> Result<(), Failure> {
        check_string(&p.topic)?;
        check_string(&p.filter)?;
        check_pair(&p.topic, &p.filter)?;
        if pair_nontrivial(&p.topic, &p.filter) {
            let m = ref_matches(&p.topic, &p.filter);
            obs.nontrivial(format!(
                "plus={} hash={} dollar={} multibyte={} match={}",
                p.filter.contains('+'),
                p.filter.contains('#'),
                p.topic.starts_with('$'),
                p.topic.chars().next().is_some_and(|c| c.len_utf8() > 1),
                m
            ));
            obs.class_if(m, "reference_says_match");
        }
        obs.class_if(ref_valid_filter(&p.filter), "valid_filter");
        obs.class_if(ref_valid_topic(&p.topic), "valid_topic");
        Ok(())
    }
}

fn strings_upto(n: usize) -> Vec<String> {
    let mut all = vec![String::new()];
    let mut prev = vec![String::new()];
    for _ in 0..n {
        let mut next = Vec::with_capacity(prev.len() * ALPHABET.len());
        for p in &prev {
            for a in ALPHABET {
                next.push(format!("{p}{a}"));
            }
        }
        all.extend(next.iter().cloned());
        prev = next;
    }
    all
}

/// Exhaustive enumeration of all (topic, filter) pairs over ALPHABET up to length n
fn enumerate(rep: &mut Report, n: usize) {
    let strings = strings_upto(n);
    let threads = 16usize;
    let strings_ref = &strings;
    struct Acc {
        evals: u64,
        nontrivial: u64,
        matched: u64,
        both_valid: u64,
        first_fail: Option<(Pair, Failure)>,
        samples: Vec<Pair>,
    }
    let accs: Vec<Acc> = std::thread::scope(|s| {
        let hs: Vec<_> = (0..threads)
            .map(|t| {
                s.spawn(move || {
                    let mut a = Acc { evals: 0, nontrivial: 0, matched: 0, both_valid: 0, first_fail: None, samples: vec![] };
                    for (i, topic) in strings_ref.iter().enumerate() {
                        if i % threads != t {
                            continue;
                        }
                        if let Err(f) = check_string(topic) {
                            if a.first_fail.is_none() {
                                a.first_fail = Some((Pair { topic: topic.clone(), filter: topic.clone() }, f));
                            }
                        }
                        let tv = ref_valid_topic(topic);
                        for filter in strings_ref.iter() {
                            a.evals += 1;
                            match check_pair(topic, filter) {
                                Ok(()) => {}
                                Err(f) => {
                                    if a.first_fail.is_none() {
                                        a.first_fail = Some((Pair { topic: topic.clone(), filter: filter.clone() }, f));
                                    }
                                }
                            }
                            if pair_nontrivial(topic, filter) {
                                a.nontrivial += 1;
                                if a.samples.len() < 1 && tv && ref_valid_filter(filter) && ref_matches(topic, filter) && topic.len() > 2 {
                                    a.samples.push(Pair { topic: topic.clone(), filter: filter.clone() });
                                }
                            }
                            if tv && ref_valid_filter(filter) {
                                a.both_valid += 1;
                                if ref_matches(topic, filter) {
                                    a.matched += 1;
                                }
                            }
                        }
                        tick();
                    }
                    a
                })
            })
            .collect();
        hs.into_iter().map(|h| h.join().unwrap()).collect()
    });
    let mut evals = 0;
    for a in accs {
        evals += a.evals;
        rep.evaluations += a.evals;
        rep.enumerated_nontrivial += a.nontrivial;
        *rep.classes.entry("enum:both_valid".into()).or_insert(0) += a.both_valid;
        *rep.classes.entry("enum:reference_says_match".into()).or_insert(0) += a.matched;
        for s in a.samples {
            if rep.samples.len() < 4 {
                rep.samples.push(json!({"campaign": "enum", "case": s}));
            }
        }
        if let Some((pair, f)) = a.first_fail {
            if !rep.violations.iter().any(|v| v.failure.signature == f.signature) {
                rep.violations.push(FoundViolation {
                    campaign: "pairs".into(),
                    failure: f,
                    case: serde_json::to_value(&pair).unwrap(),
                    shrunk: false,
                });
            }
        }
    }
    rep.exhaustive_subdomains.push(format!(
        "all {} (topic, filter) pairs of strings of length <= {} over the alphabet {:?}, three copies each",
        evals, n, ALPHABET
    ));
}

/// The broker's topic -> filters cache (`DataLog::matches` / `next_native_offset`, anchored by
/// the property): publishes and subscriptions interleaved over a dense topic / filter alphabet
/// against the real router, with the reference matcher deciding who must receive what. A filter
/// subscribed after a topic was first published to goes through the cache-update path.
pub fn cache_campaign() -> crate::brokersim::campaign::SimCampaign {
    use crate::brokersim::gen::GenCfg;
    use crate::brokersim::observe::Flags;
    use crate::brokersim::types::Op;
    let lv = ["a", "b", ""];
    let mut topics: Vec<String> = Vec::new();
    let mut filters: Vec<String> = vec!["#".into()];
    for x in lv {
        if !x.is_empty() {
            topics.push(x.to_string());
        }
        filters.push(format!("{x}/#"));
        for y in lv {
            topics.push(format!("{x}/{y}"));
            filters.push(format!("{x}/{y}/#"));
            for z in lv {
                topics.push(format!("{x}/{y}/{z}"));
            }
        }
    }
    let fl = ["a", "b", "", "+"];
    for x in fl {
        if !x.is_empty() {
            filters.push(x.to_string());
        }
        for y in fl {
            filters.push(format!("{x}/{y}"));
            for z in fl {
                filters.push(format!("{x}/{y}/{z}"));
            }
        }
    }
    for extra in ["é/x", "é", "A/b"] {
        topics.push(extra.to_string());
    }
    for extra in ["é/#", "é/+", "+/x", "A/#"] {
        filters.push(extra.to_string());
    }
    crate::brokersim::campaign::SimCampaign {
        name: "router_cache",
        gen: GenCfg {
            min_clients: 2,
            max_clients: 3,
            max_chunks: 40,
            w_subscribe: 14,
            w_unsubscribe: 3,
            w_publish: 24,
            w_burst: 0,
            w_release: 2,
            w_turn: 8,
            w_drain: 6,
            w_settle: 3,
            qos_weights: [6, 2, 1],
            p_manual_ack: 0,
            p_manual_ready: 0,
            p_props: 0,
            p_v5: 20,
            topics,
            filters,
            ..GenCfg::default()
        },
        flags: Flags { delivery: true, avoid: super::c01::avoid_all(), ..Flags::default() },
        quick: 6000,
        thorough: 150000,
        nontrivial: |s, h| {
            if s.forwards == 0 {
                return None;
            }
            // a subscription made after a publish: the new filter has to be added to cached topics
            let first_pub = h.ops.iter().position(|o| matches!(o, Op::Publish { .. }))?;
            let late_sub = h.ops.iter().skip(first_pub).any(|o| matches!(o, Op::Subscribe { .. }));
            if late_sub { Some("subscribe_after_publish".into()) } else { None }
        },
        probes: vec![],
        shape: None,
    }
}

pub fn plan(tier: Tier) -> Plan {
    let n = tier.pick(4, 5);
    Plan {
        campaigns: vec![Box::new(crate::fuzzdec::FuzzReplay("fuzz_topic", "topic")), Box::new(Pairs), Box::new(cache_campaign())],
        enumerators: vec![Box::new(move |rep| enumerate(rep, n))],
        rule: "Cases are (topic, filter) string pairs: every pair of strings up to a length bound over {a,b,/,+,#,$,é,😀} is enumerated exactly once (so enumerated cases are distinct by construction), plus random pairs built level-wise (literal, empty, '+', '#', malformed levels; half of the filters derived from the topic so matches are frequent). A pair is non-trivial when the filter contains a wildcard, or the topic starts with '$' or with a multi-byte character; random pairs are counted distinct by hash. Campaign router_cache: histories of SUBSCRIBE / UNSUBSCRIBE / PUBLISH over 41 topics and ~120 filters built from the levels a, b, empty, '+', trailing '#' (plus multi-byte and upper-case ones) from 2-3 clients against the real router (E4): every forward must be owed by the reference matcher and everything it owes must arrive, which decides DataLog's topic->filters cache (filters added after a topic was cached); non-trivial there: a SUBSCRIBE after the first PUBLISH and >=1 forward.".into(),
        assumptions: vec![
            "The reference matcher (harness/src/topic.rs) is a faithful reading of MQTT 3.1.1 §4.7 and of the documented '$' rule".into(),
            "matches() is compared with the reference only for valid topic x valid filter; for all other pairs only totality and agreement of the three copies is required".into(),
        ],
        min_nontrivial: 1000,
    }
}
