//! C07 — packet ids unique, window bounded, flow control (E6: state-machine layer).
//!
//! The event-loop layer (E7: the gate itself) adds its campaigns to the same plan in `plan()`.

use crate::clientstate::campaign::{probe, shape, StateCampaign};
use crate::clientstate::gen::{GenCfg, Limits, Versions, Weights};
use crate::clientstate::interp::Run;
use crate::clientstate::*;
use crate::engine::*;

fn nontrivial(r: &Run) -> Option<String> {
    let s = &r.st;
    if s.wraps > 0 && s.collisions > 0 && s.collisions_resolved > 0 {
        Some(format!("{} wraps={} receive_max={}", shape(r), if s.wraps > 2 { "3+" } else { "1-2" }, r.m.eff != r.m.limit))
    } else {
        None
    }
}

pub fn e6_campaigns(_tier: Tier) -> Vec<Box<dyn DynCampaign>> {
    let mut v: Vec<Box<dyn DynCampaign>> = vec![
        Box::new(StateCampaign {
            name: "c07_small_limits",
            gen: GenCfg { versions: Versions::Both, limits: Limits::Small8, w: Weights::WINDOW, max_ops: 200, manual_8: 1 },
            cfg: Cfg::main(G07),
            quick: 48_000,
            thorough: 1_440_000,
            probes: vec![],
            nontrivial,
        }),
        Box::new(StateCampaign {
            name: "c07_large_limits",
            gen: GenCfg { versions: Versions::Both, limits: Limits::Large, w: Weights::WINDOW, max_ops: 200, manual_8: 0 },
            cfg: Cfg::main(G07),
            quick: 8_000,
            thorough: 240_000,
            probes: vec![],
            nontrivial,
        }),
    ];
    let tiny = |versions, w| GenCfg { versions, limits: Limits::Tiny, w, max_ops: 60, manual_8: 0 };
    v.push(Box::new(probe("c07_probe_k1", R_K1, G07, tiny(Versions::V4, Weights::QOS2_COLLISIONS), vec!["c07:inflight_count_mismatch:after=pubcomp@v4"], nontrivial)));
    v.push(Box::new(probe("c07_probe_k3", R_K3, G07, tiny(Versions::V5, Weights::QOS2_COLLISIONS), vec!["c07:inflight_count_mismatch:after=pubcomp@v5"], nontrivial)));
    v.push(Box::new(probe("c07_probe_k4", R_K4, G07, tiny(Versions::Both, Weights::FAILS), vec!["c07:collision_without_holder:*"], nontrivial)));
    v.push(Box::new(probe("c07_probe_k6", R_K6, G07, tiny(Versions::Both, Weights::QOS2_COLLISIONS), vec!["c07:id_reused:awaiting_pubcomp*"], nontrivial)));
    v.push(Box::new(probe("c07_probe_k7", R_K7, G07, tiny(Versions::V5, Weights::FAILS), vec!["c07:inflight_count_mismatch:after=neg_pubcomp@v5", "c07:inflight_count_mismatch:after=neg_pubrec@v5", "c07:collision_not_released:neg_pubrec@v5", "c07:collision_not_released:neg_pubcomp@v5", "c07:collision_not_released:neg_puback@v5"], nontrivial)));
    let g = GenCfg { versions: Versions::V5, limits: Limits::Small8, w: Weights::FAILS, max_ops: 60, manual_8: 0 };
    v.push(Box::new(probe("c07_probe_k8", R_K8, G07, g, vec!["c07:packet_id_above_limit:subscribe@v5", "c07:packet_id_above_limit:unsubscribe@v5"], nontrivial)));
    v
}

pub fn plan(tier: Tier) -> Plan {
    let mut campaigns = e6_campaigns(tier);
    // E7 (event loop) campaigns are appended here
    campaigns.extend(crate::clientloop::props::c07_campaigns());
    Plan {
        campaigns,
        enumerators: crate::clientloop::props::c07_enumerators(),
        rule: "E6: the C02 op alphabet with publishes and acknowledgements dominating, crossed with every inflight limit 1..=8 (campaign c07_small_limits, uniform over the limits) and with the limits 100 and 65535 (c07_large_limits; the id allocator is first advanced to just before the wrap by SUBSCRIBE requests), v4 and v5, v5 with CONNACK receive_max below and above the configured limit. Over the wire history (packets returned by the state machine): every QoS>0 PUBLISH, SUBSCRIBE, UNSUBSCRIBE id is non-zero and <= the configured limit; no fresh PUBLISH carries an id the model holds as unacknowledged (QoS 2: until PUBCOMP); the number unacknowledged after a fresh PUBLISH is <= the window; inflight() equals the model's count after every op; whenever a publish is parked in `collision` its id is held by an unacknowledged publish, and the final ack of that id returns the parked publish for the wire. A case is non-trivial when packet ids wrapped around and >= 1 collision occurred and was resolved. Distinct = distinct case hash.".to_string() + crate::clientloop::props::C07_RULE,
        assumptions: vec![
            "User requests are fed to the state machine only when EventLoop::select() would feed them: inflight() < limit (v5: < min(limit, receive_max)) and no collision pending; otherwise the op is skipped and counted. The replay of `pending` after a resumed reconnect is fed unconditionally, as the event loop does.".into(),
            "A failure is modelled exactly as the event loop handles any error: clean(); pending kept iff the generated session_present; v5: CONNACK fed to the state machine; pending replayed in order before anything else. Requests still queued in the channel at failure time (K2, repaired in /repo) belong to the event-loop engine and are not generated here.".into(),
            "Every Err returned by the state machine (rejected ack, keep-alive error, server DISCONNECT) is followed by that failure handling, as in EventLoop::poll().".into(),
            "The window bound is asserted when a fresh PUBLISH is emitted (a mid-stream CONNACK may lower receive_max below what is already in flight; the replay after a reconnect belongs to the event-loop engine).".into(),
            "SUBSCRIBE/UNSUBSCRIBE ids are only required to be non-zero and <= limit (the statement asks uniqueness only among publishes).".into(),
        ],
        min_nontrivial: 3000,
    }
}
