//! C03 — nothing a client does can crash or halt the routing core (DESIGN §5 C03).

use crate::brokersim::campaign::SimCampaign;
use crate::brokersim::gen::GenCfg;
use crate::brokersim::observe::Flags;
use crate::brokersim::run::Stats;
use crate::brokersim::types::*;
use crate::engine::*;

fn nontrivial(s: &Stats, h: &Hist) -> Option<String> {
    let malformed = h.ops.iter().any(|o| matches!(o, Op::Raw { .. }));
    let multibyte = h.ops.iter().any(|o| match o {
        Op::Raw { pkt: Raw::PublishBytes { topic, .. }, .. } => topic.first().is_some_and(|b| *b >= 0x80),
        Op::Raw { pkt: Raw::Subscribe { filter, .. }, .. } => filter.chars().next().is_some_and(|c| c.len_utf8() > 1),
        Op::Publish { topic, .. } => topic.chars().next().is_some_and(|c| c.len_utf8() > 1),
        _ => false,
    });
    if s.stale_events == 0 && !malformed && !multibyte && s.group_membership_changes == 0 {
        return None;
    }
    Some(format!(
        "stale={} malformed={} multibyte={} group_left={} broker_closed={}",
        s.stale_events > 0,
        malformed,
        multibyte,
        s.group_membership_changes > 0,
        s.router_closed > 0
    ))
}

pub fn gen() -> GenCfg {
    GenCfg {
        min_clients: 2,
        max_clients: 5,
        max_chunks: 60,
        w_subscribe: 6,
        w_shared_sub: 4,
        w_unsubscribe: 4,
        w_publish: 12,
        w_burst: 2,
        w_release: 4,
        w_ping: 1,
        w_disconnect: 3,
        w_droplink: 4,
        w_reconnect: 8,
        w_turn: 8,
        w_drain: 6,
        w_ack: 3,
        w_settle: 2,
        w_will: 3,
        w_raw: 14,
        w_stale: 8,
        w_zombie: 8,
        w_tick: 3,
        p_persistent: 50,
        p_will: 40,
        p_alias: 30,
        p_retain: 25,
        p_empty_payload: 10,
        p_manual_ack: 40,
        p_manual_ready: 30,
        max_burst: 230,
        wide_strings: true,
        ..GenCfg::default()
    }
}

pub fn main_campaign() -> SimCampaign {
    SimCampaign {
        name: "anything",
        gen: gen(),
        flags: Flags {
            slabs: true,
            liveness_probe: true,
            // nobody is asserted on: every client may misbehave
            witnesses: Some(vec![]),
            ..Flags::default()
        },
        quick: 30000,
        thorough: 600000,
        nontrivial,
        probes: vec![],
        shape: None,
    }
}

/// Stale cursors against retention: logs of one or two tiny segments, publish-heavy histories
/// with bursts, persistent sessions that stay away and subscribers that do not drain, so that
/// requests come back with cursors into evicted segments (and onto their exact boundaries)
pub fn retention_campaign() -> SimCampaign {
    let mut c = main_campaign();
    c.name = "retention";
    c.gen = GenCfg {
        tiny_retention: true,
        max_clients: 4,
        w_publish: 30,
        w_burst: 6,
        max_burst: 60,
        w_raw: 2,
        w_stale: 1,
        w_zombie: 1,
        w_tick: 0,
        w_shared_sub: 2,
        w_drain: 8,
        w_turn: 10,
        p_retain: 5,
        wide_strings: false,
        ..gen()
    };
    c.flags.liveness_probe = false;
    c.quick = 12000;
    c.thorough = 240000;
    c.nontrivial = |s, _| if s.relaxed && s.forwards > 0 { Some(format!("backlog_beyond_retention resumed={}", s.resumed_sessions > 0)) } else { None };
    c
}

pub fn plan(_tier: Tier) -> Plan {
    Plan {
        campaigns: vec![Box::new(crate::fuzzdec::FuzzReplay("fuzz_router_events", "router_events")), Box::new(main_campaign()), Box::new(retention_campaign())],
        enumerators: vec![],
        rule: "Histories over the widest alphabet: every op of the other broker properties plus packets out of place (acks with arbitrary ids, PUBREL without PUBLISH, CONNECT/CONNACK/SUBACK mid-session, SUBSCRIBE to `$x`, `$share/g/f`, `$share/` without path, empty and invalid filters, arbitrary Unicode filters, subscription id 0), PUBLISH with topics as raw bytes (invalid UTF-8, empty, multi-byte first character, wildcards), forged / stale Ready, DeviceData, Disconnect and Shadow events for live, never-registered (7, 10^6, usize::MAX) and already-removed connection ids, late events of finished connections before/after their slot is reused, PublishWill for unknown ids, meter/alert ticks with kept and dropped receivers, persistent and clean sessions, shared groups, takeover. Oracle: every router turn runs under catch_unwind (a panic is a violation); after every turn the five per-connection slabs have identical key sets and connection_map is a bijection onto them; the router reaches quiescence within 20 000 turns; afterwards a fresh subscriber and a fresh publisher are served (connect, subscribe, QoS 1 publish forwarded and acknowledged). Non-trivial: >=1 stale/forged event, malformed or unsolicited packet, multi-byte-first-character topic/filter, or a shared group losing a member — and the router survived. Campaign retention: the same alphabet biased to publishes and bursts over logs of 1-2 segments of 1-2 KiB, so that parked, paused and resumed requests meet evicted segments and segment boundaries; non-trivial there: some subscription's unread backlog outgrew what the log is guaranteed to keep, and forwards were observed.".into(),
        assumptions: vec![
            "Router configuration (segment size >= 1024, segment count >= 1) is operator input, not client behaviour: only configurations CommitLog::new accepts are generated".into(),
            "Debug assertions are compiled out (as in a deployed broker); overflow checks are on".into(),
        ],
        min_nontrivial: 500,
    }
}
