//! C16 — last will (router part, E4): a will is published exactly once iff the connection ended
//! without DISCONNECT (DESIGN §5 C16). The decision logic of `remote()` is covered by E5.

use super::c01::avoid_all;
use crate::brokersim::campaign::SimCampaign;
use crate::brokersim::gen::GenCfg;
use crate::brokersim::observe::Flags;
use crate::brokersim::run::Stats;
use crate::brokersim::types::*;
use crate::engine::*;

fn nontrivial(s: &Stats, _h: &Hist) -> Option<String> {
    if s.wills_fired == 0 || s.will_forwards == 0 {
        return None;
    }
    Some(format!("fired={} suppressed={} retained={}", s.wills_fired.min(3), s.wills_suppressed.min(3), s.retained_replays > 0))
}

pub fn main_campaign() -> SimCampaign {
    SimCampaign {
        name: "wills",
        gen: GenCfg {
            min_clients: 3,
            max_clients: 5,
            max_chunks: 40,
            w_subscribe: 8,
            w_unsubscribe: 1,
            w_publish: 8,
            w_burst: 0,
            w_release: 2,
            w_disconnect: 5,
            w_droplink: 7,
            w_reconnect: 6,
            w_will: 12,
            w_raw: 0,
            w_turn: 8,
            w_drain: 6,
            w_ack: 2,
            w_settle: 3,
            p_will: 70,
            p_retain: 20,
            topics: ["a", "a/b", "a/c", "b"].iter().map(|s| s.to_string()).collect(),
            filters: ["a/#", "a/+", "#", "a/b", "b", "a"].iter().map(|s| s.to_string()).collect(),
            ..GenCfg::default()
        },
        flags: Flags {
            will: true,
            delivery: true,
            retained: true,
            no_takeover: true,
            avoid: avoid_all(),
            ..Flags::default()
        },
        quick: 25000,
        thorough: 500000,
        nontrivial,
        probes: vec![],
        shape: None,
    }
}

pub fn plan(_tier: Tier) -> Plan {
    Plan {
        campaigns: {
            let mut c: Vec<Box<dyn DynCampaign>> = vec![Box::new(main_campaign())];
            c.extend(crate::fullstack::props::c16_campaigns());
            c
        },
        enumerators: vec![],
        rule: "Histories in which 70% of the connections register a will (topic with 0..n matching subscribers, QoS 0-2, optionally retained), sessions end by DISCONNECT or by link failure, and the PublishWill signal of the connection task is delivered 0, 1 or several times afterwards (also for clients without a will). The will is an accepted message of the reference model exactly when the connection ended without DISCONNECT and only once, so the delivery oracle of C01 (exactly the matching subscribers, once, right topic/payload, retained copy visible to later subscribers) decides the property. Takeovers are not generated (outside the claim). Non-trivial: >=1 will published and forwarded to >=1 subscriber. ".to_string() + crate::fullstack::props::C16_E5_RULE,
        assumptions: vec![
            "E4 delivers the PublishWill event the way remote() does after the will delay; whether remote() sends it is checked by the E5 campaigns (real per-connection task over an in-memory stream, barrier-synchronised)".into(),
            "F3 (a DISCONNECT was not read while a write towards the client was pending or failing, so the will fired) was repaired in /repo; the end kind is generated in the main E5 campaign and the former probe is a focused campaign".into(),
        ],
        min_nontrivial: 100,
    }
}
