//! C20 — messages cross protocol versions; every notification is encodable (router level, E4).
//! The end-to-end variant through two per-connection tasks is added by the E5 engine.

use super::c01::avoid_all;
use crate::brokersim::campaign::SimCampaign;
use crate::brokersim::gen::GenCfg;
use crate::brokersim::observe::Flags;
use crate::brokersim::run::Stats;
use crate::brokersim::types::*;
use crate::engine::*;

fn nontrivial(s: &Stats, _h: &Hist) -> Option<String> {
    if s.v5_to_v4_props == 0 {
        return None;
    }
    Some(format!(
        "v5_to_v4={} encoded>{} closed={} resumed={}",
        s.v5_to_v4_props.min(5),
        (s.encoded / 100).min(5) * 100,
        s.router_closed > 0,
        s.resumed_sessions > 0
    ))
}

pub fn main_campaign() -> SimCampaign {
    SimCampaign {
        name: "cross_version",
        gen: GenCfg {
            min_clients: 2,
            max_clients: 4,
            max_chunks: 40,
            w_subscribe: 8,
            w_unsubscribe: 2,
            w_publish: 22,
            w_burst: 2,
            w_release: 5,
            w_ping: 2,
            w_disconnect: 1,
            w_droplink: 1,
            w_reconnect: 3,
            w_raw: 3,
            w_turn: 8,
            w_drain: 8,
            w_ack: 3,
            w_settle: 2,
            p_v5: 50,
            p_props: 70,
            p_pub_alias: 30,
            p_sub_id: 40,
            p_alias: 30,
            p_persistent: 30,
            p_retain: 20,
            max_burst: 120,
            ..GenCfg::default()
        },
        flags: Flags {
            encode: true,
            delivery: true,
            avoid: avoid_all(),
            ..Flags::default()
        },
        quick: 15000,
        thorough: 300000,
        nontrivial,
        probes: vec![],
        shape: Some(|mut h: Hist| {
            // only the last client misbehaves (to provoke Disconnect notifications)
            let last = h.clients.len().saturating_sub(1);
            for op in h.ops.iter_mut() {
                if let Op::Raw { c, .. } = op {
                    *c = last;
                }
            }
            h
        }),
    }
}

pub fn plan(_tier: Tier) -> Plan {
    let mut m = main_campaign();
    // the misbehaving client is not asserted on
    m.flags.witnesses = Some(vec![0, 1, 2]);
    Plan {
        campaigns: {
            let mut c: Vec<Box<dyn DynCampaign>> = vec![Box::new(m)];
            c.extend(crate::fullstack::props::c20_campaigns());
            c
        },
        enumerators: vec![],
        rule: "Histories with a generated mix of v4 and v5 clients (publishers with every subset of the v5 publish properties in 70% of the publishes, subscribers with and without subscription identifiers and broker topic aliases, QoS 0-2, retained, persistent sessions, one misbehaving client provoking Disconnect notifications). Every notification a client drains (Forward, every ack kind, Disconnect) is converted with the crate's own Into<Option<Packet>> and written with that client's protocol (V4.write / V5.write) under catch_unwind: it must succeed, and the bytes must decode in rumqttc's decoder of that version to the same topic and payload, leaving no trailing bytes; towards v5 the publisher's properties are preserved (topic alias excepted), and the C01 delivery oracle applies. Non-trivial: >=1 v5 publish carrying properties was delivered to a v4 subscriber. ".to_string() + crate::fullstack::props::C20_E5_RULE,
        assumptions: vec!["message_expiry_interval is not generated (the router decrements it from the wall clock)".into()],
        min_nontrivial: 100,
    }
}
