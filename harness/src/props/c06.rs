//! C06 — exactly one matching ack per request, in order, to the right client (DESIGN §5 C06).

use super::c01::avoid_all;
use crate::brokersim::campaign::SimCampaign;
use crate::brokersim::gen::GenCfg;
use crate::brokersim::observe::Flags;
use crate::brokersim::run::Stats;
use crate::brokersim::types::*;
use crate::engine::*;

fn nontrivial(s: &Stats, _h: &Hist) -> Option<String> {
    if s.paused_requests == 0 || s.qos2_in_completed == 0 {
        return None;
    }
    Some(format!(
        "busy={} inflight_full={} acks>100={}",
        s.saw_busy,
        s.saw_inflight_full,
        s.acks_received > 100
    ))
}

pub fn main_campaign() -> SimCampaign {
    SimCampaign {
        name: "acks",
        gen: GenCfg {
            min_clients: 2,
            max_clients: 4,
            max_chunks: 50,
            w_subscribe: 8,
            w_unsubscribe: 4,
            w_publish: 18,
            w_burst: 4,
            w_release: 10,
            w_ping: 5,
            w_turn: 8,
            w_drain: 6,
            w_ack: 3,
            w_settle: 2,
            qos_weights: [1, 4, 4],
            p_manual_ack: 35,
            ..GenCfg::default()
        },
        flags: Flags {
            acks: true,
            delivery: true,
            avoid: avoid_all(),
            ..Flags::default()
        },
        quick: 15000,
        thorough: 300000,
        nontrivial,
        probes: vec![],
        shape: None,
    }
}

/// R8 (repaired in /repo): UNSUBSCRIBE was answered with one UNSUBACK per removed filter and
/// with none at all when no filter was removed (unknown filter, or a filter of a resumed
/// session). Kept as a focused campaign on UNSUBSCRIBE shapes.
pub fn probe_r8() -> SimCampaign {
    let mut c = main_campaign();
    c.name = "probe_r8_unsubscribe_shapes";
    c.gen.w_unsubscribe = 25;
    c.gen.w_burst = 0;
    c.gen.max_clients = 3;
    c.flags.avoid.unsub_shape = false;
    c.quick = 3000;
    c.thorough = 60000;
    c.nontrivial = |s, _| if s.acks_received > 0 { Some("unsub".into()) } else { None };
    c.probes = vec!["acks:wrong_or_out_of_order", "acks:missing_at_idle", "acks:unsolicited"];
    c
}

/// "never to another client": connections end (DISCONNECT, protocol violation, link failure)
/// with further packets pipelined behind the closing one, next to well-behaved requesters
pub fn churn_campaign() -> SimCampaign {
    let mut c = main_campaign();
    c.name = "acks_churn";
    c.gen.min_clients = 3;
    c.gen.max_clients = 5;
    c.gen.w_disconnect = 4;
    c.gen.w_droplink = 2;
    c.gen.w_reconnect = 8;
    c.gen.w_raw = 5;
    c.gen.w_burst = 1;
    c.gen.p_unnotified = 50;
    c.gen.p_persistent = 30;
    // clients 0 and 1 never send a packet out of place (they do disconnect, fail and resume);
    // the ack and delivery clauses are asserted on them only: what a client loses by its own
    // protocol violation (e.g. the in-flight record a wrong PUBACK id pops) is not C06's business
    c.flags.witnesses = Some(vec![0, 1]);
    c.shape = Some(|mut h: Hist| {
        h.ops.retain(|op| !matches!(op, Op::Raw { c, .. } | Op::Zombie { c, .. } if *c < 2));
        h
    });
    c.quick = 8000;
    c.thorough = 160000;
    c.nontrivial = |s, h| {
        let ended = h.ops.iter().filter(|o| matches!(o, Op::Disconnect { .. } | Op::DropLink { .. })).count() as u64;
        if s.router_closed + ended == 0 || s.acks_received == 0 {
            return None;
        }
        Some(format!("closed={} ended={} qos2={}", s.router_closed.min(3), ended.min(3), s.qos2_in_completed > 0))
    };
    c
}

pub fn plan(_tier: Tier) -> Plan {
    Plan {
        campaigns: vec![Box::new(main_campaign()), Box::new(churn_campaign()), Box::new(probe_r8()), Box::new(crate::fullstack::flow::Flow)],
        enumerators: vec![],
        rule: "Histories biased to request packets (QoS 1/2 publishes incl. bursts, PUBREL in publish order, SUBSCRIBE 1-3 filters, UNSUBSCRIBE, PINGREQ, several packets per notification) from 2-4 clients against the real router. Oracle: per client the sequence of DeviceAck notifications equals the model's owed-ack list (kind, packet id, SUBACK codes, request order) as a prefix at every drain and completely at every idle point; QoS 2 publishes enter the acceptance log (and the delivery oracle of C01) only at their release. Second campaign (acks_churn): clients 0 and 1 never send a packet out of place but disconnect, fail and resume; the others also send packets out of place; half of all packets are pipelined behind an earlier one without a notification of their own, so closing packets (DISCONNECT, violating packet) have requests queued behind them: the same ack and delivery clauses on clients 0 and 1 (an ack or forward of another connection's packet shows as unsolicited / foreign). Non-trivial: >=1 request processed while its connection was paused as busy or inflight-full and >=1 QoS 2 publish flow completed (PUBCOMP received); distinct by history hash. The acknowledgement clauses are also decided end to end through the real link code by the campaign shared with C09 — ".to_string() + crate::fullstack::flow::FLOW_RULE,
        assumptions: vec![
            "QoS 2 releases are issued in publish order (as the quantifier states)".into(),
            "UNSUBSCRIBE of several / unknown filters is generated everywhere since R8 was repaired; persistent sessions do not UNSUBSCRIBE in the asserted clients (R17, DESIGN §0)".into(),
        ],
        min_nontrivial: 50,
    }
}
