//! C19 — admission and one session per client id (router level, E4): at most one live
//! connection per client id, never more than max_connections. The first sentence of the
//! statement (CONNECT validation, authentication) is the subject of the E5 engine.

use super::c01::avoid_all;
use crate::brokersim::campaign::SimCampaign;
use crate::brokersim::gen::GenCfg;
use crate::brokersim::observe::Flags;
use crate::brokersim::run::Stats;
use crate::brokersim::types::*;
use crate::engine::*;

fn nontrivial(s: &Stats, _h: &Hist) -> Option<String> {
    if s.rejected_connects == 0 && !s.takeover_at_limit {
        return None;
    }
    Some(format!(
        "rejected={} takeover_at_limit={} takeovers={}",
        s.rejected_connects.min(4),
        s.takeover_at_limit,
        s.takeovers.min(4)
    ))
}

pub fn router_campaign() -> SimCampaign {
    SimCampaign {
        name: "connections",
        gen: GenCfg {
            min_clients: 2,
            max_clients: 6,
            max_chunks: 40,
            w_subscribe: 4,
            w_unsubscribe: 1,
            w_publish: 8,
            w_burst: 0,
            w_release: 1,
            w_disconnect: 6,
            w_droplink: 8,
            w_reconnect: 22,
            w_turn: 10,
            w_drain: 4,
            w_ack: 1,
            w_settle: 2,
            p_persistent: 40,
            small_limits: true,
            ..GenCfg::default()
        },
        flags: Flags {
            admission: true,
            session: true,
            delivery: true,
            slabs: true,
            avoid: avoid_all(),
            ..Flags::default()
        },
        quick: 25000,
        thorough: 500000,
        nontrivial,
        probes: vec![],
        // some client ids carry topic metacharacters: they must never be registered
        shape: Some(|mut h: Hist| {
            let n = h.clients.len();
            if n >= 3 && h.ops.len() % 2 == 0 {
                let bad = ["a/b", "x+", "#", "$y"][h.ops.len() % 4];
                h.clients[n - 1].id = bad.to_string();
            }
            h
        }),
    }
}

pub fn plan(_tier: Tier) -> Plan {
    Plan {
        campaigns: {
            let mut c: Vec<Box<dyn DynCampaign>> = vec![Box::new(router_campaign())];
            c.extend(crate::fullstack::props::c19_campaigns());
            c
        },
        enumerators: vec![],
        rule: "Router level: connect / disconnect / link-failure / takeover histories by 2-6 clients (persistent and clean, some with client ids containing + $ # /) against max_connections in 1..4. After every router turn: live client ids pairwise distinct, live connections <= max_connections, slab alignment; every connection attempt is registered iff its id is free of metacharacters and a slot is free after a takeover removed the older connection of the same id; CONNACK session_present follows the session rule; a takeover ends the older connection. Non-trivial: >=1 rejected connection attempt or a takeover while the connection limit was reached. ".to_string() + crate::fullstack::props::C19_RULE,
        assumptions: vec![
            "E5: when an authentication callback is configured it alone decides (the static map is not consulted), as documented by rumqttd's handle_auth unit tests".into(),
            "E5: connection_timeout_ms is exercised with real time (50-200 ms) only for first bytes that never complete a packet; nothing about timing is asserted; every assertion is barrier-synchronised (sentinel messages, FIFO of the router channel)".into(),
            "E5: the router loop runs on a harness thread through verif_turn() because Router::spawn() threads can never exit".into(),
        ],
        min_nontrivial: 200,
    }
}
