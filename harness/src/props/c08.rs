//! C08 — persistent sessions resume without losing subscriptions or messages (DESIGN §5 C08).

use super::c01::avoid_all;
use crate::brokersim::campaign::SimCampaign;
use crate::brokersim::gen::GenCfg;
use crate::brokersim::observe::Flags;
use crate::brokersim::run::Stats;
use crate::brokersim::types::*;
use crate::engine::*;

fn nontrivial(s: &Stats, _h: &Hist) -> Option<String> {
    if s.resumed_sessions == 0 || s.resumed_with_unacked == 0 || s.forwards == 0 {
        return None;
    }
    Some(format!(
        "resumes={} takeover={} inflight_full={} relaxed={}",
        s.resumed_sessions.min(3),
        s.takeovers > 0,
        s.saw_inflight_full,
        s.relaxed
    ))
}

pub fn main_campaign() -> SimCampaign {
    SimCampaign {
        name: "sessions",
        gen: GenCfg {
            min_clients: 2,
            max_clients: 4,
            max_chunks: 50,
            w_subscribe: 5,
            w_unsubscribe: 1,
            w_publish: 16,
            w_burst: 4,
            w_release: 4,
            w_ping: 1,
            w_disconnect: 3,
            w_droplink: 4,
            w_reconnect: 8,
            w_turn: 8,
            w_drain: 8,
            w_ack: 5,
            w_settle: 2,
            p_persistent: 75,
            // retained replays occupy the window like any forward (their redelivery is excepted,
            // the ordinary forwards behind them are not)
            p_retain: 20,
            p_manual_ack: 60,
            max_burst: 150,
            qos_weights: [2, 4, 2],
            big_retention: false,
            ..GenCfg::default()
        },
        flags: Flags {
            session: true,
            retained: true,
            delivery: true,
            acks: true,
            window: true,
            avoid: avoid_all(),
            ..Flags::default()
        },
        quick: 40000,
        thorough: 800000,
        nontrivial,
        probes: vec![],
        // steer: client 0 is persistent with manual acks and goes through at least one
        // break / away / resume cycle placed inside the generated history
        shape: Some(|mut h: Hist| {
            if h.clients.is_empty() {
                return h;
            }
            h.clients[0].auto_ack = false;
            let mut first = true;
            for op in h.ops.iter_mut() {
                if let Op::Connect { c: 0, clean, .. } = op {
                    if first {
                        *clean = false;
                        first = false;
                    }
                }
            }
            let n = h.ops.len();
            let at_break = (n / 2).max(4).min(n);
            let at_resume = (n * 3 / 4).max(at_break).min(n);
            let kind = n % 3;
            h.ops.insert(
                at_resume,
                Op::Connect { c: 0, clean: false, will: None, alias_max: 0 },
            );
            let brk = match kind {
                0 => vec![Op::Drain { c: 0 }, Op::DropLink { c: 0 }, Op::Turn { n: 1 }],
                1 => vec![Op::Drain { c: 0 }, Op::Disconnect { c: 0, notify: true, with_props: false }, Op::Turn { n: 1 }],
                // takeover: no explicit break, the resume connect replaces the live connection
                _ => vec![Op::Drain { c: 0 }],
            };
            for (i, o) in brk.into_iter().enumerate() {
                h.ops.insert(at_break + i, o);
            }
            h
        }),
    }
}

pub fn plan(_tier: Tier) -> Plan {
    Plan {
        campaigns: vec![Box::new(main_campaign())],
        enumerators: vec![],
        rule: "Histories around 1-3 persistent clients (clean-session off with probability 3/4, alternating on reconnect) and publishers: subscribe (QoS 0-2), traffic with manual ack pacing so that forwards are unacknowledged at the break, connection end by DISCONNECT / link failure / takeover at any op index, publishes while away, several reconnect cycles. Oracle: CONNACK session_present equals (non-clean now and a non-clean session of this id was saved and not discarded by a clean connect); after a resumed connect, without re-subscribing, every QoS>0 stream restarts exactly at the oldest message the broker had not seen acknowledged (acknowledged ones never reappear, unacknowledged ones and everything accepted since arrive in order); QoS 0 streams must contain everything accepted after the break; a clean connect gets no session, no subscriptions, no backlog. Non-trivial: a resumed session whose previous connection ended with >=1 unacknowledged QoS>0 forward.".into(),
        assumptions: vec![
            "QoS 0 forwards pushed to a connection that then ended may or may not be delivered again (either accepted)".into(),
            "Completeness only within the conservative retention bound, evaluated also while the client is away".into(),
        ],
        min_nontrivial: 50,
    }
}
