//! C04 — codecs round-trip every packet and interoperate between client and broker.
//!
//! Codecs under test: rumqttc v4 / v5 `Packet::{read, write, size}`, rumqttd `V4` / `V5`
//! `Protocol::{read_mut, write}`. Oracle: `codec::oracle::roundtrip_oracle` (reference framer
//! and reference decoder written from the MQTT specifications).

use crate::codec::model::*;
use crate::codec::mutate::{apply, mutation, Mutation};
use crate::codec::oracle::{roundtrip_from_bytes, roundtrip_oracle, RtObs};
use crate::codec::{gen, reference, Kind};
use crate::engine::*;
use proptest::prelude::*;
use serde::{Deserialize, Serialize};
use serde_json::json;
use std::sync::OnceLock;

#[derive(Clone, Debug, Serialize, Deserialize)]
pub struct RtCase {
    pub ver: Ver,
    pub m: M,
    /// probe campaigns: judge one codec only
    #[serde(default)]
    pub only: Option<Kind>,
}

fn cells() -> &'static Vec<&'static str> {
    static CELLS: OnceLock<Vec<&'static str>> = OnceLock::new();
    CELLS.get_or_init(|| {
        let mut v = Vec::new();
        for t in 1..=14usize {
            for ver in ["v4", "v5"] {
                for w in 1..=4 {
                    v.push(&*Box::leak(format!("cell:{}:{ver}:width{w}", TYPE_NAMES[t]).into_boxed_str()));
                }
            }
        }
        v
    })
}

fn cell(t: u8, ver: Ver, width: usize) -> &'static str {
    cells()[((t as usize - 1) * 2 + (ver == Ver::V5) as usize) * 4 + (width - 1)]
}

fn observe(c: &RtCase, o: &RtObs, obs: &mut Obs) {
    let rl = reference::remaining_len(c.ver, &c.m);
    let width = reference::varint_width(rl);
    obs.class(cell(c.m.type_nibble(), c.ver, width));
    let pc = c.m.prop_popcount();
    let bucket = match pc {
        0 => "0",
        1..=2 => "1-2",
        3..=5 => "3-5",
        _ => "6+",
    };
    obs.class_if(c.ver == Ver::V5 && pc > 0, "v5_with_properties");
    obs.class_if(matches!(rl, 125..=130 | 16_381..=16_386 | 2_097_149..=2_097_154), "remaining_length_on_width_boundary");
    obs.class_if(c.m.props().is_some_and(|p| p.force_some && p.is_empty()), "some_but_empty_properties");
    for e in &o.excluded {
        obs.count("excluded_known_region_total", 1);
        obs.count(
            match *e {
                "v5_disconnect_reason_without_properties" => "excluded:v5_disconnect_reason_without_properties",
                "client_v5_disconnect_remaining_length_0" => "excluded_decoder:client_v5_disconnect_remaining_length_0",
                "v5_publish_subscription_id_cursor" => "excluded:v5_publish_subscription_id_cursor",
                _ => "excluded_decoder:broker_v5_decodes_connack_unsuback",
            },
            1,
        );
    }
    obs.count("oracle_clauses_checked", o.clauses as u64);
    if c.m.has_varlen_field() && o.clauses > 0 {
        obs.nontrivial(format!("{}:{}:width{}:props{}", c.m.type_name(), c.ver.name(), width, bucket));
        let mut dbg = format!("{:?}", c.m);
        if dbg.len() > 400 {
            let cut = dbg.char_indices().nth(400).map(|(i, _)| i).unwrap_or(dbg.len());
            dbg.truncate(cut);
            dbg.push('…');
        }
        obs.sample = Some(json!({"ver": c.ver.name(), "remaining_length": rl, "packet": dbg}));
    }
}

fn run(c: &RtCase, exclude_known: bool, obs: &mut Obs) -> Result<(), Failure> {
    let mut o = RtObs::default();
    let r = roundtrip_oracle(c.ver, &c.m, c.only, exclude_known, &mut o);
    observe(c, &o, obs);
    r
}

pub struct Roundtrip;

impl Campaign for Roundtrip {
    type Case = RtCase;
    fn name(&self) -> &'static str {
        "roundtrip"
    }
    fn cases(&self, tier: Tier) -> u64 {
        tier.pick(100_000, 2_000_000)
    }
    fn strategy(&self, tier: Tier) -> BoxedStrategy<RtCase> {
        gen::versioned_packet(tier).prop_map(|(ver, m)| RtCase { ver, m, only: None }).boxed()
    }
    fn check(&self, c: &RtCase, obs: &mut Obs) -> Result<(), Failure> {
        run(c, true, obs)
    }
    fn max_shrink_iters(&self, _tier: Tier) -> u32 {
        3000
    }
}

/// PUBLISH with a remaining length on the 2 MiB boundary (3/4 length bytes)
pub struct Huge;

impl Campaign for Huge {
    type Case = RtCase;
    fn name(&self) -> &'static str {
        "roundtrip_2mib"
    }
    fn cases(&self, tier: Tier) -> u64 {
        tier.pick(60, 480)
    }
    fn strategy(&self, _tier: Tier) -> BoxedStrategy<RtCase> {
        gen::huge_publish().prop_map(|(ver, m)| RtCase { ver, m, only: None }).boxed()
    }
    fn check(&self, c: &RtCase, obs: &mut Obs) -> Result<(), Failure> {
        run(c, true, obs)
    }
    fn max_shrink_iters(&self, _tier: Tier) -> u32 {
        200
    }
}

/// Byte-level round trip: the reference encoding of a packet, mutated; whenever a decoder
/// still accepts the frame, re-encoding and decoding again must give an equal packet
#[derive(Clone, Debug, Serialize, Deserialize)]
pub struct BytesCase {
    pub ver: Ver,
    pub m: M,
    pub muts: Vec<Mutation>,
}

pub struct BytesRoundtrip;

impl Campaign for BytesRoundtrip {
    type Case = BytesCase;
    fn name(&self) -> &'static str {
        "bytes_roundtrip"
    }
    fn cases(&self, tier: Tier) -> u64 {
        tier.pick(30_000, 1_000_000)
    }
    fn strategy(&self, tier: Tier) -> BoxedStrategy<BytesCase> {
        (gen::versioned_packet(tier), prop::collection::vec(mutation(), 0..=3))
            .prop_map(|((ver, m), muts)| BytesCase { ver, m, muts })
            .boxed()
    }
    fn check(&self, c: &BytesCase, obs: &mut Obs) -> Result<(), Failure> {
        let mut bytes = reference::encode(c.ver, &c.m);
        for mu in &c.muts {
            apply(&mut bytes, mu);
        }
        obs.class_if(c.muts.is_empty(), "unmutated_reference_encoding");
        let accepted = std::cell::Cell::new(0u32);
        let r = roundtrip_from_bytes(&bytes, &accepted);
        obs.count("frames_accepted_by_a_decoder", accepted.get() as u64);
        if accepted.get() > 0 && !c.muts.is_empty() {
            obs.nontrivial(format!("bytes:{}:{}:accepted_by_{}", c.m.type_name(), c.ver.name(), accepted.get()));
            obs.sample = Some(json!({"mutated_frame_head": format!("{:02x?}", &bytes[..bytes.len().min(32)]), "len": bytes.len()}));
        }
        r
    }
    fn max_shrink_iters(&self, _tier: Tier) -> u32 {
        2000
    }
}

pub const SIG_UNREACHABLE: &str =
    "panic:decode:broker_v5:rumqttd/src/protocol/v5/mod.rs:internal_error:_entered_unreachable_code";

/// Probe campaigns: cases *inside* one known-finding region, full oracle, no exclusion
pub struct Probe(pub u8);

impl Campaign for Probe {
    type Case = RtCase;
    fn name(&self) -> &'static str {
        match self.0 {
            0 => "probe_v5_disconnect_reason_without_properties",
            1 => "probe_client_v5_disconnect_remaining_length_0",
            2 => "probe_v5_publish_subscription_id_cursor",
            _ => "probe_broker_v5_decodes_connack_unsuback",
        }
    }
    fn cases(&self, tier: Tier) -> u64 {
        tier.pick(200, 2000)
    }
    fn probes_known(&self) -> Vec<&'static str> {
        match self.0 {
            0 => vec![
                "encode_size:client_v5:Disconnect",
                "encode_size:broker_v5:Disconnect",
                "encode_content:client_v5:Disconnect:reason",
                "encode_content:broker_v5:Disconnect:reason",
            ],
            1 => vec!["roundtrip_decode_error:client_v5:Disconnect:PayloadRequired"],
            2 => vec!["roundtrip_mismatch:client_v5:Publish:payload+props", "roundtrip_mismatch:broker_v5:Publish:payload+props"],
            _ => vec![SIG_UNREACHABLE],
        }
    }
    fn strategy(&self, _tier: Tier) -> BoxedStrategy<RtCase> {
        let v5 = Ver::V5;
        match self.0 {
            0 => (gen::disconnect(v5), any::<bool>(), any::<bool>(), 1usize..crate::codec::adapt::codes::DISCONNECT.len())
                .prop_map(|(m, force_some, client, r)| {
                    let M::Disconnect(mut d) = m else { unreachable!() };
                    d.reason = crate::codec::adapt::codes::DISCONNECT[r];
                    d.props = Props { force_some, ..Props::default() };
                    RtCase { ver: Ver::V5, m: M::Disconnect(d), only: Some(if client { Kind::ClientV5 } else { Kind::BrokerV5 }) }
                })
                .boxed(),
            1 => any::<bool>()
                .prop_map(|force_some| RtCase {
                    ver: Ver::V5,
                    m: M::Disconnect(Disconnect { reason: 0, props: Props { force_some, ..Props::default() } }),
                    only: Some(Kind::ClientV5),
                })
                .boxed(),
            2 => (
                gen::publish(v5),
                prop::option::of(0u32..=2),
                prop::collection::vec(prop_oneof![3 => 1u32..=127, 1 => gen::sub_id()], 3..=5),
                any::<bool>(),
            )
                .prop_map(|(m, ct_len, ids, client)| {
                    let M::Publish(mut p) = m else { unreachable!() };
                    p.props.content_type = ct_len.map(|len| Txt { pat: "t".into(), len });
                    p.props.subscription_ids = ids;
                    RtCase { ver: Ver::V5, m: M::Publish(p), only: Some(if client { Kind::ClientV5 } else { Kind::BrokerV5 }) }
                })
                .boxed(),
            _ => prop_oneof![gen::connack(v5), gen::unsuback(v5)]
                .prop_map(|m| RtCase { ver: Ver::V5, m, only: Some(Kind::BrokerV5) })
                .boxed(),
        }
    }
    fn check(&self, c: &RtCase, obs: &mut Obs) -> Result<(), Failure> {
        run(c, false, obs)
    }
}

pub fn plan(_tier: Tier) -> Plan {
    Plan {
        campaigns: vec![Box::new(crate::fuzzdec::FuzzReplay("fuzz_roundtrip", "roundtrip")), Box::new(Roundtrip), Box::new(Huge), Box::new(BytesRoundtrip), Box::new(Probe(0)), Box::new(Probe(1)), Box::new(Probe(2)), Box::new(Probe(3))],
        enumerators: vec![Box::new(|rep: &mut Report| {
            // pre-register the type x version x width matrix so that empty cells are visible
            for c in cells() {
                rep.classes.entry(format!("roundtrip:{c}")).or_insert(0);
            }
        })],
        rule: "A case is (protocol version, packet value M) built by construction from boundary-biased sub-generators (string lengths 0,1,2,127,128,255,256,65534,65535 and multi-byte UTF-8; pkid edges; 1-40 filters/codes; every v5 property independently on/off incl. Some-but-empty property sets; user properties 0-5; subscription identifiers on varint boundaries; every reason code legal for the type); about 40 % of the cases are stretched (payload, client id, last filter or reason string) so that the remaining length is 125..130 or 16381..16386 (2097149..2097154 in the campaign roundtrip_2mib: 60 cases in the quick tier, 480 in the thorough one). Each case is encoded by both codecs of its version and checked by the four oracle clauses (sizes/frame vs reference framer and reference decoder; decode with 3 sentinel bytes and max = remaining length; cross decode client->broker / broker->client in the direction the packet travels; re-encode byte equality). Non-trivial = the packet has at least one variable-length field (string, binary, list, or a variable-length property) and at least one clause ran; shapes are (type, version, remaining-length width, property-count bucket); distinct by hash of the whole case. Classes 'cell:<type>:<version>:width<n>' are the type x version x width matrix (zero cells listed).".into(),
        assumptions: vec![
            "The reference framer/encoder/decoder in harness/src/codec/reference.rs follow MQTT 3.1.1 (OASIS 2014) and MQTT 5.0 (OASIS 2019) wire formats".into(),
            "Well-formed per codec: Some(empty properties) and None are the same packet; a Login with an empty password has no password (the packet types cannot express a present zero-length password); a user name is non-empty whenever a Login exists; QoS 0 PUBLISH has packet id 0, QoS>0 a non-zero id; SUBSCRIBE/UNSUBSCRIBE/SUBACK/v5 UNSUBACK carry at least one entry; v4 packets carry no v5 content; broker SubscribeReasonCode::QoSn and Success(n) are the same code; subscription identifiers are 1..=268435455; topic alias is non-zero".into(),
            "Session-present is generated false for refusing CONNACKs (MQTT-3.2.2-4); DUP with QoS 0 is generated although MQTT-3.3.1-2 forbids it, because the statement quantifies over all flag combinations and no codec rejects it".into(),
            "rumqttc v5 Packet::Auth is not covered: its reason-code and property types are not exported, so no caller can construct it".into(),
            "Known-finding regions are excluded from the main campaign by predicate on the case (counters excluded*) and searched by the probe_* campaigns".into(),
        ],
        min_nontrivial: 40_000,
    }
}
