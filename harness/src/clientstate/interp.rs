//! Reference model, interpreter core and the observation-only oracle clauses.
//! The per-op handlers live in `ops.rs`.

use super::sut::*;
use super::*;
use crate::engine::{Failure, Obs};
use rumqttc::Outgoing;
use std::collections::{BTreeMap, BTreeSet, VecDeque};

#[derive(Clone, Copy, PartialEq, Eq, Debug)]
pub enum St {
    /// PUBLISH on the wire, no acknowledgement yet
    InFlight,
    /// QoS 2: PUBREC received, PUBREL sent, PUBCOMP outstanding
    AwaitComp,
    /// accepted by the state machine but parked: its id is held by an older publish
    Blocked,
}

impl St {
    pub fn name(self) -> &'static str {
        match self {
            St::InFlight => "inflight",
            St::AwaitComp => "awaiting_pubcomp",
            St::Blocked => "blocked",
        }
    }
}

#[derive(Clone, Debug)]
pub struct Entry {
    pub serial: u32,
    pub qos: u8,
    pub pkid: u16,
    pub st: St,
}

/// Reference model of one client session, written from the MQTT rules and the property texts
#[derive(Clone, Debug)]
pub struct Model {
    pub v5: bool,
    pub manual: bool,
    /// configured inflight limit
    pub limit: u16,
    /// effective window: min(limit, receive_max) once a CONNACK announced one (v5)
    pub eff: u16,
    /// accepted, not finally acknowledged QoS>0 publishes, in acceptance (= first send) order.
    /// At most one entry is Blocked and it is the last one.
    pub live: Vec<Entry>,
    /// inbound QoS 2 ids received and not yet released; true = certainly recorded (this connection)
    pub rec: BTreeMap<u16, bool>,
    /// inbound publishes waiting for a manual acknowledgement
    pub to_ack: Vec<(u16, u8)>,
    /// topic aliases defined on this connection
    pub aliases: BTreeSet<u16>,
    /// last id seen allocated (0: none yet)
    pub last_alloc: u16,
    /// the allocator position as cyclic allocation 1..=window implies (0 after the window's last id)
    pub alloc_pos: u16,
    pub last_done: u16,
    /// id of the last publish a PUBACK completed (0: none yet) — base of the G11M region rule
    pub last_acked1: u16,
    /// C11: the history so far is one for which the statement promises send order
    pub order_armed: bool,
}

impl Model {
    pub fn unacked(&self) -> usize {
        self.live.iter().filter(|e| e.st != St::Blocked).count()
    }
    pub fn blocked(&self) -> Option<&Entry> {
        self.live.iter().find(|e| e.st == St::Blocked)
    }
    pub fn holder(&self, pkid: u16) -> Option<&Entry> {
        self.live.iter().find(|e| e.pkid == pkid && e.st != St::Blocked)
    }
}

#[derive(Clone, Default, Debug)]
pub struct Stats {
    pub steps: u64,
    pub skipped_gate: u64,
    pub skipped_na: u64,
    pub collisions: u64,
    pub collisions_resolved: u64,
    pub wraps: u64,
    pub fails: u64,
    pub fail_resumed_unacked: u64,
    pub fail_wrapped2: u64,
    /// G11M order checks with >= 2 QoS 1 publishes whose ids wrapped while QoS 2 traffic was mixed in
    pub order_checks_mixed2: u64,
    pub saw_qos2: bool,
    pub replayed: u64,
    pub in_qos2_flows: u64,
    pub rejected_acks: u64,
    pub rejected_other: u64,
    pub lenient: u64,
    pub out_of_order_acks: u64,
    pub excl: [u64; 10],
    pub foreign_abort: u64,
    pub max_unacked: usize,
    pub order_checks: u64,
}

pub enum Stop {
    Fail(Failure),
    /// a clause of a group this campaign does not assert failed: the case is abandoned
    Foreign,
}

impl From<Failure> for Stop {
    fn from(f: Failure) -> Stop {
        Stop::Fail(f)
    }
}

pub type R<T> = Result<T, Stop>;

#[derive(Clone)]
pub struct Run {
    pub cfg: Cfg,
    pub sut: Sut,
    pub m: Model,
    pub pending: VecDeque<Req>,
    pub st: Stats,
    pub serial: u32,
    pub fail_no: u32,
    pub resume_bits: u32,
    pub step_no: usize,
    pub foreign: bool,
    pub log: Vec<(&'static str, u32, u32)>,
}

/// clause: own group -> failure, foreign group -> abandon the case
#[macro_export]
macro_rules! cl {
    ($self:ident, $g:expr, $cond:expr, $sig:expr, $($arg:tt)*) => {
        if !($cond) {
            return Err($self.stop($g, $sig.to_string(), format!($($arg)*)));
        }
    };
}

impl Run {
    pub fn new(cfg: Cfg, case: &Case) -> Result<Run, Failure> {
        let limit = case.limit.max(1);
        Ok(Run {
            cfg,
            sut: Sut::new(case.v5, limit, case.manual_acks)?,
            m: Model {
                v5: case.v5,
                manual: case.manual_acks,
                limit,
                eff: limit,
                live: Vec::new(),
                rec: BTreeMap::new(),
                to_ack: Vec::new(),
                aliases: BTreeSet::new(),
                last_alloc: 0,
                alloc_pos: 0,
                last_done: 0,
                last_acked1: 0,
                order_armed: !case.v5,
            },
            pending: VecDeque::new(),
            st: Stats::default(),
            serial: 0,
            fail_no: 0,
            resume_bits: case.resume_bits,
            step_no: 0,
            foreign: false,
            log: Vec::new(),
        })
    }

    /// protocol version of the state machine under test: part of every signature
    pub fn vtag(&self) -> &'static str {
        if self.m.v5 {
            "v5"
        } else {
            "v4"
        }
    }

    pub fn on(&self, g: u8) -> bool {
        self.cfg.groups & g != 0
    }

    pub fn stop(&self, g: u8, sig: String, detail: String) -> Stop {
        if self.on(g) {
            Stop::Fail(Failure::new(format!("{sig}@{}", self.vtag()), format!("{detail}\n{}", self.render())))
        } else {
            Stop::Foreign
        }
    }

    /// observation-only clause: a foreign failure is remembered and the step goes on so that
    /// the campaign's own clauses are still evaluated on this state
    pub fn soft(&mut self, g: u8, ok: bool, sig: impl FnOnce() -> String, detail: impl FnOnce() -> String) -> R<()> {
        if ok {
            return Ok(());
        }
        if self.on(g) {
            Err(Stop::Fail(Failure::new(format!("{}@{}", sig(), self.vtag()), format!("{}\n{}", detail(), self.render()))))
        } else {
            self.foreign = true;
            Ok(())
        }
    }

    pub fn bail_if_foreign(&self) -> R<()> {
        if self.foreign {
            Err(Stop::Foreign)
        } else {
            Ok(())
        }
    }

    pub fn note(&mut self, kind: &'static str, a: u32, b: u32) {
        self.log.push((kind, a, b));
    }

    pub fn exclude(&mut self, region: u16) {
        self.st.excl[region.trailing_zeros() as usize] += 1;
    }

    pub fn render(&self) -> String {
        let mut s = format!(
            "  {} limit={} window={} manual_acks={} | executed:",
            if self.m.v5 { "v5" } else { "v4" },
            self.m.limit,
            self.m.eff,
            self.m.manual
        );
        let skip = self.log.len().saturating_sub(60);
        if skip > 0 {
            s.push_str(&format!(" ...({skip} earlier)"));
        }
        for (k, a, b) in self.log.iter().skip(skip) {
            s.push_str(&format!(" {k}({a},{b})"));
        }
        s.push_str("\n  model not-done set:");
        for e in &self.m.live {
            s.push_str(&format!(" #{}:qos{}:id{}:{}", e.serial, e.qos, e.pkid, e.st.name()));
        }
        s.push_str(&format!(
            "\n  state: inflight()={} collision={:?}",
            self.sut.inflight(),
            self.sut.collision().map(|c| (c.serial, c.pkid))
        ));
        s
    }

    /// The precondition under which the event loop takes a new user request
    pub fn gate_open(&self) -> bool {
        let lim = if self.m.v5 { self.m.eff } else { self.m.limit };
        self.sut.inflight() < lim && !self.sut.has_collision()
    }

    pub fn note_alloc(&mut self, id: u16) {
        if self.m.last_alloc != 0 && id <= self.m.last_alloc {
            self.st.wraps += 1;
        }
        self.m.last_alloc = id;
        self.m.alloc_pos = if id == self.m.eff { 0 } else { id };
    }

    /// C07: an id put on the wire by SUBSCRIBE / UNSUBSCRIBE / a fresh PUBLISH
    pub fn check_fresh_id(&self, id: u16, what: &'static str) -> R<()> {
        cl!(self, G07, id != 0, format!("c07:zero_packet_id:{what}"), "{what} carries packet id 0");
        cl!(
            self,
            G07,
            id <= self.m.limit,
            format!("c07:packet_id_above_limit:{what}"),
            "{what} carries packet id {id} > configured limit {}",
            self.m.limit
        );
        Ok(())
    }

    /// C10 write <=> announce, and the Incoming notification
    pub fn check_events(&mut self, out: &Outcome, fed: bool, await_ack: Option<u16>, what: &'static str) -> R<()> {
        let mut incoming = 0usize;
        let mut outs: Vec<Outgoing> = Vec::new();
        let mut awaits: Vec<u16> = Vec::new();
        let mut first_ok = true;
        let mut eq_ok = true;
        for (i, e) in out.events.iter().enumerate() {
            match e {
                NEvent::Incoming(eq) => {
                    incoming += 1;
                    if i != 0 {
                        first_ok = false;
                    }
                    if !*eq {
                        eq_ok = false;
                    }
                }
                NEvent::Outgoing(Outgoing::AwaitAck(id)) => awaits.push(*id),
                NEvent::Outgoing(o) => outs.push(o.clone()),
            }
        }
        let ev = || format!("{:?}", out.events);
        if fed {
            self.soft(G10, incoming == 1, || format!("c10:incoming_event_count:{what}"), || {
                format!("{incoming} Incoming notifications for one received {what}: {}", ev())
            })?;
            self.soft(G10, first_ok, || format!("c10:incoming_event_not_first:{what}"), || {
                format!("the Incoming notification is not ahead of the Outgoing it caused: {}", ev())
            })?;
            self.soft(G10, eq_ok, || format!("c10:incoming_event_differs:{what}"), || {
                format!("the Incoming notification differs from the received packet: {}", ev())
            })?;
        } else {
            self.soft(G10, incoming == 0, || format!("c10:spurious_incoming_event:{what}"), || {
                format!("Incoming notification without a received packet: {}", ev())
            })?;
        }
        match &out.ret {
            Ok(Some(p)) => {
                let a = p.announce();
                match outs.iter().position(|o| Some(o) == a.as_ref()) {
                    Some(i) => {
                        outs.remove(i);
                    }
                    None => {
                        let k = p.kind();
                        self.soft(G10, false, || format!("c10:write_not_announced:{k}"), || {
                            format!("{what}: returned {p:?} for writing but notifications are {}", ev())
                        })?;
                    }
                }
                if let Some(x) = outs.first() {
                    let k = outgoing_kind(x);
                    self.soft(G10, false, || format!("c10:announced_not_written:{k}"), || {
                        format!("{what}: announced {x:?} but the call returned {:?}; notifications {}", out.ret, ev())
                    })?;
                }
            }
            Ok(None) => {
                if let Some(x) = outs.first() {
                    let k = outgoing_kind(x);
                    self.soft(G10, false, || format!("c10:announced_not_written:{k}"), || {
                        format!("{what}: announced {x:?} but returned no packet; notifications {}", ev())
                    })?;
                }
            }
            Err(e) => {
                if let Some(x) = outs.first() {
                    let k = outgoing_kind(x);
                    self.soft(G10, false, || format!("c10:announced_not_written_on_error:{k}"), || {
                        format!("{what}: announced {x:?} but returned Err({e}); notifications {}", ev())
                    })?;
                }
            }
        }
        let want: Vec<u16> = await_ack.into_iter().collect();
        self.soft(G10, awaits == want, || format!("c10:awaitack_event_mismatch:{what}"), || {
            format!("AwaitAck notifications {awaits:?}, expected {want:?}")
        })?;
        Ok(())
    }

    /// Compares what `clean()` reveals (+ `collision`) with the model's not-done set.
    /// Returns the structural key of the first difference.
    pub fn diff_sets(&self, reqs: &[NReq], coll: Option<&NPub>) -> Option<(String, String)> {
        let live = &self.m.live;
        let mut seen = vec![false; live.len()];
        for r in reqs {
            match r {
                NReq::Publish(p) => {
                    let Some(i) = live.iter().position(|e| Some(e.serial) == p.serial) else {
                        return Some(("resurrected_publish".into(), format!("clean() returns {p:?} which is not an unacknowledged publish")));
                    };
                    let e = &live[i];
                    if seen[i] {
                        return Some(("duplicated_publish".into(), format!("clean() returns publish #{} twice", e.serial)));
                    }
                    seen[i] = true;
                    match e.st {
                        St::AwaitComp => {
                            return Some(("resurrected_publish:released".into(), format!("clean() returns PUBLISH #{} although it was received (PUBREC) and only its release is pending", e.serial)))
                        }
                        St::Blocked if coll.is_some() => {
                            return Some(("duplicated_publish:blocked".into(), format!("blocked publish #{} is both in clean() and in collision", e.serial)))
                        }
                        _ => {}
                    }
                    if p.pkid != e.pkid {
                        return Some(("altered_publish:pkid".into(), format!("publish #{} had id {} and is held with id {}", e.serial, e.pkid, p.pkid)));
                    }
                    if p.qos != e.qos || p.topic != OUT_TOPIC || p.retain {
                        return Some(("altered_publish:content".into(), format!("publish #{} is held as {p:?}", e.serial)));
                    }
                }
                NReq::PubRel(id) => {
                    match live.iter().enumerate().position(|(i, e)| e.st == St::AwaitComp && e.pkid == *id && !seen[i]) {
                        Some(i) => seen[i] = true,
                        None => return Some(("resurrected_release".into(), format!("clean() returns PUBREL({id}) but no QoS 2 publish with that id is between PUBREC and PUBCOMP"))),
                    }
                }
                NReq::Other(k) => return Some(("foreign_request".into(), format!("clean() returns a {k} request"))),
            }
        }
        if let Some(c) = coll {
            match live.iter().position(|e| Some(e.serial) == c.serial) {
                Some(i) if live[i].st == St::Blocked => {
                    seen[i] = true;
                    if c.pkid != live[i].pkid || c.qos != live[i].qos || c.topic != OUT_TOPIC {
                        return Some(("altered_publish:blocked".into(), format!("blocked publish #{} is held as {c:?}", live[i].serial)));
                    }
                }
                Some(i) => {
                    return Some(("resurrected_publish:collision".into(), format!("collision holds publish #{} which is {}", live[i].serial, live[i].st.name())))
                }
                None => return Some(("resurrected_publish:collision".into(), format!("collision holds {c:?} which is not an unacknowledged publish"))),
            }
        }
        for (i, e) in live.iter().enumerate() {
            if !seen[i] {
                return Some(match e.st {
                    St::AwaitComp => ("lost_release".into(), format!("PUBREL({}) of publish #{} is pending but neither clean() nor collision holds it", e.pkid, e.serial)),
                    st => (format!("lost_publish:{}", st.name()), format!("publish #{} (qos {}, id {}, {}) is not finally acknowledged but neither clean() nor collision holds it", e.serial, e.qos, e.pkid, st.name())),
                });
            }
        }
        None
    }

    /// C11: the publishes returned by clean() are in original send order
    pub fn check_order(&mut self, reqs: &[NReq]) -> R<()> {
        if !self.on(G11) || !self.m.order_armed {
            return Ok(());
        }
        let mixed = self.on(G11M);
        if mixed {
            // Region rule (K9 family): rotating at "last PUBACK + 1" is the send order only while
            // every id handed out since that PUBACK is still held. Completed QoS 2 flows consume
            // ids without holding them, exactly like SUBSCRIBE does. The order is asserted when the
            // held ids, in send order, increase cyclically from the id after the last PUBACK.
            let m = self.m.limit as u32;
            let base = self.m.last_acked1 as u32 + 1;
            let offs: Vec<u32> =
                self.m.live.iter().filter(|e| e.st != St::Blocked).map(|e| (e.pkid as u32 + m - base) % m).collect();
            if offs.windows(2).any(|w| w[0] >= w[1]) {
                if self.cfg.excluded(R_K9) {
                    self.exclude(R_K9);
                    return Ok(());
                }
            }
        }
        self.st.order_checks += 1;
        let got: Vec<u32> = reqs
            .iter()
            .filter_map(|r| match r {
                NReq::Publish(p) if !mixed || p.qos == 1 => p.serial,
                _ => None,
            })
            .collect();
        let want: Vec<u32> = self
            .m
            .live
            .iter()
            .filter(|e| e.st == St::InFlight && (!mixed || e.qos == 1))
            .map(|e| e.serial)
            .collect();
        if mixed && want.len() >= 2 && self.st.saw_qos2 {
            let ids1: Vec<u16> =
                self.m.live.iter().filter(|e| e.st == St::InFlight && e.qos == 1).map(|e| e.pkid).collect();
            if ids1.windows(2).any(|w| w[0] > w[1]) {
                self.st.order_checks_mixed2 += 1;
            }
        }
        let mut a = got.clone();
        let mut b = want.clone();
        a.sort_unstable();
        b.sort_unstable();
        if a != b {
            // the set clause belongs to C02
            self.foreign = true;
            return Ok(());
        }
        let ids: Vec<u16> = self.m.live.iter().filter(|e| e.st == St::InFlight).map(|e| e.pkid).collect();
        cl!(
            self,
            G11,
            got == want,
            "c11:clean_order",
            "clean() returns the unacknowledged publishes in order {got:?}; they were sent in order {want:?} (ids {ids:?})"
        );
        Ok(())
    }

    /// After every step: window bookkeeping (C07) and the retransmission set (C02, C11)
    pub fn check_state(&mut self, after: &'static str) -> R<()> {
        let n = self.m.unacked();
        self.st.max_unacked = self.st.max_unacked.max(n);
        let inf = self.sut.inflight();
        self.soft(G07, inf as usize == n, || format!("c07:inflight_count_mismatch:after={after}"), || {
            format!("inflight() = {inf} but {n} publishes are unacknowledged")
        })?;
        let coll = self.sut.collision();
        if let Some(c) = &coll {
            let held = self.m.holder(c.pkid).is_some();
            self.soft(G07, held, || format!("c07:collision_without_holder:after={after}"), || {
                format!("a publish is parked waiting for id {} but no unacknowledged publish holds that id: it can never be released", c.pkid)
            })?;
        }
        let every = if self.m.limit > 1024 { 64 } else { 1 };
        if (self.on(G02) || self.on(G11)) && self.step_no % every == 0 {
            let (reqs, coll_after) = self.sut.peek_clean()?;
            if let Some((key, detail)) = self.diff_sets(&reqs, coll_after.as_ref()) {
                self.soft(G02, false, || format!("c02:{key}:after={after}"), || detail)?;
            }
            self.check_order(&reqs)?;
        }
        self.bail_if_foreign()
    }

    /// C10: "... rather than corrupting its bookkeeping", evaluated right after a rejected ack
    pub fn check_bookkeeping_after_reject(&mut self, what: &'static str) -> R<()> {
        let n = self.m.unacked();
        let inf = self.sut.inflight();
        self.soft(G10, inf as usize == n, || format!("c10:bookkeeping_after_rejected_ack:inflight:{what}"), || {
            format!("after the rejected {what}: inflight() = {inf} but {n} publishes are unacknowledged")
        })?;
        if self.on(G10) {
            let (reqs, coll) = self.sut.peek_clean()?;
            if let Some((key, detail)) = self.diff_sets(&reqs, coll.as_ref()) {
                self.soft(G10, false, || format!("c10:bookkeeping_after_rejected_ack:{key}:{what}"), || {
                    format!("after the rejected {what}: {detail}")
                })?;
            }
        }
        Ok(())
    }

    pub fn report(&self, obs: &mut Obs) {
        let s = &self.st;
        obs.count("steps", s.steps);
        obs.count("skipped_gate_closed", s.skipped_gate);
        obs.count("skipped_not_applicable", s.skipped_na);
        obs.count("collisions", s.collisions);
        obs.count("collisions_resolved", s.collisions_resolved);
        obs.count("id_wraps", s.wraps);
        obs.count("failures", s.fails);
        obs.count("replayed_requests", s.replayed);
        obs.count("rejected_acks", s.rejected_acks);
        obs.count("inbound_qos2_flows", s.in_qos2_flows);
        obs.count("lenient_outcomes", s.lenient);
        obs.count("clean_order_checks", s.order_checks);
        obs.count("abandoned_foreign_clause", s.foreign_abort);
        const NAMES: [&str; 8] = [
            "excluded_k1_v4_pubcomp_releases_collision",
            "excluded_k3_v5_pubcomp_on_parked_id",
            "excluded_k4_sessionless_reconnect_with_collision",
            "excluded_k5_unknown_alias_empty_topic",
            "excluded_k6_publish_while_next_id_awaits_pubcomp",
            "excluded_k7_failure_reason_code",
            "excluded_k8_receive_max_below_allocator",
            "excluded_k9_order_disarmed",
        ];
        for (i, n) in NAMES.iter().enumerate() {
            if s.excl[i] > 0 {
                obs.count(n, s.excl[i]);
            }
        }
        if s.excl[9] > 0 {
            obs.count("clamped_receive_max_below_carried_requests", s.excl[9]);
        }
        obs.class_if(s.collisions > 0, "collision");
        obs.class_if(s.collisions_resolved > 0, "collision_resolved");
        obs.class_if(s.wraps > 0, "ids_wrapped");
        obs.class_if(s.wraps > 2, "ids_wrapped_3plus");
        obs.class_if(s.fails > 0, "failure");
        obs.class_if(s.fail_resumed_unacked > 0, "resumed_with_unacked");
        obs.class_if(s.fail_wrapped2 > 0, "failure_with_wrapped_unacked");
        obs.class_if(s.out_of_order_acks > 0, "out_of_order_ack");
        obs.class_if(s.rejected_acks > 0, "rejected_ack");
        obs.class_if(s.in_qos2_flows > 0, "inbound_qos2_flow");
        obs.class_if(s.max_unacked as u64 >= self.m.limit as u64, "window_filled");
        obs.class_if(self.m.v5, "v5");
        obs.class_if(self.m.manual, "manual_acks");
    }
}

/// Executes a case. `Ok(run)` = no own clause failed.
pub fn run_case(cfg: Cfg, case: &Case, obs: &mut Obs) -> Result<Run, Failure> {
    let mut run = Run::new(cfg, case)?;
    let r = run.execute(case);
    match r {
        Ok(()) => {}
        Err(Stop::Foreign) => run.st.foreign_abort += 1,
        Err(Stop::Fail(f)) => {
            run.report(obs);
            return Err(f);
        }
    }
    run.report(obs);
    Ok(run)
}
