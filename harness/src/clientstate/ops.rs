//! Per-op handlers of the interpreter: feed one op to the state machine the way the event loop
//! would, compare with the reference model, update the model.

use super::interp::*;
use super::sut::*;
use super::*;
use crate::cl;
use crate::engine::idx;

#[derive(Clone, Copy, PartialEq, Eq, Debug)]
enum AK {
    Ack,
    Rec,
    Comp,
}

impl Run {
    pub fn execute(&mut self, case: &Case) -> R<()> {
        // warm-up: SUBSCRIBE requests that only move the id allocator
        for _ in 0..case.warmup_subs {
            if !self.gate_open() {
                break;
            }
            let out = self.sut.outgoing(self.sut.user_req(&UserReq::Subscribe))?;
            match &out.ret {
                Ok(Some(NPkt::Subscribe(id))) => {
                    self.check_fresh_id(*id, "subscribe")?;
                    self.note_alloc(*id);
                }
                other => cl!(self, G10, false, "c10:request_rejected:subscribe", "subscribe returned {other:?}"),
            }
        }
        if case.warmup_subs > 0 {
            self.note("warmup_subs", case.warmup_subs as u32, 0);
            if self.cfg.excluded(R_K9) {
                self.m.order_armed = false;
            }
        }
        for (i, op) in case.ops.iter().enumerate() {
            self.step_no = i + 1;
            if let Some(kind) = self.step(op)? {
                self.st.steps += 1;
                self.check_state(kind)?;
            }
        }
        // final full comparison (big limits are sampled during the run)
        self.step_no = 0;
        self.check_state("end")
    }

    /// One op plus the after-every-step checks (used by enumerators). Ok(false): the op's
    /// precondition does not hold in this state (skipped).
    pub fn apply(&mut self, op: &Op) -> R<bool> {
        self.step_no += 1;
        match self.step(op)? {
            Some(kind) => {
                self.st.steps += 1;
                self.check_state(kind)?;
                Ok(true)
            }
            None => Ok(false),
        }
    }

    fn skip_gate(&mut self) -> R<Option<&'static str>> {
        self.st.skipped_gate += 1;
        Ok(None)
    }

    fn skip_na(&mut self) -> R<Option<&'static str>> {
        self.st.skipped_na += 1;
        Ok(None)
    }

    /// Returns the op kind when the op was executed, None when it was skipped
    fn step(&mut self, op: &Op) -> R<Option<&'static str>> {
        match *op {
            Op::Pub { qos } => self.h_pub(qos.min(2)),
            Op::Sub => self.h_sub(false),
            Op::Unsub => self.h_sub(true),
            Op::ManAck { sel } => self.h_manack(sel),
            Op::Disc => self.h_disc(),
            Op::Ping => self.h_ping(),
            Op::Ack { sel, nm } => {
                let n = self.m.unacked();
                if n == 0 {
                    return self.skip_na();
                }
                let rc = if nm { Rc::NoMatch } else { Rc::Success };
                self.h_next_ack(idx(sel, n), rc)
            }
            Op::AckOldest => {
                if self.m.unacked() == 0 {
                    return self.skip_na();
                }
                self.h_next_ack(0, Rc::Success)
            }
            Op::AckBlocker => {
                let Some(b) = self.m.blocked() else { return self.skip_na() };
                let id = b.pkid;
                let Some(i) = self.m.live.iter().filter(|e| e.st != St::Blocked).position(|e| e.pkid == id) else {
                    return self.skip_na();
                };
                self.h_next_ack(i, Rc::Success)
            }
            Op::NegAck { sel } => {
                let n = self.m.unacked();
                if n == 0 {
                    return self.skip_na();
                }
                let rc = if self.m.v5 && self.cfg.excluded(R_K7) {
                    self.exclude(R_K7);
                    Rc::Success
                } else {
                    Rc::Fail
                };
                self.h_next_ack(idx(sel, n), rc)
            }
            Op::BadAck { kind, idc, sel } => self.h_bad_ack(kind, idc, sel),
            Op::InPub { qos, idc, id, alias } => self.h_inpub(qos.min(2), idc, id, alias),
            Op::InRel { known, sel } => self.h_inrel(known, sel),
            Op::SubAck { id } => self.h_plain_in(InPkt::SubAck { id }, "suback"),
            Op::UnsubAck { id } => self.h_plain_in(InPkt::UnsubAck { id }, "unsuback"),
            Op::PingResp => self.h_plain_in(InPkt::PingResp, "pingresp"),
            Op::SrvDisc => self.h_srvdisc(),
            Op::ConnAckMid { rmax } => self.h_connack_mid(rmax),
            Op::Fail { sp, rmax } => {
                self.do_fail(Some(sp), if rmax == 0 { None } else { Some(rmax) })?;
                Ok(Some("fail"))
            }
        }
    }

    // ------------------------------------------------------------------ user requests

    fn h_pub(&mut self, qos: u8) -> R<Option<&'static str>> {
        if !self.gate_open() {
            return self.skip_gate();
        }
        if qos > 0 && self.cfg.excluded(R_K6) {
            // cyclic allocation 1..=window; the unfixed v5 allocator does not start over when a
            // CONNACK lowered the window below its position (K8)
            let next = if region_fixed(R_K8) && self.m.alloc_pos >= self.m.eff { 1 } else { self.m.alloc_pos.saturating_add(1) };
            if self.m.live.iter().any(|e| e.st == St::AwaitComp && e.pkid == next) {
                self.exclude(R_K6);
                return Ok(None);
            }
        }
        if qos == 2 {
            self.st.saw_qos2 = true;
        }
        if qos == 2 && !self.on(G11M) {
            self.m.order_armed = false;
        }
        self.serial += 1;
        let serial = self.serial;
        let out = self.sut.outgoing(self.sut.user_req(&UserReq::Publish { qos, serial }))?;
        self.note("pub", qos as u32, serial);
        match &out.ret {
            Err(e) => cl!(self, G02, false, format!("c02:publish_rejected:{e}"), "the state machine consumed user publish #{serial} (qos {qos}) and returned Err({e}): the message is gone"),
            Ok(Some(NPkt::Publish(p))) => {
                cl!(self, G02, p.serial == Some(serial) && p.qos == qos && p.topic == OUT_TOPIC && !p.retain, "c02:publish_altered_on_send", "user publish #{serial} qos {qos} goes out as {p:?}");
                if qos > 0 {
                    self.check_fresh_id(p.pkid, "publish")?;
                    if let Some(h) = self.m.holder(p.pkid) {
                        let (hs, hst) = (h.serial, h.st.name());
                        cl!(self, G07, false, format!("c07:id_reused:{hst}"), "PUBLISH #{serial} is emitted with id {} while publish #{hs} with the same id is still {hst}", p.pkid);
                    }
                    self.note_alloc(p.pkid);
                    self.m.live.push(Entry { serial, qos, pkid: p.pkid, st: St::InFlight });
                    let n = self.m.unacked();
                    cl!(self, G07, n <= self.m.eff as usize, "c07:window_exceeded", "{n} publishes unacknowledged, window is {}", self.m.eff);
                }
                self.check_events(&out, false, None, "publish")?;
            }
            Ok(None) => {
                let c = self.sut.collision();
                let ok = qos > 0 && c.as_ref().is_some_and(|c| c.serial == Some(serial) && c.qos == qos);
                cl!(self, G02, ok, "c02:publish_swallowed", "user publish #{serial} (qos {qos}) produced no packet and is not parked in collision ({c:?})");
                let c = c.unwrap();
                self.check_fresh_id(c.pkid, "publish")?;
                self.note_alloc(c.pkid);
                self.m.live.push(Entry { serial, qos, pkid: c.pkid, st: St::Blocked });
                self.st.collisions += 1;
                self.check_events(&out, false, Some(c.pkid), "publish")?;
            }
            Ok(Some(other)) => cl!(self, G10, false, "c10:wrong_packet_for_request:publish", "publish request returned {other:?}"),
        }
        Ok(Some("pub"))
    }

    fn h_sub(&mut self, unsub: bool) -> R<Option<&'static str>> {
        if !self.gate_open() {
            return self.skip_gate();
        }
        let (req, what) = if unsub { (UserReq::Unsubscribe, "unsubscribe") } else { (UserReq::Subscribe, "subscribe") };
        let out = self.sut.outgoing(self.sut.user_req(&req))?;
        let id = match &out.ret {
            Ok(Some(NPkt::Subscribe(id))) if !unsub => *id,
            Ok(Some(NPkt::Unsubscribe(id))) if unsub => *id,
            other => {
                cl!(self, G10, false, format!("c10:request_rejected:{what}"), "{what} returned {other:?}");
                0
            }
        };
        self.note(what, id as u32, 0);
        self.check_fresh_id(id, what)?;
        self.note_alloc(id);
        self.check_events(&out, false, None, what)?;
        if self.cfg.excluded(R_K9) && self.m.order_armed {
            // ids consumed without holding a slot: clean()'s rotation heuristic is off (K9)
            self.m.order_armed = false;
            self.exclude(R_K9);
        }
        Ok(Some(what))
    }

    fn h_manack(&mut self, sel: u16) -> R<Option<&'static str>> {
        if !self.m.manual || self.m.to_ack.is_empty() {
            return self.skip_na();
        }
        if !self.gate_open() {
            return self.skip_gate();
        }
        let i = idx(sel, self.m.to_ack.len());
        let (id, qos) = self.m.to_ack.remove(i);
        let (req, want, what) = if qos == 1 {
            (UserReq::PubAck(id), NPkt::PubAck(id), "manual_puback")
        } else {
            (UserReq::PubRec(id), NPkt::PubRec(id), "manual_pubrec")
        };
        let out = self.sut.outgoing(self.sut.user_req(&req))?;
        self.note(what, id as u32, 0);
        cl!(self, G10, out.ret == Ok(Some(want.clone())), format!("c10:request_rejected:{what}"), "{what}({id}) returned {:?}", out.ret);
        self.check_events(&out, false, None, what)?;
        Ok(Some(what))
    }

    fn h_disc(&mut self) -> R<Option<&'static str>> {
        if !self.gate_open() {
            return self.skip_gate();
        }
        let out = self.sut.outgoing(self.sut.user_req(&UserReq::Disconnect))?;
        self.note("disconnect", 0, 0);
        cl!(self, G10, out.ret == Ok(Some(NPkt::Disconnect)), "c10:request_rejected:disconnect", "disconnect returned {:?}", out.ret);
        self.check_events(&out, false, None, "disconnect")?;
        self.bail_if_foreign()?;
        // the broker closes the connection after a DISCONNECT
        self.do_fail(None, None)?;
        Ok(Some("disconnect"))
    }

    fn h_ping(&mut self) -> R<Option<&'static str>> {
        let out = self.sut.outgoing(self.sut.user_req(&UserReq::PingReq))?;
        self.note("ping", out.ret.is_ok() as u32, 0);
        match &out.ret {
            Ok(Some(NPkt::PingReq)) => self.check_events(&out, false, None, "pingreq")?,
            Ok(other) => cl!(self, G10, false, "c10:wrong_packet_for_request:pingreq", "ping returned {other:?}"),
            Err(_) => {
                // keep-alive / collision timeout: a legitimate connection error
                self.check_events(&out, false, None, "pingreq")?;
                self.bail_if_foreign()?;
                self.do_fail(None, None)?;
            }
        }
        Ok(Some("ping"))
    }

    // ------------------------------------------------------------------ acknowledgements

    /// next legal ack of the i-th unacknowledged publish (send order)
    fn h_next_ack(&mut self, i: usize, rc: Rc) -> R<Option<&'static str>> {
        let e = self.m.live.iter().filter(|e| e.st != St::Blocked).nth(i).unwrap().clone();
        if i != 0 {
            self.st.out_of_order_acks += 1;
        }
        let k = match (e.st, e.qos) {
            (St::AwaitComp, _) => AK::Comp,
            (_, 1) => AK::Ack,
            _ => AK::Rec,
        };
        self.deliver_ack(k, e.pkid, rc)
    }

    fn h_bad_ack(&mut self, kind: u8, idc: u8, sel: u16) -> R<Option<&'static str>> {
        let k = match kind % 3 {
            0 => AK::Ack,
            1 => AK::Rec,
            _ => AK::Comp,
        };
        let limit = self.m.limit;
        let id = match idc % 6 {
            0 => {
                // an id within the limit that this kind of ack is not owed for
                let span = limit.min(64);
                let start = 1 + idx(sel, span as usize) as u16;
                let mut found = None;
                for d in 0..span {
                    let c = 1 + (start - 1 + d) % span;
                    if self.expects(k, c).is_none() && self.m.holder(c).is_none() {
                        found = Some(c);
                        break;
                    }
                }
                match found {
                    Some(c) => c,
                    None => return self.skip_na(),
                }
            }
            1 => {
                if limit >= u16::MAX - 3 {
                    return self.skip_na();
                }
                limit + 1 + (sel % 3)
            }
            2 => 0,
            3 => u16::MAX,
            4 => self.m.last_done,
            _ => {
                // an id held by a publish that is in another phase of its flow
                let cands: Vec<u16> = self
                    .m
                    .live
                    .iter()
                    .filter(|e| e.st != St::Blocked)
                    .filter(|e| self.expects(k, e.pkid).is_none())
                    .map(|e| e.pkid)
                    .collect();
                if cands.is_empty() {
                    return self.skip_na();
                }
                cands[idx(sel, cands.len())]
            }
        };
        self.deliver_ack(k, id, Rc::Success)
    }

    /// index (in `live`) of the entry that solicited this ack
    fn expects(&self, k: AK, id: u16) -> Option<usize> {
        self.m.live.iter().position(|e| {
            e.pkid == id
                && match k {
                    AK::Ack => e.st == St::InFlight && e.qos == 1,
                    AK::Rec => e.st == St::InFlight && e.qos == 2,
                    AK::Comp => e.st == St::AwaitComp,
                }
        })
    }

    fn deliver_ack(&mut self, k: AK, id: u16, rc: Rc) -> R<Option<&'static str>> {
        let v5 = self.m.v5;
        let rc = if v5 { rc } else { Rc::Success };
        let sol = self.expects(k, id);
        // PUBACK for a QoS 2 publish / PUBREC for a QoS 1 publish in flight: the broker answers
        // with the wrong flow. The statement does not say which way this must go: either outcome
        // is accepted as long as the bookkeeping stays consistent with it.
        let wrong_flow = if sol.is_none() && k != AK::Comp {
            self.m.live.iter().position(|e| e.pkid == id && e.st == St::InFlight)
        } else {
            None
        };
        let blocked_on = self.m.live.iter().position(|e| e.st == St::Blocked && e.pkid == id);
        let label: &'static str = match (k, sol.is_some(), wrong_flow.is_some(), rc == Rc::Fail) {
            (AK::Ack, true, _, false) => "puback",
            (AK::Rec, true, _, false) => "pubrec",
            (AK::Comp, true, _, false) => "pubcomp",
            (AK::Ack, true, _, true) => "neg_puback",
            (AK::Rec, true, _, true) => "neg_pubrec",
            (AK::Comp, true, _, true) => "neg_pubcomp",
            (AK::Ack, false, true, _) => "wrongflow_puback",
            (AK::Rec, false, true, _) => "wrongflow_pubrec",
            (AK::Ack, false, false, _) => "bad_puback",
            (AK::Rec, false, false, _) => "bad_pubrec",
            (AK::Comp, false, _, _) => "bad_pubcomp",
        };
        // known-defect regions avoided by construction
        if k == AK::Comp && blocked_on.is_some() {
            // PUBCOMP(p) while a publish is parked on p: K1 (v4, solicited: released but not
            // re-registered), K3 (v5: parked publish dropped if unsolicited, not re-registered else)
            let region = match (v5, sol.is_some()) {
                (true, _) => R_K3,
                (false, true) => R_K1,
                (false, false) => 0,
            };
            if region != 0 && self.cfg.excluded(region) {
                self.exclude(region);
                return Ok(None);
            }
        }
        let pkt = match k {
            AK::Ack => InPkt::PubAck { id, rc },
            AK::Rec => InPkt::PubRec { id, rc },
            AK::Comp => InPkt::PubComp { id, rc },
        };
        let out = self.sut.incoming(&pkt)?;
        self.note(label, id as u32, 0);
        self.check_events(&out, true, None, label)?;

        let target = sol.or(wrong_flow);
        let Some(ti) = target else {
            // ---------------- unsolicited
            self.m.order_armed = false;
            let accepted = out.ret.is_ok();
            self.soft(G10, !accepted, || format!("c10:unsolicited_ack_accepted:{label}"), || {
                format!("{label}({id}) was never solicited but handle_incoming_packet returned {:?}", out.ret)
            })?;
            self.st.rejected_acks += 1;
            self.check_bookkeeping_after_reject(label)?;
            // the campaign's own view of the same state, then the connection error
            self.check_state(label)?;
            self.do_fail(None, None)?;
            return Ok(Some(label));
        };

        if out.ret.is_err() {
            if sol.is_some() {
                cl!(self, G10, false, format!("c10:solicited_ack_rejected:{label}"), "{label}({id}) acknowledges an unacknowledged publish but returned {:?}", out.ret);
            }
            // wrong flow rejected: fine
            self.m.order_armed = false;
            self.st.rejected_acks += 1;
            self.st.lenient += 1;
            self.check_bookkeeping_after_reject(label)?;
            self.check_state(label)?;
            self.do_fail(None, None)?;
            return Ok(Some(label));
        }
        if wrong_flow.is_some() {
            self.st.lenient += 1;
            self.m.order_armed = false;
        }
        let ret = out.ret.clone().unwrap();
        let fin = match k {
            AK::Ack | AK::Comp => true,
            AK::Rec => rc == Rc::Fail,
        };
        if !fin {
            // PUBREC: the publish is received, its release becomes pending
            if !self.on(G11M) {
                self.m.order_armed = false;
            }
            cl!(self, G10, ret == Some(NPkt::PubRel(id)), "c10:pubrec_not_answered_with_pubrel", "PUBREC({id}) returned {ret:?}");
            self.m.live[ti].st = St::AwaitComp;
            return Ok(Some(label));
        }
        // final acknowledgement: the id is free again
        let first_unacked = self.m.live.iter().position(|e| e.st != St::Blocked);
        if self.on(G11M) {
            // mixed mode: PUBACKs must follow the send order of the QoS 1 publishes; QoS 2 flows
            // may complete at any point
            let first1 = self.m.live.iter().position(|e| e.st != St::Blocked && e.qos == 1);
            if k == AK::Ack && first1 != Some(ti) {
                self.m.order_armed = false;
            }
        } else if k != AK::Ack || first_unacked != Some(ti) {
            self.m.order_armed = false;
        }
        if k == AK::Ack {
            self.m.last_acked1 = id;
        }
        self.m.live.remove(ti);
        self.m.last_done = id;
        let bi = self.m.live.iter().position(|e| e.st == St::Blocked && e.pkid == id);
        match bi {
            Some(bi) => {
                let b = self.m.live[bi].clone();
                let released = matches!(&ret, Some(NPkt::Publish(p)) if p.serial == Some(b.serial) && p.pkid == id && p.qos == b.qos && p.topic == OUT_TOPIC);
                if released {
                    self.m.live[bi].st = St::InFlight;
                    self.st.collisions_resolved += 1;
                } else {
                    // C07 "... so it can always be resolved"; when the campaign does not own the
                    // clause the model keeps the publish parked and the set oracle decides
                    self.soft(G07, false, || format!("c07:collision_not_released:{label}"), || {
                        format!("{label}({id}) frees id {id}, publish #{} is parked waiting for it, but the call returned {ret:?}", b.serial)
                    })?;
                }
            }
            None => {
                cl!(self, G10, ret.is_none(), format!("c10:unexpected_reply:{label}"), "{label}({id}) returned {ret:?}");
            }
        }
        Ok(Some(label))
    }

    // ------------------------------------------------------------------ inbound flows

    fn h_inpub(&mut self, qos: u8, idc: u8, id: u16, alias: u8) -> R<Option<&'static str>> {
        let id = match idc % 5 {
            0 => 1 + id % 4,
            1 => id,
            2 => 0,
            3 => u16::MAX,
            _ => self.m.rec.keys().next().copied().unwrap_or(1 + id % 4),
        };
        let v5 = self.m.v5;
        let mut mode = if v5 { alias % 5 } else { 0 };
        if mode == 2 && self.m.aliases.is_empty() {
            mode = 1;
        }
        if mode == 3 && self.cfg.excluded(R_K5) {
            self.exclude(R_K5);
            mode = 0;
        }
        let (topic, al) = match mode {
            0 => (true, None),
            1 => (true, Some(1 + id % 3)),
            2 => (false, self.m.aliases.iter().next().copied()),
            3 => (false, Some(50 + id % 3)),
            _ => (false, None),
        };
        // empty topic that cannot be resolved: a malformed publish, the reply rule is not asserted
        let malformed = mode == 3 || mode == 4;
        self.serial += 1;
        let pkt = InPkt::Publish { qos, id, topic, alias: al, serial: self.serial };
        let out = self.sut.incoming(&pkt)?;
        let what: &'static str = match (qos, malformed) {
            (0, false) => "inpub_qos0",
            (1, false) => "inpub_qos1",
            (_, false) => "inpub_qos2",
            (_, true) => "inpub_malformed",
        };
        self.note(what, id as u32, mode as u32);
        self.check_events(&out, true, None, what)?;
        let manual = self.m.manual;
        let want = match (qos, manual) {
            (0, _) | (_, true) => None,
            (1, false) => Some(NPkt::PubAck(id)),
            (_, false) => Some(NPkt::PubRec(id)),
        };
        match &out.ret {
            Err(e) => {
                cl!(self, G10, malformed, format!("c10:publish_rejected:{e}"), "incoming publish (qos {qos}, id {id}) returned Err({e})");
                self.st.rejected_other += 1;
                self.bail_if_foreign()?;
                self.do_fail(None, None)?;
                return Ok(Some(what));
            }
            Ok(r) => {
                if malformed && *r == Some(NPkt::Disconnect) {
                    // protocol error: the client says goodbye, the connection ends
                    self.bail_if_foreign()?;
                    self.do_fail(None, None)?;
                    return Ok(Some(what));
                }
                if !malformed || mode == 4 {
                    let got = r.as_ref().map(|p| p.kind()).unwrap_or("none");
                    let m = if manual { "manual" } else { "auto" };
                    cl!(self, G10, *r == want, format!("c10:wrong_reply_to_publish:qos{qos}:{m}:got={got}"), "incoming publish qos {qos} id {id} (manual_acks={manual}) answered with {r:?}, expected {want:?}");
                }
            }
        }
        if mode == 1 {
            self.m.aliases.insert(al.unwrap());
        }
        if qos == 2 {
            self.m.rec.insert(id, true);
        }
        if manual && qos > 0 {
            self.m.to_ack.push((id, qos));
        }
        Ok(Some(what))
    }

    fn h_inrel(&mut self, known: bool, sel: u16) -> R<Option<&'static str>> {
        let id = if known {
            if self.m.rec.is_empty() {
                return self.skip_na();
            }
            *self.m.rec.keys().nth(idx(sel, self.m.rec.len())).unwrap()
        } else {
            let mut c = 7000 + sel % 5;
            while self.m.rec.contains_key(&c) {
                c += 7;
            }
            c
        };
        let certain = self.m.rec.get(&id).copied();
        let out = self.sut.incoming(&InPkt::PubRel { id })?;
        let what: &'static str = if certain == Some(true) { "pubrel_known" } else { "pubrel_unknown" };
        self.note(what, id as u32, 0);
        self.check_events(&out, true, None, what)?;
        self.m.rec.remove(&id);
        match (&out.ret, certain == Some(true)) {
            (Ok(Some(NPkt::PubComp(i))), _) if *i == id => {
                if certain == Some(true) {
                    self.st.in_qos2_flows += 1;
                }
            }
            (Ok(None), true) if self.m.manual => {
                // manual acknowledgement mode: the statement's "none of these on its own" may be
                // read to include PUBCOMP; not answering is tolerated, the id may stay recorded
                self.m.rec.insert(id, false);
                self.st.lenient += 1;
            }
            (r, true) => cl!(self, G10, false, "c10:release_not_answered_with_pubcomp", "PUBREL({id}) of a recorded QoS 2 publish returned {r:?}"),
            (Ok(None), false) => self.st.lenient += 1,
            (Err(_), false) => {
                // release of an id the client does not know: rejecting it is accepted
                self.st.rejected_other += 1;
                self.bail_if_foreign()?;
                self.do_fail(None, None)?;
            }
            (r, false) => cl!(self, G10, false, "c10:wrong_reply_to_release", "PUBREL({id}) of an unknown id returned {r:?}"),
        }
        Ok(Some(what))
    }

    fn h_plain_in(&mut self, pkt: InPkt, what: &'static str) -> R<Option<&'static str>> {
        let out = self.sut.incoming(&pkt)?;
        self.note(what, 0, 0);
        self.check_events(&out, true, None, what)?;
        match &out.ret {
            Ok(None) => {}
            Ok(Some(p)) => cl!(self, G10, false, format!("c10:unexpected_reply:{what}"), "{what} answered with {p:?}"),
            Err(_) => {
                self.bail_if_foreign()?;
                self.do_fail(None, None)?;
            }
        }
        Ok(Some(what))
    }

    fn h_srvdisc(&mut self) -> R<Option<&'static str>> {
        let out = self.sut.incoming(&InPkt::Disconnect)?;
        self.note("server_disconnect", 0, 0);
        self.check_events(&out, true, None, "server_disconnect")?;
        if let Ok(Some(p)) = &out.ret {
            cl!(self, G10, false, "c10:unexpected_reply:server_disconnect", "DISCONNECT from the server answered with {p:?}");
        }
        self.bail_if_foreign()?;
        self.do_fail(None, None)?;
        Ok(Some("server_disconnect"))
    }

    /// receive_max to announce, kept out of the excluded regions
    fn clamp_rmax(&mut self, rmax: Option<u16>, carried: usize) -> Option<u16> {
        let r = rmax?;
        let mut eff = r.min(self.m.limit);
        let mut clamped = false;
        if self.cfg.excluded(R_K8) && eff <= self.m.alloc_pos {
            eff = self.m.alloc_pos + 1;
            self.exclude(R_K8);
            clamped = true;
        }
        if carried > eff as usize {
            // replaying more than receive_max requests belongs to the event-loop engine (K2 family)
            eff = carried as u16;
            self.st.excl[9] += 1;
            clamped = true;
        }
        Some(if clamped { eff } else { r })
    }

    fn h_connack_mid(&mut self, rmax: u16) -> R<Option<&'static str>> {
        let rmax = if rmax == 0 { None } else { Some(rmax) };
        let rmax = if self.m.v5 { self.clamp_rmax(rmax, 0) } else { None };
        let out = self.sut.incoming(&InPkt::ConnAck { sp: false, rmax })?;
        self.note("connack_mid", rmax.unwrap_or(0) as u32, 0);
        self.check_events(&out, true, None, "connack")?;
        match &out.ret {
            Ok(None) => {
                if let (true, Some(r)) = (self.m.v5, rmax) {
                    self.m.eff = r.min(self.m.limit);
                }
            }
            Ok(Some(p)) => cl!(self, G10, false, "c10:unexpected_reply:connack", "CONNACK answered with {p:?}"),
            Err(_) => {
                self.bail_if_foreign()?;
                self.do_fail(None, None)?;
            }
        }
        Ok(Some("connack_mid"))
    }

    // ------------------------------------------------------------------ connection failure

    /// What the event loop does on any error: `clean()`, reconnect, `pending` kept iff the
    /// broker reports the session, v5: CONNACK applied, then `pending` replayed in order.
    pub fn do_fail(&mut self, sp: Option<bool>, rmax: Option<u16>) -> R<()> {
        let mut sp = sp.unwrap_or((self.resume_bits >> (self.fail_no % 32)) & 1 == 1);
        self.fail_no += 1;
        if self.cfg.force_resume {
            sp = true;
        }
        if !sp && self.m.blocked().is_some() && self.cfg.excluded(R_K4) {
            self.exclude(R_K4);
            sp = true;
        }
        if sp && region_fixed(R_K4) && self.cfg.excluded(R_K6) {
            // with K4 fixed the parked publish comes back through `pending`; if the id it waits
            // for is held by a QoS 2 flow awaiting PUBCOMP the replay re-enters K6's region
            if let Some(b) = self.m.blocked() {
                if self.m.holder(b.pkid).is_some_and(|h| h.st == St::AwaitComp) {
                    self.exclude(R_K6);
                    sp = false;
                }
            }
        }
        let had = self.m.unacked();
        let ids: Vec<u16> = self.m.live.iter().filter(|e| e.st == St::InFlight).map(|e| e.pkid).collect();
        let wrapped2 = ids.len() >= 2 && ids.windows(2).any(|w| w[0] > w[1]);

        let reqs = self.sut.clean()?;
        self.note("fail", sp as u32, had as u32);
        let views: Vec<NReq> = reqs.iter().map(|r| r.view()).collect();
        let coll = self.sut.collision();
        if let Some((key, detail)) = self.diff_sets(&views, coll.as_ref()) {
            self.soft(G02, false, || format!("c02:{key}:after=clean"), || format!("clean() at the failure: {detail}"))?;
        }
        self.check_order(&views)?;
        self.bail_if_foreign()?;

        self.st.fails += 1;
        if wrapped2 {
            self.st.fail_wrapped2 += 1;
        }
        self.pending.extend(reqs);
        for v in self.m.rec.values_mut() {
            *v = false;
        }
        self.m.to_ack.clear();
        self.m.aliases.clear();
        if !sp {
            // no session: nothing carried over is sent, the client starts clean
            self.pending.clear();
            self.m.live.clear();
            if self.cfg.excluded(R_K9) && self.m.order_armed && had > 0 {
                self.m.order_armed = false;
                self.exclude(R_K9);
            }
        } else if had > 0 {
            self.st.fail_resumed_unacked += 1;
        }
        if self.m.v5 {
            let rmax = self.clamp_rmax(rmax, if sp { had } else { 0 });
            let out = self.sut.incoming(&InPkt::ConnAck { sp, rmax })?;
            self.check_events(&out, true, None, "connack")?;
            cl!(self, G10, out.ret == Ok(None), "c10:connack_rejected", "CONNACK(session_present={sp}, receive_max={rmax:?}) returned {:?}", out.ret);
            if let Some(r) = rmax {
                self.m.eff = r.min(self.m.limit);
            }
        }
        while let Some(r) = self.pending.pop_front() {
            let view = r.view();
            let out = self.sut.outgoing(r)?;
            self.st.replayed += 1;
            match view {
                NReq::Publish(p) => {
                    let blocked = self.m.live.iter().any(|e| Some(e.serial) == p.serial && e.st == St::Blocked);
                    if blocked {
                        // (after a K4 fix) the parked publish comes back through pending and parks again
                        let c = self.sut.collision();
                        cl!(self, G02, out.ret == Ok(None) && c.as_ref().is_some_and(|c| c.serial == p.serial), "c02:replay_lost_blocked_publish", "replay of the parked publish {p:?} returned {:?}, collision {c:?}", out.ret);
                        self.check_events(&out, false, Some(p.pkid), "replay_publish")?;
                    } else {
                        cl!(self, G02, out.ret == Ok(Some(NPkt::Publish(p.clone()))), "c02:replay_not_on_wire:publish", "replay of {p:?} on the resumed session returned {:?}", out.ret);
                        self.check_events(&out, false, None, "replay_publish")?;
                    }
                }
                NReq::PubRel(id) => {
                    cl!(self, G02, out.ret == Ok(Some(NPkt::PubRel(id))), "c02:replay_not_on_wire:pubrel", "replay of PUBREL({id}) on the resumed session returned {:?}", out.ret);
                    self.check_events(&out, false, None, "replay_pubrel")?;
                }
                NReq::Other(k) => cl!(self, G02, false, "c02:foreign_request:after=clean", "clean() returned a {k} request"),
            }
        }
        self.bail_if_foreign()
    }
}
