//! Drivers for the two state machines under test behind one neutral interface.
//!
//! `Sut` wraps `rumqttc::MqttState` (MQTT 3.1.1) or `rumqttc::v5::MqttState` (MQTT 5). All
//! calls into rumqtt code happen here, under `guard` (a panic becomes a Failure). Results are
//! translated to neutral values (`NPkt`, `NReq`, `NEvent`) so that the reference model and the
//! oracles are written once.

use crate::engine::{guard, Failure};
use bytes::Bytes;
use rumqttc::Outgoing;

pub const OUT_TOPIC: &str = "o/t";
pub const IN_TOPIC: &str = "i/t";

/// Neutral view of a PUBLISH
#[derive(Clone, Debug, PartialEq, Eq)]
pub struct NPub {
    pub qos: u8,
    pub pkid: u16,
    /// payload decoded as the unique serial of the user publish (None: not one of ours)
    pub serial: Option<u32>,
    pub topic: String,
    pub dup: bool,
    pub retain: bool,
}

/// Neutral view of a packet the state machine wants written to the network
#[derive(Clone, Debug, PartialEq, Eq)]
pub enum NPkt {
    Publish(NPub),
    PubAck(u16),
    PubRec(u16),
    PubRel(u16),
    PubComp(u16),
    Subscribe(u16),
    Unsubscribe(u16),
    PingReq,
    Disconnect,
    Other(&'static str),
}

impl NPkt {
    pub fn kind(&self) -> &'static str {
        match self {
            NPkt::Publish(_) => "publish",
            NPkt::PubAck(_) => "puback",
            NPkt::PubRec(_) => "pubrec",
            NPkt::PubRel(_) => "pubrel",
            NPkt::PubComp(_) => "pubcomp",
            NPkt::Subscribe(_) => "subscribe",
            NPkt::Unsubscribe(_) => "unsubscribe",
            NPkt::PingReq => "pingreq",
            NPkt::Disconnect => "disconnect",
            NPkt::Other(k) => k,
        }
    }
    /// The notification that must announce the write of this packet
    pub fn announce(&self) -> Option<Outgoing> {
        Some(match self {
            NPkt::Publish(p) => Outgoing::Publish(p.pkid),
            NPkt::PubAck(i) => Outgoing::PubAck(*i),
            NPkt::PubRec(i) => Outgoing::PubRec(*i),
            NPkt::PubRel(i) => Outgoing::PubRel(*i),
            NPkt::PubComp(i) => Outgoing::PubComp(*i),
            NPkt::Subscribe(i) => Outgoing::Subscribe(*i),
            NPkt::Unsubscribe(i) => Outgoing::Unsubscribe(*i),
            NPkt::PingReq => Outgoing::PingReq,
            NPkt::Disconnect => Outgoing::Disconnect,
            NPkt::Other(_) => return None,
        })
    }
}

pub fn outgoing_kind(o: &Outgoing) -> &'static str {
    match o {
        Outgoing::Publish(_) => "publish",
        Outgoing::Subscribe(_) => "subscribe",
        Outgoing::Unsubscribe(_) => "unsubscribe",
        Outgoing::PubAck(_) => "puback",
        Outgoing::PubRec(_) => "pubrec",
        Outgoing::PubRel(_) => "pubrel",
        Outgoing::PubComp(_) => "pubcomp",
        Outgoing::PingReq => "pingreq",
        Outgoing::PingResp => "pingresp",
        Outgoing::Disconnect => "disconnect",
        Outgoing::AwaitAck(_) => "awaitack",
    }
}

/// Neutral view of one notification appended to `state.events`
#[derive(Clone, Debug, PartialEq, Eq)]
pub enum NEvent {
    /// `Event::Incoming(p)`; the flag says whether `p` equals the packet that was fed
    Incoming(bool),
    Outgoing(Outgoing),
}

/// Reason-code class of an acknowledgement (MQTT 5; ignored for 3.1.1)
#[derive(Clone, Copy, Debug, PartialEq, Eq)]
pub enum Rc {
    Success,
    /// 0x10 "no matching subscribers": a success-class code
    NoMatch,
    /// a code >= 0x80 (PUBACK/PUBREC), 0x92 (PUBCOMP)
    Fail,
}

/// Packets the scripted broker can send
#[derive(Clone, Debug, PartialEq, Eq)]
pub enum InPkt {
    PubAck { id: u16, rc: Rc },
    PubRec { id: u16, rc: Rc },
    PubComp { id: u16, rc: Rc },
    PubRel { id: u16 },
    Publish { qos: u8, id: u16, topic: bool, alias: Option<u16>, serial: u32 },
    SubAck { id: u16 },
    UnsubAck { id: u16 },
    PingResp,
    Disconnect,
    ConnAck { sp: bool, rmax: Option<u16> },
}

/// Requests of the user / of the event loop's timer
#[derive(Clone, Debug, PartialEq, Eq)]
pub enum UserReq {
    Publish { qos: u8, serial: u32 },
    Subscribe,
    Unsubscribe,
    PubAck(u16),
    PubRec(u16),
    PingReq,
    Disconnect,
}

/// A native request (as returned by `clean()`), kept native so that the replay feeds exactly
/// what the event loop would feed
#[derive(Clone, Debug)]
pub enum Req {
    V4(rumqttc::Request),
    V5(rumqttc::v5::Request),
}

/// Neutral view of a request returned by `clean()`
#[derive(Clone, Debug, PartialEq, Eq)]
pub enum NReq {
    Publish(NPub),
    PubRel(u16),
    Other(&'static str),
}

fn serial_of(payload: &[u8]) -> Option<u32> {
    if payload.len() == 4 {
        Some(u32::from_be_bytes([payload[0], payload[1], payload[2], payload[3]]))
    } else {
        None
    }
}

fn q4(q: u8) -> rumqttc::QoS {
    match q {
        0 => rumqttc::QoS::AtMostOnce,
        1 => rumqttc::QoS::AtLeastOnce,
        _ => rumqttc::QoS::ExactlyOnce,
    }
}

fn q5(q: u8) -> rumqttc::v5::mqttbytes::QoS {
    use rumqttc::v5::mqttbytes::QoS;
    match q {
        0 => QoS::AtMostOnce,
        1 => QoS::AtLeastOnce,
        _ => QoS::ExactlyOnce,
    }
}

fn npub4(p: &rumqttc::Publish) -> NPub {
    NPub {
        qos: p.qos as u8,
        pkid: p.pkid,
        serial: serial_of(&p.payload),
        topic: p.topic.clone(),
        dup: p.dup,
        retain: p.retain,
    }
}

fn npub5(p: &rumqttc::v5::mqttbytes::v5::Publish) -> NPub {
    NPub {
        qos: p.qos as u8,
        pkid: p.pkid,
        serial: serial_of(&p.payload),
        topic: String::from_utf8_lossy(&p.topic).into_owned(),
        dup: p.dup,
        retain: p.retain,
    }
}

fn npkt4(p: &rumqttc::Packet) -> NPkt {
    use rumqttc::Packet as P;
    match p {
        P::Publish(p) => NPkt::Publish(npub4(p)),
        P::PubAck(a) => NPkt::PubAck(a.pkid),
        P::PubRec(a) => NPkt::PubRec(a.pkid),
        P::PubRel(a) => NPkt::PubRel(a.pkid),
        P::PubComp(a) => NPkt::PubComp(a.pkid),
        P::Subscribe(s) => NPkt::Subscribe(s.pkid),
        P::Unsubscribe(s) => NPkt::Unsubscribe(s.pkid),
        P::PingReq => NPkt::PingReq,
        P::Disconnect => NPkt::Disconnect,
        P::Connect(_) => NPkt::Other("connect"),
        P::ConnAck(_) => NPkt::Other("connack"),
        P::SubAck(_) => NPkt::Other("suback"),
        P::UnsubAck(_) => NPkt::Other("unsuback"),
        P::PingResp => NPkt::Other("pingresp"),
    }
}

fn npkt5(p: &rumqttc::v5::mqttbytes::v5::Packet) -> NPkt {
    use rumqttc::v5::mqttbytes::v5::Packet as P;
    match p {
        P::Publish(p) => NPkt::Publish(npub5(p)),
        P::PubAck(a) => NPkt::PubAck(a.pkid),
        P::PubRec(a) => NPkt::PubRec(a.pkid),
        P::PubRel(a) => NPkt::PubRel(a.pkid),
        P::PubComp(a) => NPkt::PubComp(a.pkid),
        P::Subscribe(s) => NPkt::Subscribe(s.pkid),
        P::Unsubscribe(s) => NPkt::Unsubscribe(s.pkid),
        P::PingReq(_) => NPkt::PingReq,
        P::Disconnect(_) => NPkt::Disconnect,
        P::Connect(..) => NPkt::Other("connect"),
        P::ConnAck(_) => NPkt::Other("connack"),
        P::SubAck(_) => NPkt::Other("suback"),
        P::UnsubAck(_) => NPkt::Other("unsuback"),
        P::PingResp(_) => NPkt::Other("pingresp"),
        P::Auth(_) => NPkt::Other("auth"),
    }
}

impl Req {
    pub fn view(&self) -> NReq {
        match self {
            Req::V4(r) => match r {
                rumqttc::Request::Publish(p) => NReq::Publish(npub4(p)),
                rumqttc::Request::PubRel(r) => NReq::PubRel(r.pkid),
                _ => NReq::Other("other"),
            },
            Req::V5(r) => match r {
                rumqttc::v5::Request::Publish(p) => NReq::Publish(npub5(p)),
                rumqttc::v5::Request::PubRel(r) => NReq::PubRel(r.pkid),
                _ => NReq::Other("other"),
            },
        }
    }
}

/// What one call into the state machine produced
#[derive(Clone, Debug)]
pub struct Outcome {
    /// Ok(packet to write) or Err(error kind)
    pub ret: Result<Option<NPkt>, String>,
    /// notifications appended to `state.events` by this call, in order
    pub events: Vec<NEvent>,
}

#[derive(Clone)]
pub enum Sut {
    V4(Box<rumqttc::MqttState>),
    V5(Box<rumqttc::v5::MqttState>),
}

fn err_kind(dbg: String) -> String {
    // keep the variant name only (no ids)
    dbg.split(|c: char| !c.is_ascii_alphanumeric())
        .next()
        .unwrap_or("")
        .to_string()
}

fn connack_props(rmax: Option<u16>) -> Option<rumqttc::v5::mqttbytes::v5::ConnAckProperties> {
    rmax.map(|m| rumqttc::v5::mqttbytes::v5::ConnAckProperties {
        session_expiry_interval: None,
        receive_max: Some(m),
        max_qos: None,
        retain_available: None,
        max_packet_size: None,
        assigned_client_identifier: None,
        topic_alias_max: None,
        reason_string: None,
        user_properties: Vec::new(),
        wildcard_subscription_available: None,
        subscription_identifiers_available: None,
        shared_subscription_available: None,
        server_keep_alive: None,
        response_information: None,
        server_reference: None,
        authentication_method: None,
        authentication_data: None,
    })
}

fn in4(p: &InPkt) -> rumqttc::Packet {
    use rumqttc::*;
    match p {
        InPkt::PubAck { id, .. } => Packet::PubAck(PubAck::new(*id)),
        InPkt::PubRec { id, .. } => Packet::PubRec(PubRec::new(*id)),
        InPkt::PubComp { id, .. } => Packet::PubComp(PubComp::new(*id)),
        InPkt::PubRel { id } => Packet::PubRel(PubRel::new(*id)),
        InPkt::Publish { qos, id, serial, .. } => {
            let mut p = Publish::new(IN_TOPIC, q4(*qos), serial.to_be_bytes().to_vec());
            p.pkid = *id;
            Packet::Publish(p)
        }
        InPkt::SubAck { id } => Packet::SubAck(SubAck::new(
            *id,
            vec![SubscribeReasonCode::Success(QoS::AtMostOnce)],
        )),
        InPkt::UnsubAck { id } => Packet::UnsubAck(UnsubAck::new(*id)),
        InPkt::PingResp => Packet::PingResp,
        InPkt::Disconnect => Packet::Disconnect,
        InPkt::ConnAck { sp, .. } => Packet::ConnAck(ConnAck::new(ConnectReturnCode::Success, *sp)),
    }
}

fn in5(p: &InPkt) -> rumqttc::v5::mqttbytes::v5::Packet {
    use rumqttc::v5::mqttbytes::v5::*;
    match p {
        InPkt::PubAck { id, rc } => {
            let mut a = PubAck::new(*id, None);
            a.reason = match rc {
                Rc::Success => PubAckReason::Success,
                Rc::NoMatch => PubAckReason::NoMatchingSubscribers,
                Rc::Fail => PubAckReason::QuotaExceeded,
            };
            Packet::PubAck(a)
        }
        InPkt::PubRec { id, rc } => {
            let mut a = PubRec::new(*id, None);
            a.reason = match rc {
                Rc::Success => PubRecReason::Success,
                Rc::NoMatch => PubRecReason::NoMatchingSubscribers,
                Rc::Fail => PubRecReason::NotAuthorized,
            };
            Packet::PubRec(a)
        }
        InPkt::PubComp { id, rc } => {
            let mut a = PubComp::new(*id, None);
            a.reason = match rc {
                Rc::Fail => PubCompReason::PacketIdentifierNotFound,
                _ => PubCompReason::Success,
            };
            Packet::PubComp(a)
        }
        InPkt::PubRel { id } => Packet::PubRel(PubRel::new(*id, None)),
        InPkt::Publish { qos, id, topic, alias, serial } => {
            let props = alias.map(|a| PublishProperties {
                topic_alias: Some(a),
                ..Default::default()
            });
            let mut p = Publish::new(
                if *topic { IN_TOPIC } else { "" },
                q5(*qos),
                serial.to_be_bytes().to_vec(),
                props,
            );
            p.pkid = *id;
            Packet::Publish(p)
        }
        InPkt::SubAck { id } => Packet::SubAck(SubAck {
            pkid: *id,
            return_codes: vec![SubscribeReasonCode::Success(q5(0))],
            properties: None,
        }),
        InPkt::UnsubAck { id } => Packet::UnsubAck(UnsubAck {
            pkid: *id,
            reasons: vec![UnsubAckReason::Success],
            properties: None,
        }),
        InPkt::PingResp => Packet::PingResp(PingResp),
        InPkt::Disconnect => Packet::Disconnect(Disconnect::new(
            DisconnectReasonCode::ServerShuttingDown,
        )),
        InPkt::ConnAck { sp, rmax } => Packet::ConnAck(ConnAck {
            session_present: *sp,
            code: ConnectReturnCode::Success,
            properties: connack_props(*rmax),
        }),
    }
}

impl Sut {
    pub fn new(v5: bool, limit: u16, manual_acks: bool) -> Result<Sut, Failure> {
        guard(if v5 { "state_v5:new" } else { "state_v4:new" }, || {
            if v5 {
                Sut::V5(Box::new(rumqttc::v5::MqttState::new(limit, manual_acks)))
            } else {
                Sut::V4(Box::new(rumqttc::MqttState::new(limit, manual_acks)))
            }
        })
    }

    pub fn is_v5(&self) -> bool {
        matches!(self, Sut::V5(_))
    }

    fn vname(&self) -> &'static str {
        if self.is_v5() {
            "state_v5"
        } else {
            "state_v4"
        }
    }

    pub fn inflight(&self) -> u16 {
        match self {
            Sut::V4(s) => s.inflight(),
            Sut::V5(s) => s.inflight(),
        }
    }

    pub fn collision(&self) -> Option<NPub> {
        match self {
            Sut::V4(s) => s.collision.as_ref().map(npub4),
            Sut::V5(s) => s.collision.as_ref().map(npub5),
        }
    }

    pub fn has_collision(&self) -> bool {
        match self {
            Sut::V4(s) => s.collision.is_some(),
            Sut::V5(s) => s.collision.is_some(),
        }
    }

    /// Builds the native request for a user request
    pub fn user_req(&self, r: &UserReq) -> Req {
        match self {
            Sut::V4(_) => {
                use rumqttc::*;
                Req::V4(match r {
                    UserReq::Publish { qos, serial } => Request::Publish(Publish::new(
                        OUT_TOPIC,
                        q4(*qos),
                        serial.to_be_bytes().to_vec(),
                    )),
                    UserReq::Subscribe => Request::Subscribe(Subscribe::new("a/b", QoS::AtLeastOnce)),
                    UserReq::Unsubscribe => Request::Unsubscribe(Unsubscribe::new("a/b")),
                    UserReq::PubAck(id) => Request::PubAck(PubAck::new(*id)),
                    UserReq::PubRec(id) => Request::PubRec(PubRec::new(*id)),
                    UserReq::PingReq => Request::PingReq(PingReq),
                    UserReq::Disconnect => Request::Disconnect(Disconnect),
                })
            }
            Sut::V5(_) => {
                use rumqttc::v5::mqttbytes::v5::*;
                use rumqttc::v5::Request;
                Req::V5(match r {
                    UserReq::Publish { qos, serial } => Request::Publish(Publish::new(
                        OUT_TOPIC,
                        q5(*qos),
                        serial.to_be_bytes().to_vec(),
                        None,
                    )),
                    UserReq::Subscribe => {
                        Request::Subscribe(Subscribe::new(Filter::new("a/b", q5(1)), None))
                    }
                    UserReq::Unsubscribe => Request::Unsubscribe(Unsubscribe::new("a/b", None)),
                    UserReq::PubAck(id) => Request::PubAck(PubAck::new(*id, None)),
                    UserReq::PubRec(id) => Request::PubRec(PubRec::new(*id, None)),
                    UserReq::PingReq => Request::PingReq,
                    UserReq::Disconnect => Request::Disconnect,
                })
            }
        }
    }

    fn drain_events4(s: &mut rumqttc::MqttState, fed: Option<&rumqttc::Packet>) -> Vec<NEvent> {
        s.events
            .drain(..)
            .map(|e| match e {
                rumqttc::Event::Incoming(p) => NEvent::Incoming(fed.is_some_and(|f| *f == p)),
                rumqttc::Event::Outgoing(o) => NEvent::Outgoing(o),
            })
            .collect()
    }

    fn drain_events5(
        s: &mut rumqttc::v5::MqttState,
        fed: Option<&rumqttc::v5::mqttbytes::v5::Packet>,
    ) -> Vec<NEvent> {
        s.events
            .drain(..)
            .map(|e| match e {
                rumqttc::v5::Event::Incoming(p) => NEvent::Incoming(fed.is_some_and(|f| *f == p)),
                rumqttc::v5::Event::Outgoing(o) => NEvent::Outgoing(o),
            })
            .collect()
    }

    /// `handle_outgoing_packet`
    pub fn outgoing(&mut self, r: Req) -> Result<Outcome, Failure> {
        let clause = if self.is_v5() { "state_v5:handle_outgoing_packet" } else { "state_v4:handle_outgoing_packet" };
        guard(clause, || match (self, r) {
            (Sut::V4(s), Req::V4(r)) => {
                s.events.clear();
                let ret = s
                    .handle_outgoing_packet(r)
                    .map(|o| o.as_ref().map(npkt4))
                    .map_err(|e| err_kind(format!("{e:?}")));
                Outcome { ret, events: Self::drain_events4(s, None) }
            }
            (Sut::V5(s), Req::V5(r)) => {
                s.events.clear();
                let ret = s
                    .handle_outgoing_packet(r)
                    .map(|o| o.as_ref().map(npkt5))
                    .map_err(|e| err_kind(format!("{e:?}")));
                Outcome { ret, events: Self::drain_events5(s, None) }
            }
            _ => unreachable!("request of the other protocol version"),
        })
    }

    /// `handle_incoming_packet`
    pub fn incoming(&mut self, p: &InPkt) -> Result<Outcome, Failure> {
        let clause = if self.is_v5() { "state_v5:handle_incoming_packet" } else { "state_v4:handle_incoming_packet" };
        guard(clause, || match self {
            Sut::V4(s) => {
                let pkt = in4(p);
                s.events.clear();
                let ret = s
                    .handle_incoming_packet(pkt.clone())
                    .map(|o| o.as_ref().map(npkt4))
                    .map_err(|e| err_kind(format!("{e:?}")));
                Outcome { ret, events: Self::drain_events4(s, Some(&pkt)) }
            }
            Sut::V5(s) => {
                let pkt = in5(p);
                s.events.clear();
                let ret = s
                    .handle_incoming_packet(pkt.clone())
                    .map(|o| o.as_ref().map(npkt5))
                    .map_err(|e| err_kind(format!("{e:?}")));
                Outcome { ret, events: Self::drain_events5(s, Some(&pkt)) }
            }
        })
    }

    /// `clean()` on the real state
    pub fn clean(&mut self) -> Result<Vec<Req>, Failure> {
        let clause = format!("{}:clean", self.vname());
        guard(&clause, || match self {
            Sut::V4(s) => s.clean().into_iter().map(Req::V4).collect(),
            Sut::V5(s) => s.clean().into_iter().map(Req::V5).collect(),
        })
    }

    /// What `clean()` would reveal now: the requests it returns and what is left in `collision`
    /// afterwards (on a clone; the state itself is not touched)
    pub fn peek_clean(&self) -> Result<(Vec<NReq>, Option<NPub>), Failure> {
        let clause = if self.is_v5() { "state_v5:clean" } else { "state_v4:clean" };
        guard(clause, || match self {
            Sut::V4(s) => {
                let mut c = s.clone();
                let reqs = c.clean().into_iter().map(|r| Req::V4(r).view()).collect();
                (reqs, c.collision.as_ref().map(npub4))
            }
            Sut::V5(s) => {
                let mut c = s.clone();
                let reqs = c.clean().into_iter().map(|r| Req::V5(r).view()).collect();
                (reqs, c.collision.as_ref().map(npub5))
            }
        })
    }
}

#[allow(dead_code)]
pub fn bytes_of(serial: u32) -> Bytes {
    Bytes::copy_from_slice(&serial.to_be_bytes())
}
