//! E6 "clientstate": drives `rumqttc::MqttState` (v4) and `rumqttc::v5::MqttState` with generated
//! histories of user requests, broker packets and connection failures, in lock-step with a
//! reference model written from the MQTT rules (not from state.rs).
//!
//! * `sut.rs`    — neutral driver over the two state machines
//! * `interp.rs` — reference model, interpreter, oracle clauses (groups G02/G07/G10/G11)
//! * `gen.rs`    — op alphabet strategies
//!
//! Known-finding switches: flip `Kn_FIXED` to `true` once the corresponding fix is applied to
//! /repo. With the flag `true` the main campaigns stop excluding that region (so the fixed code
//! is searched there) and the probe campaign of that finding is dropped from the plans.

pub mod campaign;
pub mod gen;
pub mod interp;
pub mod ops;
pub mod sut;

use serde::{Deserialize, Serialize};

/// K1: v4: a publish parked on an id collision and released by PUBCOMP is sent but not re-registered
pub const K1_FIXED: bool = true;
/// K3: v5 PUBCOMP(p) while a publish is parked on p: dropped when the PUBCOMP is unsolicited, sent
/// but not re-registered (as K1) when it is solicited
pub const K3_FIXED: bool = true;
/// K4: clean() keeps `collision`; with session_present=false nothing can release it
pub const K4_FIXED: bool = true;
/// K5: v5 publish with empty topic + unknown alias announces a DISCONNECT that is never written
pub const K5_FIXED: bool = true;
/// K6: a packet id is re-used for a new PUBLISH while a QoS 2 flow on it still awaits PUBCOMP
pub const K6_FIXED: bool = true;
/// K7: v5 acks with a failure reason code skip the bookkeeping (window leak / blocked publish stuck or dropped)
pub const K7_FIXED: bool = true;
/// K8: v5 CONNACK lowers receive_max below the id allocator's position: ids run past the window
pub const K8_FIXED: bool = true;
/// K9: v4 clean() order is wrong when ids were consumed without holding a slot (SUBSCRIBE /
/// UNSUBSCRIBE, or publishes dropped by a session-less reconnect)
pub const K9_FIXED: bool = false;

// region bits (Cfg.allow)
pub const R_K1: u16 = 1 << 0;
pub const R_K3: u16 = 1 << 1;
pub const R_K4: u16 = 1 << 2;
pub const R_K5: u16 = 1 << 3;
pub const R_K6: u16 = 1 << 4;
pub const R_K7: u16 = 1 << 5;
pub const R_K8: u16 = 1 << 6;
pub const R_K9: u16 = 1 << 7;

// oracle clause groups (Cfg.groups)
pub const G02: u8 = 1;
pub const G07: u8 = 2;
pub const G10: u8 = 4;
pub const G11: u8 = 8;
/// C11 order clause over mixed QoS 1 / QoS 2 traffic: QoS 2 flows in their correct order do not
/// disarm the order oracle, which then compares the QoS 1 subsequence only (see `check_order`)
pub const G11M: u8 = 16;

/// One generated history
#[derive(Clone, Debug, Serialize, Deserialize)]
pub struct Case {
    pub v5: bool,
    pub limit: u16,
    pub manual_acks: bool,
    /// bit i decides `session_present` of the i-th failure that is not an explicit `Fail` op
    pub resume_bits: u32,
    /// SUBSCRIBE requests fed before `ops` (moves the id allocator near the wrap for big limits)
    #[serde(default)]
    pub warmup_subs: u16,
    pub ops: Vec<Op>,
}

#[derive(Clone, Debug, Serialize, Deserialize, PartialEq, Eq)]
pub enum Op {
    // ---- user requests (fed only when the event loop would feed them) ----
    Pub { qos: u8 },
    Sub,
    Unsub,
    /// manual acknowledgement (client.ack) of a received publish chosen by `sel`
    ManAck { sel: u16 },
    Disc,
    /// keep-alive timer
    Ping,
    // ---- broker packets ----
    /// next legal ack (PUBACK / PUBREC / PUBCOMP) of the unacked publish chosen by `sel`
    /// (send order); `nm`: v5 reason "no matching subscribers"
    Ack { sel: u16, nm: bool },
    AckOldest,
    /// next legal ack of the publish that holds the id a blocked publish is waiting for
    AckBlocker,
    /// v5: next legal ack with a failure reason code
    NegAck { sel: u16 },
    /// unsolicited / duplicate / wrong acks. kind 0 PUBACK 1 PUBREC 2 PUBCOMP; idc: 0 free id
    /// within the limit, 1 above the limit, 2 zero, 3 65535, 4 repeat of the last completed id,
    /// 5 an id held by a publish in another phase
    BadAck { kind: u8, idc: u8, sel: u16 },
    /// idc: 0 small id, 1 any id, 2 zero, 3 65535, 4 repeat of a recorded id. alias (v5):
    /// 0 none, 1 topic+alias, 2 known alias & empty topic, 3 unknown alias & empty topic,
    /// 4 empty topic without alias
    InPub { qos: u8, idc: u8, id: u16, alias: u8 },
    InRel { known: bool, sel: u16 },
    SubAck { id: u16 },
    UnsubAck { id: u16 },
    PingResp,
    /// v5: DISCONNECT from the server (v4: a packet a client must never receive)
    SrvDisc,
    /// CONNACK in the middle of a connection (v5: applies receive_max; 0 = property absent)
    ConnAckMid { rmax: u16 },
    /// the connection fails: what the event loop does (clean, reconnect, replay if session present)
    Fail { sp: bool, rmax: u16 },
}

/// Which oracle groups a campaign asserts and which known-defect regions it may enter
#[derive(Clone, Copy, Debug)]
pub struct Cfg {
    pub groups: u8,
    pub allow: u16,
    /// every reconnect resumes the session
    pub force_resume: bool,
}

impl Cfg {
    pub fn main(groups: u8) -> Cfg {
        Cfg { groups, allow: 0, force_resume: false }
    }
    pub fn probe(groups: u8, region: u16) -> Cfg {
        Cfg { groups, allow: region, force_resume: false }
    }
    /// true when the region must be avoided by construction
    pub fn excluded(&self, region: u16) -> bool {
        !region_fixed(region) && self.allow & region == 0
    }
}

pub fn region_fixed(region: u16) -> bool {
    match region {
        R_K1 => K1_FIXED,
        R_K3 => K3_FIXED,
        R_K4 => K4_FIXED,
        R_K5 => K5_FIXED,
        R_K6 => K6_FIXED,
        R_K7 => K7_FIXED,
        R_K8 => K8_FIXED,
        R_K9 => K9_FIXED,
        _ => false,
    }
}
