//! Strategies for E6 cases: weighted op alphabet, inflight limits, versions.

use super::{Case, Op};
use proptest::prelude::*;
use proptest::strategy::Union;

/// Relative weights of the op alphabet (0 = never)
#[derive(Clone, Copy, Debug)]
pub struct Weights {
    pub pub0: u32,
    pub pub1: u32,
    pub pub2: u32,
    pub sub: u32,
    pub unsub: u32,
    pub manack: u32,
    pub disc: u32,
    pub ping: u32,
    pub ack: u32,
    pub ack_oldest: u32,
    pub ack_blocker: u32,
    pub neg_ack: u32,
    pub bad_ack: u32,
    pub inpub: u32,
    pub inrel: u32,
    pub suback: u32,
    pub pingresp: u32,
    pub srvdisc: u32,
    pub connack: u32,
    pub fail: u32,
}

impl Weights {
    /// the shared C02 mix: out-of-order acks, failures, some of everything
    pub const SHARED: Weights = Weights {
        pub0: 3,
        pub1: 16,
        pub2: 14,
        sub: 2,
        unsub: 1,
        manack: 2,
        disc: 1,
        ping: 2,
        ack: 18,
        ack_oldest: 6,
        ack_blocker: 5,
        neg_ack: 2,
        bad_ack: 2,
        inpub: 4,
        inrel: 2,
        suback: 1,
        pingresp: 2,
        srvdisc: 1,
        connack: 1,
        fail: 3,
    };
    /// window / id allocation: publishes and acks dominate
    pub const WINDOW: Weights = Weights {
        pub0: 2,
        pub1: 22,
        pub2: 16,
        sub: 3,
        unsub: 2,
        manack: 0,
        disc: 0,
        ping: 1,
        ack: 22,
        ack_oldest: 6,
        ack_blocker: 8,
        neg_ack: 2,
        bad_ack: 1,
        inpub: 1,
        inrel: 0,
        suback: 1,
        pingresp: 1,
        srvdisc: 0,
        connack: 2,
        fail: 3,
    };
    /// inbound flows: broker packets dominate
    pub const INBOUND: Weights = Weights {
        pub0: 1,
        pub1: 6,
        pub2: 6,
        sub: 1,
        unsub: 1,
        manack: 6,
        disc: 1,
        ping: 2,
        ack: 8,
        ack_oldest: 2,
        ack_blocker: 2,
        neg_ack: 2,
        bad_ack: 8,
        inpub: 22,
        inrel: 12,
        suback: 2,
        pingresp: 2,
        srvdisc: 1,
        connack: 2,
        fail: 2,
    };
    /// C11: QoS 1 publishes acknowledged in order, failures that resume
    pub const ORDER: Weights = Weights {
        pub0: 1,
        pub1: 30,
        pub2: 0,
        sub: 0,
        unsub: 0,
        manack: 0,
        disc: 0,
        ping: 0,
        ack: 0,
        ack_oldest: 22,
        ack_blocker: 0,
        neg_ack: 0,
        bad_ack: 0,
        inpub: 2,
        inrel: 1,
        suback: 0,
        pingresp: 1,
        srvdisc: 0,
        connack: 0,
        fail: 4,
    };
    /// C11 (G11M): QoS 1 and QoS 2 publishes; acks mostly oldest-first, sometimes any unacked publish
    pub const ORDER_MIXED: Weights = Weights {
        pub0: 1,
        pub1: 30,
        pub2: 12,
        sub: 0,
        unsub: 0,
        manack: 0,
        disc: 0,
        ping: 0,
        ack: 7,
        ack_oldest: 22,
        ack_blocker: 0,
        neg_ack: 0,
        bad_ack: 0,
        inpub: 2,
        inrel: 1,
        suback: 0,
        pingresp: 1,
        srvdisc: 0,
        connack: 0,
        fail: 4,
    };

    /// probes: collisions on QoS 2 ids (K1, K3, K6)
    pub const QOS2_COLLISIONS: Weights = Weights {
        pub0: 0,
        pub1: 10,
        pub2: 20,
        sub: 1,
        unsub: 0,
        manack: 0,
        disc: 0,
        ping: 0,
        ack: 20,
        ack_oldest: 2,
        ack_blocker: 10,
        neg_ack: 0,
        bad_ack: 8,
        inpub: 0,
        inrel: 0,
        suback: 0,
        pingresp: 0,
        srvdisc: 0,
        connack: 0,
        fail: 2,
    };
    /// probes: failures while a publish is parked (K4), receive_max changes (K8), reason codes (K7)
    pub const FAILS: Weights = Weights {
        pub0: 0,
        pub1: 20,
        pub2: 10,
        sub: 1,
        unsub: 0,
        manack: 0,
        disc: 0,
        ping: 0,
        ack: 16,
        ack_oldest: 4,
        ack_blocker: 4,
        neg_ack: 8,
        bad_ack: 1,
        inpub: 0,
        inrel: 0,
        suback: 0,
        pingresp: 0,
        srvdisc: 0,
        connack: 5,
        fail: 8,
    };
    /// probe K9: in-order QoS 1 traffic plus requests that consume ids without holding a slot
    pub const ORDER_GAPS: Weights = Weights {
        pub0: 1,
        pub1: 30,
        pub2: 0,
        sub: 5,
        unsub: 3,
        manack: 0,
        disc: 0,
        ping: 0,
        ack: 0,
        ack_oldest: 20,
        ack_blocker: 0,
        neg_ack: 0,
        bad_ack: 0,
        inpub: 1,
        inrel: 0,
        suback: 1,
        pingresp: 0,
        srvdisc: 0,
        connack: 0,
        fail: 5,
    };
}

#[derive(Clone, Copy, Debug, PartialEq, Eq)]
pub enum Versions {
    Both,
    V4,
    V5,
}

#[derive(Clone, Copy, Debug, PartialEq, Eq)]
pub enum Limits {
    /// 1..=6 biased to the small end, plus 10, 100, 65535
    Shared,
    /// 1..=8 uniformly (the crossing "every small limit x random sequences")
    Small8,
    /// 1..=3
    Tiny,
    /// 100 and 65535, the allocator warmed up to just before the wrap
    Large,
}

#[derive(Clone, Copy, Debug)]
pub struct GenCfg {
    pub versions: Versions,
    pub limits: Limits,
    pub w: Weights,
    pub max_ops: usize,
    /// out of 8
    pub manual_8: u32,
}

fn rmax() -> BoxedStrategy<u16> {
    prop_oneof![
        4 => Just(0u16),
        5 => 1u16..=8,
        1 => Just(10u16),
        1 => Just(100u16),
        1 => Just(65535u16),
    ]
    .boxed()
}

pub fn op(w: &Weights) -> BoxedStrategy<Op> {
    let mut v: Vec<(u32, BoxedStrategy<Op>)> = Vec::new();
    let mut add = |weight: u32, s: BoxedStrategy<Op>| {
        if weight > 0 {
            v.push((weight, s));
        }
    };
    add(w.pub0, Just(Op::Pub { qos: 0 }).boxed());
    add(w.pub1, Just(Op::Pub { qos: 1 }).boxed());
    add(w.pub2, Just(Op::Pub { qos: 2 }).boxed());
    add(w.sub, Just(Op::Sub).boxed());
    add(w.unsub, Just(Op::Unsub).boxed());
    add(w.manack, any::<u16>().prop_map(|sel| Op::ManAck { sel }).boxed());
    add(w.disc, Just(Op::Disc).boxed());
    add(w.ping, Just(Op::Ping).boxed());
    add(
        w.ack,
        (any::<u16>(), prop::bool::weighted(0.125)).prop_map(|(sel, nm)| Op::Ack { sel, nm }).boxed(),
    );
    add(w.ack_oldest, Just(Op::AckOldest).boxed());
    add(w.ack_blocker, Just(Op::AckBlocker).boxed());
    add(w.neg_ack, any::<u16>().prop_map(|sel| Op::NegAck { sel }).boxed());
    add(
        w.bad_ack,
        (0u8..3, 0u8..6, any::<u16>()).prop_map(|(kind, idc, sel)| Op::BadAck { kind, idc, sel }).boxed(),
    );
    add(
        w.inpub,
        (
            prop_oneof![1 => Just(0u8), 2 => Just(1u8), 3 => Just(2u8)],
            prop_oneof![6 => Just(0u8), 2 => Just(1u8), 1 => Just(2u8), 1 => Just(3u8), 2 => Just(4u8)],
            any::<u16>(),
            prop_oneof![8 => Just(0u8), 2 => Just(1u8), 2 => Just(2u8), 1 => Just(3u8), 1 => Just(4u8)],
        )
            .prop_map(|(qos, idc, id, alias)| Op::InPub { qos, idc, id, alias })
            .boxed(),
    );
    add(
        w.inrel,
        (prop::bool::weighted(0.8), any::<u16>()).prop_map(|(known, sel)| Op::InRel { known, sel }).boxed(),
    );
    add(
        w.suback,
        (any::<bool>(), 0u16..12).prop_map(|(u, id)| if u { Op::UnsubAck { id } } else { Op::SubAck { id } }).boxed(),
    );
    add(w.pingresp, Just(Op::PingResp).boxed());
    add(w.srvdisc, Just(Op::SrvDisc).boxed());
    add(w.connack, rmax().prop_map(|rmax| Op::ConnAckMid { rmax }).boxed());
    add(w.fail, (any::<bool>(), rmax()).prop_map(|(sp, rmax)| Op::Fail { sp, rmax }).boxed());
    Union::new_weighted(v).boxed()
}

fn limit(l: Limits) -> BoxedStrategy<(u16, u16)> {
    match l {
        Limits::Shared => prop_oneof![
            6 => Just((1u16, 0u16)),
            6 => Just((2, 0)),
            6 => Just((3, 0)),
            4 => Just((4, 0)),
            2 => Just((5, 0)),
            2 => Just((6, 0)),
            2 => Just((10, 0)),
            2 => (0u16..100).prop_map(|w| (100, w)),
            // 65535 costs ~10 ms per case (5 MB tables): kept rare here, C07 has a dedicated campaign
            1 => prop_oneof![3 => Just(0u16), 1 => 65500u16..65535].prop_map(|w| (65535, w)),
        ]
        .boxed(),
        Limits::Small8 => (1u16..=8).prop_map(|l| (l, 0)).boxed(),
        Limits::Tiny => (1u16..=3).prop_map(|l| (l, 0)).boxed(),
        Limits::Large => prop_oneof![
            3 => (60u16..100).prop_map(|w| (100, w)),
            1 => (65480u16..65535).prop_map(|w| (65535, w)),
        ]
        .boxed(),
    }
}

pub fn case(g: GenCfg) -> BoxedStrategy<Case> {
    let version = match g.versions {
        Versions::Both => any::<bool>().boxed(),
        Versions::V4 => Just(false).boxed(),
        Versions::V5 => Just(true).boxed(),
    };
    let manual = if g.manual_8 == 0 {
        Just(false).boxed()
    } else {
        prop::bool::weighted(g.manual_8 as f64 / 8.0).boxed()
    };
    (
        version,
        limit(g.limits),
        manual,
        any::<u32>(),
        prop::collection::vec(op(&g.w), 0..=g.max_ops),
    )
        .prop_map(|(v5, (limit, warmup_subs), manual_acks, resume_bits, ops)| Case {
            v5,
            limit,
            manual_acks,
            resume_bits,
            warmup_subs,
            ops,
        })
        .boxed()
}
