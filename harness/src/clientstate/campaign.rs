//! One generic proptest campaign over E6 cases; the per-property files instantiate it.

use super::gen::{self, GenCfg};
use super::interp::{run_case, Run};
use super::{Case, Cfg};
use crate::engine::*;
use proptest::strategy::BoxedStrategy;
use serde_json::json;

pub struct StateCampaign {
    pub name: &'static str,
    pub gen: GenCfg,
    pub cfg: Cfg,
    pub quick: u64,
    pub thorough: u64,
    /// signatures of the known finding this campaign probes (empty: main campaign)
    pub probes: Vec<&'static str>,
    /// the property's non-triviality rule: Some(shape key) when the executed case satisfies it
    pub nontrivial: fn(&Run) -> Option<String>,
}

pub fn shape(r: &Run) -> String {
    let lim = match r.m.limit {
        1..=8 => format!("{}", r.m.limit),
        9..=99 => "9-99".into(),
        100 => "100".into(),
        _ => "big".into(),
    };
    format!("{} limit={}", if r.m.v5 { "v5" } else { "v4" }, lim)
}

impl Campaign for StateCampaign {
    type Case = Case;
    fn name(&self) -> &'static str {
        self.name
    }
    fn strategy(&self, _tier: Tier) -> BoxedStrategy<Case> {
        gen::case(self.gen)
    }
    fn cases(&self, tier: Tier) -> u64 {
        tier.pick(self.quick, self.thorough)
    }
    fn check(&self, case: &Case, obs: &mut Obs) -> Result<(), Failure> {
        let run = run_case(self.cfg, case, obs)?;
        if let Some(key) = (self.nontrivial)(&run) {
            obs.nontrivial(key);
            // compact sample: the executed (not skipped) ops
            let executed: Vec<String> = run.log.iter().take(80).map(|(k, a, b)| format!("{k}({a},{b})")).collect();
            obs.sample = Some(json!({
                "version": if case.v5 { "v5" } else { "v4" },
                "limit": case.limit,
                "manual_acks": case.manual_acks,
                "executed_ops": executed,
            }));
        }
        Ok(())
    }
    fn probes_known(&self) -> Vec<&'static str> {
        self.probes.clone()
    }
    fn max_shrink_iters(&self, _tier: Tier) -> u32 {
        6000
    }
}

/// A probe campaign: cases generated inside one known-defect region (all other regions stay
/// excluded); tolerates exactly `sigs`.
pub fn probe(
    name: &'static str,
    region: u16,
    groups: u8,
    gen: GenCfg,
    sigs: Vec<&'static str>,
    nontrivial: fn(&Run) -> Option<String>,
) -> StateCampaign {
    // once the finding is fixed in /repo (Kn_FIXED = true) the campaign generates nothing and
    // tolerates nothing: it only stays in the plan so that the regress cases recorded for the
    // finding are still replayed inside the region and must now pass
    let fixed = super::region_fixed(region);
    StateCampaign {
        name,
        gen,
        cfg: Cfg::probe(groups, region),
        quick: if fixed { 0 } else { 3_000 },
        thorough: if fixed { 0 } else { 60_000 },
        probes: if fixed { Vec::new() } else { sigs },
        nontrivial,
    }
}
