//! E2: reference topic matcher and validators, written level by level from MQTT 3.1.1 §4.7
//! plus this code base's documented rule that a topic starting with '$' matches no filter.
//! Used by C12 directly and by the broker model (C01 etc.) to decide expected delivery.

/// Reference: does `topic` match `filter`? Defined for valid topics and valid filters.
pub fn ref_matches(topic: &str, filter: &str) -> bool {
    if topic.starts_with('$') {
        return false;
    }
    let t: Vec<&str> = topic.split('/').collect();
    let f: Vec<&str> = filter.split('/').collect();
    let mut i = 0;
    loop {
        match (f.get(i), t.get(i)) {
            // multi-level wildcard: matches the parent and any number of child levels
            (Some(&"#"), _) => return true,
            (Some(&"+"), Some(_)) => {}
            (Some(fl), Some(tl)) => {
                if fl != tl {
                    return false;
                }
            }
            (Some(_), None) => return false,
            (None, Some(_)) => return false,
            (None, None) => return true,
        }
        i += 1;
    }
}

/// Reference: filter validity (non-empty; '+' and '#' only as whole levels; '#' only last)
pub fn ref_valid_filter(filter: &str) -> bool {
    if filter.is_empty() {
        return false;
    }
    let levels: Vec<&str> = filter.split('/').collect();
    let n = levels.len();
    for (i, l) in levels.iter().enumerate() {
        let has_hash = l.contains('#');
        let has_plus = l.contains('+');
        if has_hash && (*l != "#" || i + 1 != n) {
            return false;
        }
        if has_plus && *l != "+" {
            return false;
        }
    }
    true
}

/// Reference: topic names contain no wildcards
pub fn ref_valid_topic(topic: &str) -> bool {
    !topic.chars().any(|c| c == '+' || c == '#')
}

pub fn ref_has_wildcards(s: &str) -> bool {
    s.chars().any(|c| c == '+' || c == '#')
}
