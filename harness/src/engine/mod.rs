//! Engine core shared by every property: seed plumbing, sharded proptest campaigns,
//! signature-preserving shrinking, replay files, known-finding matching, evidence writer.
//!
//! A *campaign* is (strategy, check). A *check* executes one generated case against the
//! real rumqtt code and an explicit oracle and returns `Err(Failure)` on a violation.
//! Everything random comes from proptest's runner, seeded from VERIF_SEED.

use proptest::strategy::{Strategy, ValueTree};
use proptest::test_runner::{Config, RngSeed, TestCaseError, TestError, TestRunner};
use serde::de::DeserializeOwned;
use serde::Serialize;
use serde_json::{json, Value};
use std::cell::RefCell;
use std::collections::hash_map::DefaultHasher;
use std::collections::{BTreeMap, HashSet};
use std::hash::{Hash, Hasher};
use std::panic::{catch_unwind, AssertUnwindSafe};
use std::path::{Path, PathBuf};
use std::sync::atomic::{AtomicU64, Ordering};
use std::sync::Mutex;
use std::time::Instant;

pub mod known;

#[derive(Clone, Copy, PartialEq, Eq, Debug)]
pub enum Tier {
    Quick,
    Thorough,
}

impl Tier {
    pub fn name(self) -> &'static str {
        match self {
            Tier::Quick => "quick",
            Tier::Thorough => "thorough",
        }
    }
    /// pick by tier
    pub fn pick<T>(self, quick: T, thorough: T) -> T {
        match self {
            Tier::Quick => quick,
            Tier::Thorough => thorough,
        }
    }
}

/// A violated oracle clause.
#[derive(Clone, Debug)]
pub struct Failure {
    /// Stable structural key of the failure: oracle clause plus the structural part of what
    /// went wrong (panic location, error kind). Used to match known findings and to keep
    /// shrinking inside one failure class.
    pub signature: String,
    /// Free-text detail (observed vs expected)
    pub detail: String,
}

impl Failure {
    pub fn new(signature: impl Into<String>, detail: impl Into<String>) -> Failure {
        Failure {
            signature: signature.into(),
            detail: detail.into(),
        }
    }
}

#[macro_export]
macro_rules! fail {
    ($sig:expr, $($arg:tt)*) => {
        return Err($crate::engine::Failure::new($sig, format!($($arg)*)))
    };
}

#[macro_export]
macro_rules! ensure {
    ($cond:expr, $sig:expr, $($arg:tt)*) => {
        if !($cond) {
            return Err($crate::engine::Failure::new($sig, format!($($arg)*)));
        }
    };
}

/// Per-case observations reported by a check (classification, non-triviality).
#[derive(Default)]
pub struct Obs {
    /// Some(key) when the case is non-trivial by the property's rule; `key` identifies the
    /// case's shape for the distinct count (in addition to the hash of the whole case).
    pub nontrivial: Option<String>,
    pub classes: Vec<&'static str>,
    /// Numeric counters accumulated over the campaign (skipped ops, steps, ...)
    pub counters: Vec<(&'static str, u64)>,
    /// Optional compact rendering for the evidence sample (defaults to the serialized case)
    pub sample: Option<Value>,
    /// debug-assertion-only or otherwise informational notes
    pub notes: Vec<String>,
}

impl Obs {
    pub fn class(&mut self, c: &'static str) {
        if !self.classes.contains(&c) {
            self.classes.push(c);
        }
    }
    pub fn class_if(&mut self, cond: bool, c: &'static str) {
        if cond {
            self.class(c)
        }
    }
    pub fn count(&mut self, k: &'static str, n: u64) {
        self.counters.push((k, n));
    }
    pub fn nontrivial(&mut self, key: impl Into<String>) {
        self.nontrivial = Some(key.into());
    }
}

pub trait Campaign: Sync {
    type Case: std::fmt::Debug + Clone + Serialize + DeserializeOwned + Send + 'static;
    fn name(&self) -> &'static str;
    fn strategy(&self, tier: Tier) -> proptest::strategy::BoxedStrategy<Self::Case>;
    fn cases(&self, tier: Tier) -> u64;
    fn check(&self, case: &Self::Case, obs: &mut Obs) -> Result<(), Failure>;
    /// Signatures (exact or prefix ending with '*') of known findings this campaign is
    /// expected to hit (probe campaigns only). Main campaigns return an empty list.
    fn probes_known(&self) -> Vec<&'static str> {
        Vec::new()
    }
    /// Override the number of shrink iterations
    fn max_shrink_iters(&self, _tier: Tier) -> u32 {
        4000
    }
}

// Thread-local record of the last panic (message + location), filled by the global hook.
thread_local! {
    static LAST_PANIC: RefCell<Option<(String, String)>> = const { RefCell::new(None) };
    static QUIET_PANICS: RefCell<u32> = const { RefCell::new(0) };
}

pub fn install_panic_hook() {
    let default = std::panic::take_hook();
    std::panic::set_hook(Box::new(move |info| {
        let msg = if let Some(s) = info.payload().downcast_ref::<&str>() {
            s.to_string()
        } else if let Some(s) = info.payload().downcast_ref::<String>() {
            s.clone()
        } else {
            "<non-string panic>".to_string()
        };
        let loc = info
            .location()
            .map(|l| format!("{}:{}", l.file(), l.line()))
            .unwrap_or_else(|| "<unknown>".into());
        LAST_PANIC.with(|p| *p.borrow_mut() = Some((msg, loc)));
        let quiet = QUIET_PANICS.with(|q| *q.borrow()) > 0;
        if !quiet && std::env::var_os("VERIF_VERBOSE").is_some() {
            default(info);
        }
    }));
}

/// Normalises a panic message so that the signature does not depend on case-specific values
fn normalise_panic_msg(msg: &str) -> String {
    // keep the constant head of the message only: cut at the first quote/backtick (what
    // follows is case data), replace digit runs by N, cap the length
    let head = msg
        .split(|c| c == '`' || c == '\'' || c == '"')
        .next()
        .unwrap_or("");
    let mut out = String::new();
    let mut last_digit = false;
    for ch in head.chars().take(60) {
        if ch.is_ascii_digit() {
            if !last_digit {
                out.push('N');
            }
            last_digit = true;
        } else {
            last_digit = false;
            out.push(if ch.is_whitespace() { '_' } else { ch });
        }
    }
    out.trim_end_matches('_').to_string()
}

/// Strips the absolute prefix of a source location: `/repo/rumqttd/src/x.rs:12` -> `rumqttd/src/x.rs`
/// (line numbers are dropped so unrelated edits do not change the signature)
fn normalise_loc(loc: &str) -> String {
    let l = loc.rsplit_once(':').map(|(a, _)| a).unwrap_or(loc);
    let l = l.strip_prefix("/repo/").unwrap_or(l);
    if let Some(idx) = l.find("/registry/src/") {
        let rest = &l[idx + "/registry/src/".len()..];
        return rest.split_once('/').map(|(_, b)| b).unwrap_or(rest).to_string();
    }
    l.to_string()
}

/// Runs `f`, converting a panic into a Failure whose signature is `panic:<clause>:<loc>:<msg>`
pub fn guard<T>(clause: &str, f: impl FnOnce() -> T) -> Result<T, Failure> {
    QUIET_PANICS.with(|q| *q.borrow_mut() += 1);
    LAST_PANIC.with(|p| *p.borrow_mut() = None);
    let r = catch_unwind(AssertUnwindSafe(f));
    QUIET_PANICS.with(|q| *q.borrow_mut() -= 1);
    match r {
        Ok(v) => Ok(v),
        Err(_) => {
            let (msg, loc) = LAST_PANIC
                .with(|p| p.borrow_mut().take())
                .unwrap_or_else(|| ("<unknown>".into(), "<unknown>".into()));
            Err(Failure::new(
                format!(
                    "panic:{}:{}:{}",
                    clause,
                    normalise_loc(&loc),
                    normalise_panic_msg(&msg)
                ),
                format!("panicked at {loc}: {msg}"),
            ))
        }
    }
}

pub fn hash_of<T: Hash>(t: &T) -> u64 {
    let mut h = DefaultHasher::new();
    t.hash(&mut h);
    h.finish()
}

pub fn mix_seed(seed: u64, parts: &[&str], shard: u64) -> u64 {
    // splitmix-style, stable across runs (DefaultHasher::new() uses fixed keys)
    let mut h = DefaultHasher::new();
    seed.hash(&mut h);
    for p in parts {
        p.hash(&mut h);
    }
    shard.hash(&mut h);
    h.finish()
}

/// Monotone index mapping so that shrinking an index shrinks the choice
pub fn idx(i: u16, len: usize) -> usize {
    if len == 0 {
        0
    } else {
        ((i as usize) * len) >> 16
    }
}

#[derive(Clone, Debug)]
pub struct FoundViolation {
    pub campaign: String,
    pub failure: Failure,
    pub case: Value,
    pub shrunk: bool,
}

/// Accumulated result of all campaigns of one property run
pub struct Report {
    pub property: &'static str,
    pub tier: Tier,
    pub seed: u64,
    pub started: Instant,
    pub evaluations: u64,
    pub nontrivial_hashes: HashSet<u64>,
    pub nontrivial_keys: BTreeMap<String, u64>,
    pub classes: BTreeMap<String, u64>,
    pub counters: BTreeMap<String, u64>,
    pub samples: Vec<Value>,
    pub campaigns: Vec<Value>,
    pub violations: Vec<FoundViolation>,
    pub known_hits: Vec<(String, String)>,
    pub notes: Vec<String>,
    pub exhaustive_subdomains: Vec<String>,
    pub inconclusive: Vec<String>,
    pub rule: String,
    pub assumptions: Vec<String>,
    /// non-trivial cases visited by enumerators (each visited exactly once by construction)
    pub enumerated_nontrivial: u64,
}

impl Report {
    pub fn new(property: &'static str, tier: Tier, seed: u64) -> Report {
        Report {
            property,
            tier,
            seed,
            started: Instant::now(),
            evaluations: 0,
            nontrivial_hashes: HashSet::new(),
            nontrivial_keys: BTreeMap::new(),
            classes: BTreeMap::new(),
            counters: BTreeMap::new(),
            samples: Vec::new(),
            campaigns: Vec::new(),
            violations: Vec::new(),
            known_hits: Vec::new(),
            notes: Vec::new(),
            exhaustive_subdomains: Vec::new(),
            inconclusive: Vec::new(),
            rule: String::new(),
            assumptions: Vec::new(),
            enumerated_nontrivial: 0,
        }
    }

    pub fn distinct_nontrivial(&self) -> u64 {
        self.nontrivial_hashes.len() as u64 + self.enumerated_nontrivial
    }

    pub fn note(&mut self, s: impl Into<String>) {
        let s = s.into();
        if self.notes.len() < 50 && !self.notes.contains(&s) {
            self.notes.push(s);
        }
    }

    /// Record one executed case from a hand-written enumerator (same bookkeeping as a campaign)
    pub fn record(&mut self, case_hash: u64, obs: Obs, sample: impl FnOnce() -> Value) {
        self.evaluations += 1;
        for c in &obs.classes {
            *self.classes.entry(c.to_string()).or_insert(0) += 1;
        }
        for (k, n) in &obs.counters {
            *self.counters.entry(k.to_string()).or_insert(0) += n;
        }
        if let Some(key) = obs.nontrivial {
            if self.nontrivial_hashes.insert(case_hash) {
                *self.nontrivial_keys.entry(key).or_insert(0) += 1;
                if self.samples.len() < 6 {
                    self.samples.push(obs.sample.unwrap_or_else(sample));
                }
            }
        }
        for n in obs.notes {
            self.note(n);
        }
    }
}

/// Per-shard accumulation (merged in shard order so that the result is deterministic)
#[derive(Default)]
struct ShardAcc {
    evaluations: u64,
    nontrivial: Vec<(u64, String, Option<Value>)>,
    classes: BTreeMap<String, u64>,
    counters: BTreeMap<String, u64>,
    notes: Vec<String>,
    violation: Option<FoundViolation>,
    rejected: u64,
}

static PROGRESS: AtomicU64 = AtomicU64::new(0);
static WATCHDOG_LIMIT_S: AtomicU64 = AtomicU64::new(0);

fn now_s() -> u64 {
    static START: Mutex<Option<Instant>> = Mutex::new(None);
    let mut g = START.lock().unwrap();
    let s = g.get_or_insert_with(Instant::now);
    s.elapsed().as_secs()
}

pub fn tick() {
    PROGRESS.store(now_s(), Ordering::Relaxed);
}

/// Starts the watchdog: if no case completes for `limit_s` seconds the process exits with 2
/// (inconclusive) — never a violation.
pub fn start_watchdog(limit_s: u64) {
    WATCHDOG_LIMIT_S.store(limit_s, Ordering::Relaxed);
    tick();
    std::thread::spawn(move || loop {
        std::thread::sleep(std::time::Duration::from_secs(2));
        let last = PROGRESS.load(Ordering::Relaxed);
        let lim = WATCHDOG_LIMIT_S.load(Ordering::Relaxed);
        if lim > 0 && now_s().saturating_sub(last) > lim {
            println!("INCONCLUSIVE watchdog: no case finished within {lim}s");
            std::process::exit(2);
        }
    });
}

pub fn shards_for(tier: Tier) -> u64 {
    // fixed (machine independent) so that a run is a pure function of (code, seed)
    match tier {
        Tier::Quick => 8,
        Tier::Thorough => 16,
    }
}

fn run_shard<C: Campaign>(
    c: &C,
    property: &str,
    tier: Tier,
    seed: u64,
    shard: u64,
    cases: u64,
    known: &known::Known,
) -> ShardAcc {
    let acc = RefCell::new(ShardAcc::default());
    let first_sig: RefCell<Option<String>> = RefCell::new(None);
    let cfg = Config {
        cases: cases as u32,
        failure_persistence: None,
        rng_seed: RngSeed::Fixed(mix_seed(seed, &[property, c.name()], shard)),
        max_shrink_iters: c.max_shrink_iters(tier),
        max_global_rejects: 65536,
        max_local_rejects: 65536,
        ..Config::default()
    };
    let mut runner = TestRunner::new(cfg);
    let strat = c.strategy(tier);
    let probes = c.probes_known();
    let is_probe = !probes.is_empty();
    let result = runner.run(&strat, |case| {
        let shrinking = first_sig.borrow().is_some();
        let mut obs = Obs::default();
        let r = match guard("harness", || c.check(&case, &mut obs)) {
            Ok(r) => r,
            Err(f) => Err(f),
        };
        tick();
        if !shrinking {
            let mut a = acc.borrow_mut();
            a.evaluations += 1;
            for cl in &obs.classes {
                *a.classes.entry(cl.to_string()).or_insert(0) += 1;
            }
            for (k, n) in &obs.counters {
                *a.counters.entry(k.to_string()).or_insert(0) += n;
            }
            for n in obs.notes.drain(..) {
                if a.notes.len() < 20 && !a.notes.contains(&n) {
                    a.notes.push(n);
                }
            }
            if let Some(key) = obs.nontrivial.take() {
                let h = hash_of(&serde_json::to_string(&case).unwrap_or_default());
                let sample = if a.nontrivial.len() < 3 {
                    Some(
                        obs.sample
                            .take()
                            .unwrap_or_else(|| serde_json::to_value(&case).unwrap_or(Value::Null)),
                    )
                } else {
                    None
                };
                a.nontrivial.push((h, key, sample));
            }
        }
        match r {
            Ok(()) => Ok(()),
            Err(f) => {
                // In a probe campaign, failures that match the probed known finding do not
                // stop the campaign (they are counted); anything else does.
                if is_probe
                    && !shrinking
                    && known::matches_any(&probes, &f.signature)
                    && known.find(property, &f.signature).is_some()
                {
                    let mut a = acc.borrow_mut();
                    *a.counters.entry("known_finding_hits".into()).or_insert(0) += 1;
                    *a.counters
                        .entry(format!("known_hit:{}", f.signature))
                        .or_insert(0) += 1;
                    return Ok(());
                }
                let mut fs = first_sig.borrow_mut();
                match &*fs {
                    None => {
                        *fs = Some(f.signature.clone());
                        Err(TestCaseError::fail(f.signature))
                    }
                    Some(sig) if *sig == f.signature => Err(TestCaseError::fail(f.signature)),
                    // a different failure class met while shrinking: not a simplification of
                    // the original failure
                    Some(_) => Ok(()),
                }
            }
        }
    });
    let mut a = acc.into_inner();
    match result {
        Ok(()) => {}
        Err(TestError::Fail(_, case)) => {
            let mut obs = Obs::default();
            let f = match guard("harness", || c.check(&case, &mut obs)) {
                Ok(Ok(())) => Failure::new(
                    first_sig.borrow().clone().unwrap_or_default(),
                    "shrunk case did not fail again (non-deterministic failure)".to_string(),
                ),
                Ok(Err(f)) => f,
                Err(f) => f,
            };
            a.violation = Some(FoundViolation {
                campaign: c.name().to_string(),
                failure: f,
                case: serde_json::to_value(&case).unwrap_or(Value::Null),
                shrunk: true,
            });
        }
        Err(TestError::Abort(reason)) => {
            a.rejected += 1;
            a.notes.push(format!("campaign aborted: {reason}"));
        }
    }
    a
}

/// Runs one campaign sharded over threads and merges it into the report.
pub fn run_campaign<C: Campaign>(rep: &mut Report, c: &C, known: &known::Known) {
    let tier = rep.tier;
    let total = c.cases(tier);
    if total == 0 {
        return;
    }
    let shards = shards_for(tier).min(total).max(1);
    let per = total.div_ceil(shards);
    let t0 = Instant::now();
    let seed = rep.seed;
    let property = rep.property;
    let accs: Vec<ShardAcc> = std::thread::scope(|s| {
        let hs: Vec<_> = (0..shards)
            .map(|sh| {
                std::thread::Builder::new()
                    .stack_size(64 << 20)
                    .spawn_scoped(s, move || run_shard(c, property, tier, seed, sh, per, known))
                    .unwrap()
            })
            .collect();
        hs.into_iter().map(|h| h.join().unwrap()).collect()
    });
    let mut evals = 0;
    let mut nt = 0;
    for a in accs {
        evals += a.evaluations;
        rep.evaluations += a.evaluations;
        for (k, v) in a.classes {
            *rep.classes.entry(format!("{}:{}", c.name(), k)).or_insert(0) += v;
        }
        for (k, v) in a.counters {
            *rep.counters.entry(format!("{}:{}", c.name(), k)).or_insert(0) += v;
        }
        for (h, key, sample) in a.nontrivial {
            let h = hash_of(&(c.name(), h));
            if rep.nontrivial_hashes.insert(h) {
                nt += 1;
                *rep.nontrivial_keys
                    .entry(format!("{}:{}", c.name(), key))
                    .or_insert(0) += 1;
                if let Some(s) = sample {
                    let per_campaign = rep
                        .samples
                        .iter()
                        .filter(|v| v.get("campaign").and_then(|x| x.as_str()) == Some(c.name()))
                        .count();
                    if per_campaign < 2 && rep.samples.len() < 12 {
                        rep.samples.push(json!({"campaign": c.name(), "case": s}));
                    }
                }
            }
        }
        for n in a.notes {
            rep.note(n);
        }
        if let Some(v) = a.violation {
            // one report per failure class (signature)
            if !rep
                .violations
                .iter()
                .any(|o| o.failure.signature == v.failure.signature)
            {
                rep.violations.push(v);
            }
        }
    }
    rep.campaigns.push(json!({
        "campaign": c.name(),
        "cases_requested": total,
        "cases_executed": evals,
        "distinct_nontrivial": nt,
        "shards": shards,
        "probe_for": c.probes_known(),
        "wall_s": t0.elapsed().as_secs_f64(),
    }));
}

/// Re-executes a saved case without proptest.
pub fn replay_case<C: Campaign>(c: &C, case: &Value) -> Result<Result<(), Failure>, String> {
    let case: C::Case = serde_json::from_value(case.clone()).map_err(|e| e.to_string())?;
    let mut obs = Obs::default();
    Ok(match guard("harness", || c.check(&case, &mut obs)) {
        Ok(r) => r,
        Err(f) => Err(f),
    })
}

pub struct ReplayFile {
    pub property: String,
    pub campaign: String,
    pub case: Value,
    pub signature: String,
    /// how many times the case is re-executed (router-level cases are order sensitive)
    pub repeat: u32,
    /// "known": the case reproduces a listed known finding; anything else: it must pass
    pub expect: String,
}

pub fn load_replay(path: &Path) -> Result<ReplayFile, String> {
    let s = std::fs::read_to_string(path).map_err(|e| format!("{}: {e}", path.display()))?;
    let v: Value = serde_json::from_str(&s).map_err(|e| format!("{}: {e}", path.display()))?;
    Ok(ReplayFile {
        property: v["property"].as_str().unwrap_or("").to_string(),
        campaign: v["campaign"].as_str().unwrap_or("").to_string(),
        case: v["case"].clone(),
        signature: v["signature"].as_str().unwrap_or("").to_string(),
        repeat: v["repeat"].as_u64().unwrap_or(1) as u32,
        expect: v["expect"].as_str().unwrap_or("pass").to_string(),
    })
}

pub fn verif_root() -> PathBuf {
    std::env::var("VERIF_ROOT")
        .map(PathBuf::from)
        .unwrap_or_else(|_| PathBuf::from("/verif"))
}

pub fn write_replay(rep: &Report, v: &FoundViolation, n: usize) -> PathBuf {
    let dir = verif_root().join("replays").join(rep.property);
    let _ = std::fs::create_dir_all(&dir);
    let path = dir.join(format!(
        "{}-{}-seed{}-{}.json",
        v.campaign,
        rep.tier.name(),
        rep.seed,
        n
    ));
    let body = json!({
        "property": rep.property,
        "campaign": v.campaign,
        "seed": rep.seed,
        "tier": rep.tier.name(),
        "signature": v.failure.signature,
        "detail": v.failure.detail,
        "shrunk": v.shrunk,
        "case": v.case,
    });
    let _ = std::fs::write(&path, serde_json::to_string_pretty(&body).unwrap());
    path
}

/// Writes /verif/evidence/<id>.json
pub fn write_evidence(rep: &Report, min_nontrivial: u64) -> bool {
    let dir = verif_root().join("evidence");
    let _ = std::fs::create_dir_all(&dir);
    let distinct = rep.distinct_nontrivial();
    let mut samples = rep.samples.clone();
    if samples.is_empty() {
        samples.push(json!("no non-trivial case was generated"));
    }
    let body = json!({
        "property_id": rep.property,
        "tier": rep.tier.name(),
        "seed": rep.seed,
        "level": "exploration",
        "coverage": {
            "evaluations": rep.evaluations,
            "distinct_nontrivial": distinct,
            "rule": rep.rule,
            "samples": samples,
            "exhaustive": false,
            "exhaustive_subdomains": rep.exhaustive_subdomains,
            "classes": rep.classes,
            "nontrivial_by_shape": rep.nontrivial_keys,
            "counters": rep.counters,
            "campaigns": rep.campaigns,
            "known_findings_reported": rep.known_hits.iter().map(|(k, w)| json!({"kf": k, "what": w})).collect::<Vec<_>>(),
            "notes": rep.notes,
            "inconclusive": rep.inconclusive,
        },
        "assumptions": rep.assumptions,
        "wall_s": rep.started.elapsed().as_secs_f64(),
        "violations": rep.violations.len(),
    });
    let path = dir.join(format!("{}.json", rep.property));
    std::fs::write(&path, serde_json::to_string_pretty(&body).unwrap()).is_ok()
        && distinct >= min_nontrivial
}

/// Convenience: `prop_oneof`-free weighted choice helper is proptest's own; here only a
/// helper to turn a strategy value into its current value once (for golden corpora).
pub fn sample_once<S: Strategy>(s: &S, seed: u64) -> S::Value {
    let mut runner = TestRunner::new(Config {
        rng_seed: RngSeed::Fixed(seed),
        failure_persistence: None,
        ..Config::default()
    });
    s.new_tree(&mut runner).unwrap().current()
}

/// Object-safe view of a campaign
pub trait DynCampaign: Sync {
    fn name(&self) -> &'static str;
    fn probes(&self) -> Vec<&'static str>;
    fn run(&self, rep: &mut Report, known: &known::Known);
    fn replay(&self, case: &Value) -> Result<Result<(), Failure>, String>;
}

impl<C: Campaign> DynCampaign for C {
    fn name(&self) -> &'static str {
        Campaign::name(self)
    }
    fn probes(&self) -> Vec<&'static str> {
        self.probes_known()
    }
    fn run(&self, rep: &mut Report, known: &known::Known) {
        run_campaign(rep, self, known)
    }
    fn replay(&self, case: &Value) -> Result<Result<(), Failure>, String> {
        replay_case(self, case)
    }
}

/// What one property contributes: campaigns, enumerators, evidence rule
pub struct Plan {
    pub campaigns: Vec<Box<dyn DynCampaign>>,
    /// hand-written enumerators (exhaustive sub-domains); they record into the report and
    /// push violations themselves
    pub enumerators: Vec<Box<dyn Fn(&mut Report) + Sync>>,
    pub rule: String,
    pub assumptions: Vec<String>,
    /// generator-health threshold: fewer distinct non-trivial cases than this is exit 2
    pub min_nontrivial: u64,
}
