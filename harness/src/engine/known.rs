//! /verif/KNOWN_FINDINGS.txt — read-only at run time.
//!
//! known: property=<id> kf=<name> signature=<sig> region=<region> replay=<path> :: <what fails>
//! fixed: property=<id> <commit> <what failed>

use super::verif_root;

#[derive(Clone, Debug)]
pub struct KnownEntry {
    pub property: String,
    pub kf: String,
    pub signature: String,
    pub region: String,
    pub replay: String,
    /// probe campaign that reproduces it (optional; tells two findings with one signature apart)
    pub campaign: String,
    pub what: String,
}

#[derive(Clone, Debug, Default)]
pub struct Known {
    pub entries: Vec<KnownEntry>,
    pub fixed: Vec<String>,
}

pub fn sig_matches(pattern: &str, sig: &str) -> bool {
    match pattern.strip_suffix('*') {
        Some(prefix) => sig.starts_with(prefix),
        None => pattern == sig,
    }
}

pub fn matches_any(patterns: &[&str], sig: &str) -> bool {
    patterns.iter().any(|p| sig_matches(p, sig))
}

impl Known {
    pub fn load() -> Known {
        let path = verif_root().join("KNOWN_FINDINGS.txt");
        let text = std::fs::read_to_string(path).unwrap_or_default();
        let mut k = Known::default();
        for line in text.lines() {
            let line = line.trim();
            if let Some(rest) = line.strip_prefix("known:") {
                let (head, what) = rest.split_once("::").unwrap_or((rest, ""));
                let mut e = KnownEntry {
                    property: String::new(),
                    kf: String::new(),
                    signature: String::new(),
                    region: String::new(),
                    replay: String::new(),
                    campaign: String::new(),
                    what: what.trim().to_string(),
                };
                for tok in head.split_whitespace() {
                    if let Some((k, v)) = tok.split_once('=') {
                        match k {
                            "property" => e.property = v.to_string(),
                            "kf" => e.kf = v.to_string(),
                            "signature" => e.signature = v.to_string(),
                            "region" => e.region = v.to_string(),
                            "replay" => e.replay = v.to_string(),
                            "campaign" => e.campaign = v.to_string(),
                            _ => {}
                        }
                    }
                }
                if !e.property.is_empty() && !e.signature.is_empty() {
                    k.entries.push(e);
                }
            } else if line.starts_with("fixed:") {
                k.fixed.push(line.to_string());
            }
        }
        k
    }

    pub fn for_property<'a>(&'a self, id: &'a str) -> impl Iterator<Item = &'a KnownEntry> + 'a {
        self.entries.iter().filter(move |e| e.property == id)
    }

    /// Like `find`, preferring the entry whose replay file or probe campaign is `ctx` (two
    /// findings may share a signature)
    pub fn find_ctx(&self, id: &str, sig: &str, ctx: &str) -> Option<&KnownEntry> {
        let mut it = self.entries.iter().filter(|e| e.property == id && sig_matches(&e.signature, sig));
        let all: Vec<&KnownEntry> = it.by_ref().collect();
        all.iter()
            .copied()
            .find(|e| !ctx.is_empty() && ((!e.replay.is_empty() && e.replay.ends_with(ctx)) || e.campaign == ctx))
            .or(all.first().copied())
    }

    /// The known entry (of this property) matching a failure signature, if any
    pub fn find(&self, id: &str, sig: &str) -> Option<&KnownEntry> {
        self.entries
            .iter()
            .find(|e| e.property == id && sig_matches(&e.signature, sig))
    }
}
