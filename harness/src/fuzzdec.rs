//! Byte-level entry points shared by the cargo-fuzz targets (/verif/fuzz) and by the replay
//! campaigns `fuzz_<target>`: one function per target decodes the fuzzer's bytes into a case
//! (hand decoding through `arbitrary::Unstructured`) and runs the same oracle as the proptest
//! campaigns. A crashing libFuzzer input is therefore replayable through `vcheck --replay`.

use crate::brokersim::observe::Flags;
use crate::brokersim::run::run_history;
use crate::brokersim::types::*;
use crate::codec::Kind;
use crate::commitlog::{run_case, Case as LogCase, Op as LogOp};
use crate::engine::*;
use arbitrary::Unstructured;
use proptest::prelude::*;
use serde::{Deserialize, Serialize};

pub const TARGETS: &[&str] = &["decode", "roundtrip", "topic", "commitlog", "router_events"];

pub fn run_target(target: &str, data: &[u8]) -> Result<(), Failure> {
    match target {
        "decode" => decode(data),
        "roundtrip" => roundtrip(data),
        "topic" => topic(data),
        "commitlog" => commitlog(data),
        "router_events" => router_events(data),
        other => Err(Failure::new("harness:unknown_fuzz_target", other.to_string())),
    }
}

/// C05: bytes -> (decoder, max, split points, stream)
pub fn decode(data: &[u8]) -> Result<(), Failure> {
    if data.len() < 4 {
        return Ok(());
    }
    let kind = [Kind::ClientV4, Kind::ClientV5, Kind::BrokerV4, Kind::BrokerV5][(data[0] & 3) as usize];
    let max = [0usize, 1, 2, 127, 128, 1024, 1 << 20, usize::MAX][(data[1] & 7) as usize];
    let nsplit = (data[2] & 3) as usize;
    let body = &data[3..];
    if body.len() < nsplit {
        return Ok(());
    }
    let (sp, stream) = body.split_at(nsplit);
    let splits: Vec<usize> = sp.iter().map(|b| *b as usize % (stream.len() + 1)).collect();
    crate::codec::oracle::decode_oracle(kind, max, stream, &splits)
}

/// C04, reverse direction: every decoder that accepts the bytes must re-encode / re-decode equal
pub fn roundtrip(data: &[u8]) -> Result<(), Failure> {
    let accepted = std::cell::Cell::new(0u32);
    crate::codec::oracle::roundtrip_from_bytes(data, &accepted)
}

/// C12: "topic\nfilter"
pub fn topic(data: &[u8]) -> Result<(), Failure> {
    let Ok(s) = std::str::from_utf8(data) else { return Ok(()) };
    let (topic, filter) = s.split_once('\n').unwrap_or((s, ""));
    crate::props::c12::check_string(topic)?;
    crate::props::c12::check_string(filter)?;
    crate::props::c12::check_pair(topic, filter)
}

/// C13: op sequence on CommitLog
pub fn commitlog(data: &[u8]) -> Result<(), Failure> {
    let mut u = Unstructured::new(data);
    let seg_size = *u.choose(&[1024usize, 1500, 4096]).unwrap_or(&1024);
    let max_segs = u.int_in_range(1..=5).unwrap_or(1);
    let mut ops = Vec::new();
    while !u.is_empty() && ops.len() < 400 {
        let Ok(k) = u.int_in_range(0u8..=9) else { break };
        let op = match k {
            0..=3 => LogOp::Append { size: u.int_in_range(1u32..=64).unwrap_or(1) },
            4 => LogOp::Append { size: u.int_in_range(400u32..=1100).unwrap_or(400) },
            5 => LogOp::Append { size: u.int_in_range(1025u32..=6000).unwrap_or(1025) },
            6 => LogOp::AppendFill { delta: u.arbitrary().unwrap_or(0) },
            _ => LogOp::Read { sel: u.arbitrary().unwrap_or(0), pick: u.arbitrary().unwrap_or(0), len_ix: u.int_in_range(0u8..=7).unwrap_or(0) },
        };
        ops.push(op);
    }
    let case = LogCase { seg_size, max_segs, ops };
    let mut obs = Obs::default();
    run_case(&case, &mut obs).map(|_| ())
}

const TOPICS: &[&str] = &["a", "a/b", "b", "é/x", "$SYS/x", "", "a/+", "#", "😀"];
const FILTERS: &[&str] = &["a", "a/+", "a/#", "#", "+", "$share/g1/a/#", "$share/g2/#", "$share/", "$x", "", "é/+", "a/#/b"];

fn sim_op(u: &mut Unstructured, n: usize) -> arbitrary::Result<Op> {
    let c = u.int_in_range(0..=n - 1)?;
    Ok(match u.int_in_range(0u8..=23)? {
        0 => Op::Connect {
            c,
            clean: u.arbitrary()?,
            will: if u.arbitrary()? { Some(Will { topic: u.choose(TOPICS)?.to_string(), qos: u.int_in_range(0..=2)?, retain: u.arbitrary()?, size: 6 }) } else { None },
            alias_max: if u.arbitrary()? { 10 } else { 0 },
        },
        1 | 2 => Op::Subscribe { c, filters: vec![(u.choose(FILTERS)?.to_string(), u.int_in_range(0..=2)?)], sub_id: if u.arbitrary()? { Some(u.int_in_range(0..=3)?) } else { None }, notify: u.arbitrary()? },
        3 => Op::Unsubscribe { c, filters: vec![u.choose(FILTERS)?.to_string()], notify: u.arbitrary()? },
        4..=7 => Op::Publish { c, topic: u.choose(TOPICS)?.to_string(), qos: u.int_in_range(0..=2)?, retain: u.arbitrary()?, size: u.int_in_range(0..=40)?, props: None, notify: u.arbitrary()?, dup: false },
        8 => Op::Release { c, notify: true },
        9 => Op::Disconnect { c, notify: true, with_props: false },
        10 => Op::DropLink { c },
        11 => Op::Turn { n: u.int_in_range(1..=3)? },
        12 => Op::Drain { c },
        13 => Op::Ack { c, n: u.int_in_range(1..=200)? },
        14 => Op::Ready { c },
        15 => Op::Settle,
        16 => Op::PublishWill { c },
        17 => Op::Raw {
            c,
            pkt: match u.int_in_range(0u8..=7)? {
                0 => Raw::PubAck(u.int_in_range(0..=101)?),
                1 => Raw::PubRec(u.int_in_range(0..=101)?),
                2 => Raw::PubRel(u.int_in_range(0..=101)?),
                3 => Raw::PubComp(u.int_in_range(0..=101)?),
                4 => {
                    let n = u.int_in_range(0..=6)?;
                    Raw::PublishBytes { topic: u.bytes(n)?.to_vec(), qos: u.int_in_range(0..=2)?, retain: u.arbitrary()? }
                }
                5 => {
                    let n = u.int_in_range(0..=8)?;
                    Raw::Subscribe { filter: String::from_utf8_lossy(u.bytes(n)?).to_string(), qos: u.int_in_range(0..=2)?, sub_id: None }
                }
                6 => Raw::PubRelProps(u.int_in_range(0..=101)?),
                _ => Raw::Connect,
            },
            notify: true,
        },
        18 => Op::Stale { id: *u.choose(&[0usize, 1, 2, 3, 7, 1_000_000, usize::MAX])?, kind: u.int_in_range(0..=3)? },
        19 => Op::Zombie { c, kind: u.int_in_range(0..=2)? },
        20 => Op::Tick { alerts: u.arbitrary()? },
        21 => Op::NewMeter { keep: u.arbitrary()? },
        22 => Op::Shadow { c, filter: u.choose(FILTERS)?.to_string() },
        _ => Op::Notify { c },
    })
}

/// C03: history of the broker simulator over the widest op alphabet
pub fn router_events(data: &[u8]) -> Result<(), Failure> {
    let mut u = Unstructured::new(data);
    let n = 3usize;
    let cfg = Cfg {
        seg_size: *u.choose(&[1024usize, 2048, 65536]).unwrap_or(&1024),
        seg_count: u.int_in_range(1..=4).unwrap_or(2),
        max_out: *u.choose(&[1u64, 2, 5, 200]).unwrap_or(&200),
        max_conn: 8,
        strategy: u.int_in_range(0..=2).unwrap_or(0),
    };
    let clients = (0..n)
        .map(|i| ClientSpec { id: format!("c{i}"), auto_ack: i != 1, auto_ready: i != 2, v5: i == 0, dynamic_filters: false })
        .collect();
    let mut ops = vec![
        Op::Connect { c: 0, clean: u.arbitrary().unwrap_or(true), will: None, alias_max: 0 },
        Op::Connect { c: 1, clean: u.arbitrary().unwrap_or(true), will: None, alias_max: 0 },
        Op::Turn { n: 1 },
    ];
    while !u.is_empty() && ops.len() < 300 {
        match sim_op(&mut u, n) {
            Ok(o) => ops.push(o),
            Err(_) => break,
        }
    }
    let h = Hist { cfg, clients, ops };
    let flags = Flags { slabs: true, liveness_probe: true, witnesses: Some(vec![]), ..Flags::default() };
    let mut obs = Obs::default();
    run_history(&h, &flags, &mut obs).map(|_| ())
}

/// Replay-only campaign: re-executes a libFuzzer input (hex) through `run_target`
#[derive(Clone, Debug, Serialize, Deserialize)]
pub struct FuzzCase {
    pub target: String,
    pub hex: String,
}

pub struct FuzzReplay(pub &'static str, pub &'static str);

impl Campaign for FuzzReplay {
    type Case = FuzzCase;
    fn name(&self) -> &'static str {
        self.0
    }
    fn cases(&self, _tier: Tier) -> u64 {
        0
    }
    fn strategy(&self, _tier: Tier) -> BoxedStrategy<FuzzCase> {
        let t = self.1.to_string();
        Just(FuzzCase { target: t, hex: String::new() }).boxed()
    }
    fn check(&self, c: &FuzzCase, _obs: &mut Obs) -> Result<(), Failure> {
        let bytes: Vec<u8> = (0..c.hex.len() / 2)
            .filter_map(|i| u8::from_str_radix(&c.hex[2 * i..2 * i + 2], 16).ok())
            .collect();
        run_target(&c.target, &bytes)
    }
}
